"""C15 Storage round-trip: key padding, stride-consistent lengths, offsets of
parallel loading, dtype agreement."""
import ast

from ..core import (AnalysisIncomplete, call_name, const_value, kwarg,
                    names_loaded, params, param_default, target_names, u,
                    walk_expr, walk_local)
from ..patterns import (Cmp, assigns_to, calls_in, check_empty_allocs,
                        check_warn_calls, conjuncts, finfo, returns_of,
                        subscript_stores)

RA = 'enspara/ra/ra.py'
LO = 'enspara/util/load.py'
IO = 'enspara/mpi/io.py'

EXPLANATION = (
    'Static decision of the structural necessary conditions of the storage '
    'round trip: (D1) HDF5 row keys are zero-padded to a width of at least '
    'the number of digits of the row count, one width for all keys, so '
    'lexicographic = numeric order for every row count; (D2) wherever a '
    'stride reaches the data, the lengths returned with it are ceil(n/stride) '
    '(ra.load, sound_trajectory, the striped h5/npy loaders); (D3) ra.load '
    'fills a zero-initialised buffer with checked running offsets over the '
    'SAME key sequence that produced the lengths, and a caller-supplied key '
    'list is never reordered; load_as_concatenated sizes the shared buffer, '
    'computes exclusive-prefix-sum offsets and returns lengths from one '
    'definition, each worker writes only arr[pos:pos+len(xyz)], results are '
    'collected in submission order and the total is checked; (D4) the stored '
    'atom type is the flat data\'s dtype and loaded dtypes are checked equal. '
    'Bit-identity of values, PyTables node order and scheduling are trusted/'
    'not decided.')


def is_ceil_div(e, n_text, s_text='stride'):
    txt = u(e).replace(' ', '')
    n = n_text.replace(' ', '')
    s = s_text
    forms = ['(%s+%s-1)//%s' % (n, s, s), '(%s-1+%s)//%s' % (n, s, s), '(%s+(%s-1))//%s' % (n, s, s),
             'math.ceil(%s/%s)' % (n, s), 'int(math.ceil(%s/%s))' % (n, s), '-(-%s//%s)' % (n, s),
             'int(np.ceil(%s/%s))' % (n, s), 'len(range(0,%s,%s))' % (n, s), '(%s-1)//%s+1' % (n, s)]
    return txt in forms


def d1_keys(ck, mod):
    rule = 'C15.D1.key-padding'
    fn = mod.func('save')
    ck.analysed(mod, fn)
    nz = [s for s in assigns_to(fn, 'n_zeros') if isinstance(s, ast.Assign)]
    ok = False
    for s in nz:
        v = s.value
        if isinstance(v, ast.BinOp) and isinstance(v.op, ast.Add) and isinstance(const_value(v.right), int) and const_value(v.right) >= 0:
            v = v.left
        if u(v) in ('len(str(len(array.lengths)))', 'len(str(len(array)))', 'len(str(len(array.lengths) - 1))'):
            ok = True
    ck.check(ok, rule, mod, nz[0] if nz else fn, 'save', '; '.join(u(s) for s in nz),
             'padding width >= number of digits of the row count',
             'the zero-padding width must be at least len(str(<number of rows>)): with a fixed/smaller width, keys of '
             'arrays with more rows sort as arr_10 < arr_2 and rows come back in the wrong order')
    zf = [c for c in calls_in(fn) if isinstance(c.func, ast.Attribute) and c.func.attr == 'zfill']
    ok = len(zf) == 1 and u(zf[0].func.value) == 'str(i)' and u(zf[0].args[0]) == 'n_zeros'
    ck.check(ok, rule, mod, zf[0] if zf else fn, 'save', u(zf[0]) if zf else 'zfill', 'every key uses the same width and the row index',
             'row keys must be tag + "_" + str(i).zfill(n_zeros)')
    node = [c for c in calls_in(fn) if (call_name(c) or '').endswith('create_carray')]
    ok = len(node) == 1 and u(kwarg(node[0], 'name')) == 't' and u(kwarg(node[0], 'shape')) == 'subarr.shape' and u(kwarg(node[0], 'atom')) == 'atom'
    ck.check(ok, rule + '.node', mod, node[0] if node else fn, 'save', u(node[0])[:160] if node else 'create_carray', 'one node per row with the row\'s own shape', 'create_carray must use the padded key, the row shape and the data atom')
    st = [s for s in walk_local(fn) if isinstance(s, ast.Assign) and u(s.targets[0]) == 'node[:]']
    ck.check(len(st) == 1 and u(st[0].value) == 'subarr', rule + '.node', mod, st[0] if st else fn, 'save', u(st[0]) if st else 'node[:] = subarr', 'row data written whole', 'node[:] = subarr expected')
    # D4 atom dtype
    at = [s for s in assigns_to(fn, 'atom') if isinstance(s, ast.Assign)]
    vals = sorted(u(s.value) for s in at)
    ck.check(vals == ['tables.Atom.from_dtype(array._data.dtype)', 'tables.Atom.from_dtype(subarr.dtype)'], 'C15.D4.dtype', mod, at[0] if at else fn, 'save', str(vals),
             'stored element type = dtype of the flat data (ragged) / of the array', 'the HDF5 atom must be built from the data dtype')
    loop = [l for l in walk_local(fn) if isinstance(l, ast.For)]
    ok = bool(loop) and u(loop[0].iter) == 'range(len(array))' and any(u(x) == 'subarr = array[i]' for x in loop[0].body)
    ck.check(ok, rule + '.rows', mod, loop[0] if loop else fn, 'save', u(loop[0].iter) if loop else 'loop', 'rows written in index order', 'save must iterate i over range(len(array)) and write array[i]')


def d_load(ck, mod):
    fn = mod.func('load')
    ck.analysed(mod, fn)
    fi = finfo(mod, fn)
    # D2 lengths
    ln = [s for s in assigns_to(fn, 'lengths') if isinstance(s, ast.Assign)]
    ok = len(ln) == 1 and isinstance(ln[0].value, ast.ListComp) and is_ceil_div(ln[0].value.elt, 'shape[0]') and \
        u(ln[0].value.generators[0].iter) == 'shapes'
    ck.check(ok, 'C15.D2.stride-lengths', mod, ln[0] if ln else fn, 'load', u(ln[0]) if ln else 'lengths',
             'row lengths = ceil(rows / stride)', 'with a stride the row lengths must be ceil(shape[0] / stride): floor division loses the '
             'last partial step, the unstrided length overstates it, and the lengths no longer partition the data')
    sh = [s for s in assigns_to(fn, 'shapes') if isinstance(s, ast.Assign)]
    ok = len(sh) == 1 and isinstance(sh[0].value, ast.ListComp) and u(sh[0].value.generators[0].iter) == 'keys'
    ck.check(ok, 'C15.D3.same-keys', mod, sh[0] if sh else fn, 'load', u(sh[0])[:140] if sh else 'shapes', 'shapes (hence lengths) follow the key sequence', 'shapes must be gathered by iterating over keys')
    loops = [l for l in walk_local(fn) if isinstance(l, ast.For) and any(isinstance(x, ast.Assign) and u(x.targets[0]).startswith('concat[') for x in l.body)]
    if len(loops) != 1:
        ck.missing('C15.D3.fill', 'fill loop of ra.load')
        return
    loop = loops[0]
    ck.check(u(loop.iter) == 'keys', 'C15.D3.same-keys', mod, loop, 'load', 'for %s in %s' % (u(loop.target), u(loop.iter)), 'the fill loop iterates the same key sequence', 'the fill loop must iterate over keys (the sequence that produced the lengths)')
    if sh:
        k1 = [x for x in ast.walk(sh[0].value.generators[0].iter) if isinstance(x, ast.Name)][0]
        k2 = loop.iter
        ck.check(isinstance(k2, ast.Name) and fi.same_value(k1, k2), 'C15.D3.same-keys', mod, loop, 'load', 'keys at lengths vs keys at fill',
                 'both uses see one definition of keys', 'keys is redefined between computing the lengths and filling the buffer')
    # keys never reordered when supplied by the caller
    kd = [s for s in assigns_to(fn, 'keys')]
    for s in kd:
        g = mod.parent.get(s)
        ok = isinstance(g, ast.If) and u(g.test) == 'keys is Ellipsis'
        ck.check(ok, 'C15.D3.key-order', mod, s, 'load', u(s)[:120], 'keys are only defaulted (under `keys is Ellipsis`), never rewritten',
                 'a caller-supplied key list must be used in the given order: redefining `keys` outside the `keys is Ellipsis` '
                 'default (e.g. sorting it) returns rows - and their lengths - in an order the caller did not ask for')
    # running offsets
    body = loop.body
    nd = [s for s in body if isinstance(s, ast.Assign) and u(s.targets[0]) == 'node']
    ok = len(nd) == 1 and u(nd[0].value).endswith('[::stride]') and 'name=%s' % u(loop.target) in u(nd[0].value)
    ck.check(ok, 'C15.D2.stride-data', mod, nd[0] if nd else loop, 'load', u(nd[0]) if nd else 'node', 'each row is read with [::stride]', 'rows must be read as node[::stride]')
    en = [s for s in body if isinstance(s, ast.Assign) and u(s.targets[0]) == 'end']
    st = [s for s in body if isinstance(s, ast.Assign) and u(s.targets[0]) == 'concat[start:end]']
    ad = [s for s in body if isinstance(s, ast.Assign) and u(s.targets[0]) == 'start' and u(s.value) == 'end']
    ok = len(en) == 1 and u(en[0].value) == 'start + len(node)' and len(st) == 1 and u(st[0].value) == 'node' and len(ad) == 1 and \
        body.index(en[0]) < body.index(st[0]) < body.index(ad[0])
    init = [s for s in walk_local(fn) if isinstance(s, ast.Assign) and u(s.targets[0]) == 'start' and u(s.value) == '0']
    ck.check(ok and len(init) == 1, 'C15.D3.fill', mod, st[0] if st else loop, 'load', '; '.join(u(x) for x in body)[:200],
             'end = start + len(row); concat[start:end] = row; start = end; start initialised to 0',
             'the concatenated buffer must be filled with running offsets (end = start + len(node); concat[start:end] = node; start = end)')
    cc = [s for s in assigns_to(fn, 'concat') if isinstance(s, ast.Assign)]
    ok = len(cc) == 1 and call_name(cc[0].value) == 'np.zeros' and u(cc[0].value.args[0]) == 'concat_shape' and u(kwarg(cc[0].value, 'dtype')) == 'dtype'
    ck.check(ok, 'C15.D3.buffer', mod, cc[0] if cc else fn, 'load', u(cc[0]) if cc else 'concat', 'buffer is zero-initialised with the stored dtype', 'the buffer must be np.zeros(concat_shape, dtype=dtype)')
    cs = [s for s in assigns_to(fn, 'concat_shape') if isinstance(s, ast.Assign)]
    ok = len(cs) == 1 and u(cs[0].value).replace(' ', '') in ('(sum(lengths),)+shapes[0][1:]',)
    ck.check(ok, 'C15.D3.buffer', mod, cs[0] if cs else fn, 'load', u(cs[0]) if cs else 'concat_shape', 'buffer length = sum of the strided lengths', 'concat_shape must be (sum(lengths),) + trailing dims')
    r = [x for x in returns_of(fn) if isinstance(x.value, ast.Call) and (call_name(x.value) or '').endswith('RaggedArray') and 'concat' in u(x.value)]
    ok = len(r) == 1 and u(kwarg(r[0].value, 'lengths')) == 'lengths' and u(kwarg(r[0].value, 'array')) == 'concat'
    ck.check(ok, 'C15.D3.buffer', mod, r[0] if r else fn, 'load', u(r[0]) if r else 'return', 'result wraps the filled buffer with the strided lengths', 'load must return RaggedArray(array=concat, lengths=lengths, ...)')
    # D4 dtype equality across keys
    dt = [n for n in walk_local(fn) if isinstance(n, ast.If) and 'dtype ==' in u(n.test) and any(isinstance(x, ast.Raise) for x in n.body)]
    ck.check(len(dt) == 1 and 'for k in keys' in u(dt[0].test), 'C15.D4.dtype', mod, dt[0] if dt else fn, 'load', u(dt[0].test)[:140] if dt else 'dtype check',
             'all rows must share one dtype, else raise', 'load must reject keys with differing dtypes')
    dd = [s for s in assigns_to(fn, 'dtype') if isinstance(s, ast.Assign)]
    ck.check(len(dd) == 1 and 'keys[0]' in u(dd[0].value) and u(dd[0].value).endswith('.dtype'), 'C15.D4.dtype', mod, dd[0] if dd else fn, 'load', u(dd[0]) if dd else 'dtype', 'dtype taken from the stored node', 'dtype must come from the stored node')
    check_warn_calls(ck, 'C15.D5.warn-wellformed', mod, [('load', fn)])
    # old-style / single-key paths keep the stride
    for x in returns_of(fn):
        t = u(x.value)
        if t in ('a[::stride]', "handle.get_node('/arr_0')[::stride]"):
            ck.ok('C15.D2.stride-data', mod, x, t, 'legacy paths apply the stride')


def d_sound(ck, mod):
    fn = mod.func('sound_trajectory')
    ck.analysed(mod, fn)
    r = returns_of(fn)
    ok = len(r) == 1 and is_ceil_div(r[0].value, 'n_frames')
    ck.check(ok, 'C15.D2.stride-lengths', mod, r[0] if r else fn, 'sound_trajectory', u(r[0]) if r else '?', 'sounded length = ceil(n_frames / stride)',
             'sound_trajectory must return ceil(n_frames / stride)')


def d_concat(ck, mod):
    rule = 'C15.D3.parallel'
    fn = mod.func('load_as_concatenated')
    ck.analysed(mod, fn)
    fi = finfo(mod, fn)
    # buffer sized from lengths
    sa = [c for c in calls_in(fn) if call_name(c) == 'shared_array_like_trj']
    ok = len(sa) == 1 and u(sa[0].args[0]) == 'lengths'
    ck.check(ok, rule + '.buffer', mod, sa[0] if sa else fn, 'load_as_concatenated', u(sa[0])[:120] if sa else 'shared_array_like_trj', 'shared buffer sized from lengths', 'the shared buffer must be sized from `lengths`')
    fs = ck.repo.mod(LO).func('shared_array_like_trj')
    sh = [s for s in assigns_to(fs, 'full_shape') if isinstance(s, ast.Assign)]
    ck.check(len(sh) == 1 and u(sh[0].value) == '(sum(lengths), shape[1], shape[2])', rule + '.buffer', mod, sh[0] if sh else fs, 'shared_array_like_trj', u(sh[0]) if sh else 'full_shape',
             'first dimension = sum of lengths', 'full_shape must be (sum(lengths), n_atoms, 3)')
    # offsets
    ma = [c for c in calls_in(fn) if isinstance(c.func, ast.Attribute) and c.func.attr in ('map_async', 'map', 'imap', 'imap_unordered', 'starmap')
          and '_load_to_position' in u(c)]
    if len(ma) != 1:
        ck.missing(rule, 'pool map of _load_to_position')
        return
    c = ma[0]
    ck.check(c.func.attr in ('map_async', 'map', 'imap'), rule + '.ordered', mod, c, 'load_as_concatenated', 'p.%s(...)' % c.func.attr,
             'worker results are collected in submission (file) order',
             'results must be gathered with an order-preserving map: imap_unordered returns them in completion order, which depends on the schedule')
    z = c.args[1] if len(c.args) > 1 else None
    ok = isinstance(z, ast.Call) and call_name(z) == 'zip' and len(z.args) == 3 and u(z.args[1]) == 'filenames' and u(z.args[2]) == 'args' and \
        u(z.args[0]).replace(' ', '') in ('[sum(lengths[0:i])foriinrange(len(lengths))]', '[sum(lengths[:i])foriinrange(len(lengths))]')
    ck.check(ok, rule + '.offsets', mod, c, 'load_as_concatenated', u(z)[:160] if z is not None else '?',
             'offset of file i = sum of the lengths before i (exclusive prefix sum), zipped with files and args in order',
             'per-file offsets must be [sum(lengths[0:i]) for i in range(len(lengths))] zipped with (filenames, args): an inclusive sum or '
             'another lengths list shifts every window')
    # same lengths definition for buffer, offsets and return
    r = returns_of(fn)
    okr = len(r) == 1 and isinstance(r[0].value, ast.Tuple) and u(r[0].value.elts[0]) == 'lengths' and u(r[0].value.elts[1]) == 'xyz'
    ck.check(okr, rule + '.lengths', mod, r[0] if r else fn, 'load_as_concatenated', u(r[0]) if r else 'return', 'returns (lengths, xyz)',
             'load_as_concatenated must return (lengths, xyz) with the lengths that positioned the data')
    if okr and sa:
        a = sa[0].args[0]
        b = r[0].value.elts[0]
        names = [x for x in ast.walk(z) if isinstance(x, ast.Name) and x.id == 'lengths'] if z is not None else []
        ok = isinstance(a, ast.Name) and fi.same_value(a, b) and all(fi.same_value(a, x) for x in names)
        ck.check(ok, rule + '.lengths', mod, r[0], 'load_as_concatenated', 'lengths at buffer / offsets / return',
                 'one definition of lengths sizes the buffer, positions the files and is returned',
                 'the returned lengths are not the value that sized the buffer and positioned the files (e.g. rebuilt from worker '
                 'results): they need not be in file order')
    # total check
    chk = [n for n in walk_local(fn) if isinstance(n, ast.If) and 'full_shape[0]' in u(n.test) and any(isinstance(x, ast.Raise) for x in n.body)]
    ok = len(chk) == 1 and u(chk[0].test).replace(' ', '') == 'sum((s[0]forsinshapes))!=full_shape[0]'
    ck.check(ok, rule + '.total-check', mod, chk[0] if chk else fn, 'load_as_concatenated', u(chk[0].test) if chk else 'total check',
             'the number of frames actually written must equal the buffer length, else raise', 'the total-frames check must compare the sum of loaded shapes with full_shape[0] and raise on mismatch')
    if chk and r:
        ck.check(fi.cfg.dominates(chk[0], r[0]), rule + '.total-check', mod, chk[0], 'load_as_concatenated', 'check before return', 'check precedes the return', 'the total check must precede the return')
    # worker: writes only its window
    fw = mod.func('_load_to_position')
    ck.analysed(mod, fw)
    st = [s for s in walk_local(fw) if isinstance(s, ast.Assign) and isinstance(s.targets[0], ast.Subscript) and u(s.targets[0].value) == 'arr']
    ok = len(st) == 1 and u(st[0].targets[0].slice) == 'position:position + len(xyz)' and u(st[0].value) == 'xyz'
    ck.check(ok, rule + '.window', mod, st[0] if st else fw, '_load_to_position', u(st[0]) if st else 'arr[...] = xyz',
             'a worker writes exactly arr[position:position+len(xyz)]', 'each worker must store only arr[position:position + len(xyz)] = xyz (disjoint windows)')
    up = [s for s in walk_local(fw) if isinstance(s, ast.Assign) and isinstance(s.targets[0], ast.Tuple) and u(s.value) == 'spec']
    ck.check(len(up) == 1 and u(up[0].targets[0]) == '(position, filename, load_kwargs)', rule + '.window', mod, up[0] if up else fw, '_load_to_position', u(up[0]) if up else 'spec',
             'spec unpacked as (position, filename, kwargs) - the order it is zipped in', 'spec must be unpacked in the order (position, filename, load_kwargs)')
    ld = [c2 for c2 in calls_in(fw) if call_name(c2) == 'md.load']
    ck.check(len(ld) == 1 and u(ld[0].args[0]) == 'filename' and any(k.arg is None and u(k.value) == 'load_kwargs' for k in ld[0].keywords), rule + '.window', mod, ld[0] if ld else fw,
             '_load_to_position', u(ld[0]) if ld else 'md.load', 'file loaded with its own kwargs (stride, atom selection)', 'md.load(filename, **load_kwargs) expected')
    # single-frame files: a length of 1 is inserted at the FILE index
    ins = [c2 for c2 in calls_in(fn) if u(c2.func) == 'lengths.insert']
    for c2 in ins:
        loop = mod.parent.get(fi.stmt(c2))
        while loop is not None and not isinstance(loop, ast.For):
            loop = mod.parent.get(loop)
        ok = loop is not None and isinstance(loop.iter, ast.Call) and call_name(loop.iter) == 'enumerate' and \
            len(loop.iter.args) == 1 and u(loop.iter.args[0]) == 'args' and isinstance(loop.target, ast.Tuple) and \
            u(c2.args[0]) == u(loop.target.elts[0]) and const_value(c2.args[1]) == 1
        g = mod.parent.get(fi.stmt(c2))
        ok = ok and isinstance(g, ast.If) and u(g.test) == "'frame' in %s" % u(loop.target.elts[1])
        ck.check(ok, rule + '.frame-insert', mod, c2, 'load_as_concatenated', 'for %s in %s: ... %s' % (
            u(loop.target) if loop is not None else '?', u(loop.iter) if loop is not None else '?', u(c2)),
                 'the length 1 of a single-frame file is inserted at that file\'s index in the file list',
                 'lengths.insert(i, 1) must use the index of the file in `args` (enumerate(args) with the frame test inside the '
                 'loop): enumerating only the frame entries gives positions in the filtered list, so the 1s land at the front and '
                 'every offset after them is wrong')
    # sounding uses each file's own stride
    sm = [c2 for c2 in calls_in(fn) if isinstance(c2.func, ast.Attribute) and c2.func.attr == 'starmap']
    ok = len(sm) == 1 and "kw.get('stride', 1)" in u(sm[0]) and 'zip(filenames, args)' in u(sm[0])
    ck.check(ok, 'C15.D2.stride-lengths', mod, sm[0] if sm else fn, 'load_as_concatenated', u(sm[0])[:160] if sm else 'sounding', 'lengths sounded with each file\'s own stride', 'sounding must pass each file\'s stride')


def d_striped(ck):
    rule = 'C15.D2.stride-lengths'
    mod = ck.repo.mod(IO)
    for q, src, it in (('load_h5_as_striped', 's[0]', 'all_shapes'), ('load_npy_as_striped', 's[0]', 'specs')):
        fn = mod.func(q)
        ck.analysed(mod, fn)
        gl = [s for s in assigns_to(fn, 'global_lengths') if isinstance(s, ast.Assign)]
        ok = len(gl) == 1 and isinstance(gl[0].value, ast.ListComp) and is_ceil_div(gl[0].value.elt, src) and u(gl[0].value.generators[0].iter) == it
        ck.check(ok, rule, mod, gl[0] if gl else fn, q, u(gl[0]) if gl else 'global_lengths', 'global lengths = ceil(rows / stride)',
                 '%s passes `stride` to the data but its lengths must be ceil(n / stride) too' % q)
    fn = mod.func('load_npy_as_striped')
    ll = [s for s in assigns_to(fn, 'local_lengths') if isinstance(s, ast.Assign)]
    ok = len(ll) == 1 and (u(ll[0].value) == 'global_lengths[mpi.rank()::mpi.size()]' or
                           (isinstance(ll[0].value, ast.ListComp) and is_ceil_div(ll[0].value.elt, 's[0]')))
    ck.check(ok, rule, mod, ll[0] if ll else fn, 'load_npy_as_striped', u(ll[0]) if ll else 'local_lengths', 'local buffer sized from strided lengths', 'local_lengths must be the strided lengths of this rank\'s files')
    check_empty_allocs(ck, 'C15.D3.npy-fill', mod, [('load_npy_as_striped', fn)])


def check(ck):
    mod = ck.repo.mod(RA)
    d1_keys(ck, mod)
    d_load(ck, mod)
    lo = ck.repo.mod(LO)
    d_sound(ck, lo)
    d_concat(ck, lo)
    d_striped(ck)
    return EXPLANATION

"""C06 Ragged writes: two-representation typestate (A11), pure operators,
copy on construction.

The recognisers work on ROLES, not on the pinned spelling:
  * the receiver is the first parameter of the method (`self`);
  * a store event is a store whose target is rooted - through subscripts,
    views and local aliases (`row = self._array[i]; row[j] = v`) - in an
    attribute of the receiver;
  * the re-synchronising statements (`self._array = np.array(partition_list(
    self._data, self.lengths), ...)`, `self.__init__(self._array)`) and the
    operands of the re-wrapping constructor calls are compared after the
    expansion of temporaries (`vexpand`), so naming or un-naming a
    sub-expression changes nothing;
  * every content comparison is three-valued: accepted form -> ok; a
    different pure function of the same operands -> VIOLATION; anything the
    rule cannot see through -> ANALYSIS-INCOMPLETE."""
import ast

from ..cfg import ENTRY, EXIT, Assume, header_exprs
from ..core import (AnalysisIncomplete, arg_or_kw, call_name, const_value,
                    kwarg, params, param_default, target_names, u, walk_expr,
                    walk_local)
from ..match import canon, match
from ..patterns import assigns_to, finfo, returns_of, shared

RA = 'enspara/ra/ra.py'
CLS = 'RaggedArray'
WRITERS = {'__init__', '__setitem__', 'append'}

EXPLANATION = (
    'Typestate analysis of the RaggedArray class on every path of every '
    'method: abstract state = subset of {DATA-AHEAD, ARRAY-AHEAD, '
    'LENGTHS-AHEAD}.  Events: stores into / rebinding of self._data, '
    'self._array, self.lengths (also through local aliases and views); '
    'self.__init__(self._array) (rebuild from rows: '
    'legal only when _data is not ahead); self._array = np.array('
    'partition_list(self._data, self.lengths), ...) (rebuild from flat data: '
    'legal only when _array is not ahead, clears DATA/LENGTHS-AHEAD); '
    'recursive __setitem__ (summary CLEAN).  Obligation (D1): CLEAN at every '
    'exit (explicit return and fall-through) of every writer; the set of '
    'writers is computed, not assumed.  (D2) every operator/reduction/property '
    'contains no event and no store aliasing self or other, and re-wraps '
    'freshly computed flat data with the same lengths; (D3) with copy=True '
    'every definition of self._data in the constructor is copy-making with '
    'the copy flag flowing unmodified (default True) and self.lengths is '
    'always a fresh array.  Added after the bug hunt: (D4) every slot is stored when the constructor returns, the '
    'rectangular row view names its row count (no -1 next to a row length that may be 0); (D6) append joins the new '
    'rows along axis 0 and tells a flat row apart before np.concatenate, __setitem__ probes value[0] only behind a '
    'non-emptiness test; (D7) no writer builds the row container by np.array(<rows>, dtype=object); (D1) an attribute computed from a representation is a fourth representation every writer refreshes; (D6) append extends lengths and flat data in the same order by the lengths and the values of the same rows; (D5) the content rules of the index conversions (C05.D1 bounds / negative re-check / flat-to-2d) are run for the write path, every refusal on that path can fire (sign domain), every helper on it is covered; (D2) the class opts '
    'out of numpy operator dispatch so that numpy left operands reach the reflected operators; the slice-bound and '
    'index-dtype rules of the read path (C05.D2/D4/D5) are run for the helpers the writer reaches.  '
    'Added in the fifth wave (case analysis): the writers are executed symbolically for every assignment of their branch '
    'conditions, the conditions read as predicates (NONEMPTY, ISNONE, ITERABLE, RAGGED; a size is never negative): '
    '(D1.constructor-cases) for each of the four input forms of the constructor the flat data, the lengths and the row view are '
    'built by the reading of the argument that belongs to that form, and <array>[0] is read only from a non-empty argument; '
    '(D1.writer-forms) every index form __setitem__ accepts ends in a store or the recursive call, a ragged value/argument is '
    'replaced by its rows exactly when it is one, the value stored into the flat data is the join of its rows exactly for a '
    'non-empty sequence of sequences; (D6.append.reinit-guard / row-forms.wrap) append re-runs the constructor on its argument '
    'only for a blank array, wraps a flat row exactly when the first element is not iterable and joins along axis 0; '
    '(D2.pure-operators.reduction) all/any/max/min/flatten are the reductions of that name over the whole flat data.  A verdict that '
    'hinges on a condition the predicate reading does not understand is analysis-incomplete.  '
    'Statements are recognised by role after expansion '
    'of temporaries; an unrecognised re-synchronisation is reported as '
    'analysis-incomplete, not as a violation.  Agreement with the list-of-rows '
    'model over whole operation histories is not decided (the rows-of-object '
    'vs reshaped-view representation depends on run-time lengths).')

DATA, ARRAY, LENS = 'DATA-AHEAD', 'ARRAY-AHEAD', 'LENGTHS-AHEAD'
FLAG = {'_data': DATA, '_array': ARRAY, 'lengths': LENS}

# expressions that denote (a view of / an element of) their operand
VIEW_ATTRS = {'T', 'real', 'imag', 'flat'}
VIEW_METHODS = {'reshape', 'view', 'ravel', 'transpose', 'squeeze', 'swapaxes'}
MUT_METHODS = {'fill', 'sort', 'resize', 'put', 'itemset', 'partition', 'append', 'extend', 'insert', 'pop',
               'remove', 'clear', 'reverse', 'setfield', 'byteswap'}
NP_INPLACE = {'np.copyto', 'np.put', 'np.place', 'np.putmask', 'np.fill_diagonal', 'np.put_along_axis'}


# ---------------------------------------------------------------------------
# per-method context: receiver, def-use, value expansion, alias roots, events

class Ctx:
    """One method: FuncInfo + the name of the receiver (first parameter)."""

    def __init__(self, mod, fn, helper_writers=()):
        self.mod, self.fn = mod, fn
        self.fi = finfo(mod, fn)
        ps = params(fn)
        self.params = ps
        self.me = ps[0] if ps else 'self'
        self.helper_writers = set(helper_writers)
        self._ev = {}
        self._stmts = {}

    # -- receiver attributes
    def attr_of_me(self, e):
        if isinstance(e, ast.Attribute) and isinstance(e.value, ast.Name) and e.value.id == self.me:
            return e.attr
        return None

    def is_me_attr(self, e, attr):
        return self.attr_of_me(e) == attr

    # -- alias roots
    def roots(self, e, at, depth=6):
        """Attributes X of the receiver such that expression `e`, evaluated at
        statement `at`, may denote the object self.X, a view of it or one of
        its elements (a may-alias set over local aliases and view-making
        expressions)."""
        while True:
            a = self.attr_of_me(e)
            if a is not None:
                return {a}
            if isinstance(e, (ast.Subscript, ast.Starred)):
                e = e.value
            elif isinstance(e, ast.Attribute) and e.attr in VIEW_ATTRS:
                e = e.value
            elif isinstance(e, ast.Call) and isinstance(e.func, ast.Attribute) and e.func.attr in VIEW_METHODS:
                e = e.func.value
            else:
                break
        out = set()
        if isinstance(e, ast.IfExp):
            return self.roots(e.body, at, depth) | self.roots(e.orelse, at, depth)
        if isinstance(e, ast.Name) and e.id != self.me and depth > 0:
            for site in self.fi.rd.defs_at(at, e.id):
                if site in ('PARAM', 'UNBOUND'):
                    continue
                if isinstance(site, (ast.For, ast.AsyncFor)):
                    if e.id in target_names(site.target):
                        out |= self.roots(site.iter, site, depth - 1)
                    continue
                v = self.fi.def_value(site, e.id)
                if v is not None:
                    out |= self.roots(v, site, depth - 1)
        return out

    # -- representation events of one statement header
    def events(self, s):
        if s in self._ev:
            return self._ev[s]
        self._ev[s] = ev = []
        if s in (ENTRY, EXIT) or isinstance(s, Assume):
            return ev
        tgts = []
        if isinstance(s, ast.Assign):
            tgts = s.targets
        elif isinstance(s, (ast.AugAssign, ast.AnnAssign)):
            tgts = [s.target]
        elif isinstance(s, ast.Delete):
            tgts = s.targets
        for t in tgts:
            for tt in (t.elts if isinstance(t, (ast.Tuple, ast.List)) else [t]):
                if isinstance(tt, ast.Starred):
                    tt = tt.value
                a = self.attr_of_me(tt)
                if a is not None:
                    # any attribute other than the three representations is
                    # extra (cached/derived) state the writers do not maintain
                    ev.append(('rebind', a if a in FLAG else 'other:' + a, s, None))
                elif isinstance(tt, ast.Subscript) and isinstance(tt.value, ast.Name) and tt.value.id == self.me:
                    ev.append(('recurse', u(tt), s, None))       # self[...] = v
                elif isinstance(tt, (ast.Subscript, ast.Attribute)):
                    for r in sorted(self.roots(tt.value, s)):
                        ev.append(('store', r if r in FLAG else 'other:' + r, s, None))
                elif isinstance(tt, ast.Name) and isinstance(s, ast.AugAssign):
                    for r in sorted(self.roots(tt, s)):           # alias op= v works in place
                        ev.append(('store', r if r in FLAG else 'other:' + r, s, None))
        for e in header_exprs(s):
            for c in walk_expr(e):
                if not isinstance(c, ast.Call):
                    continue
                f = c.func
                if isinstance(f, ast.Attribute):
                    recv_me = isinstance(f.value, ast.Name) and f.value.id == self.me
                    if f.attr == '__init__' and recv_me:
                        ev.append(('reinit', u(c), s, list(c.args)))
                    elif f.attr == '__init__' and c.args and isinstance(c.args[0], ast.Name) and c.args[0].id == self.me:
                        ev.append(('reinit', u(c), s, list(c.args[1:])))
                    elif recv_me and f.attr in ('__setitem__', 'append'):
                        ev.append(('recurse', u(c), s, None))
                    elif recv_me and f.attr in self.helper_writers:
                        ev.append(('opaque', f.attr, s, c))
                    elif f.attr in MUT_METHODS:
                        for r in sorted(self.roots(f.value, s)):
                            ev.append(('store', r if r in FLAG else 'other:' + r, s, None))
                elif isinstance(f, ast.Name) and f.id == 'setattr' and c.args and isinstance(c.args[0], ast.Name) \
                        and c.args[0].id == self.me:
                    a = const_value(c.args[1]) if len(c.args) > 1 else None
                    ev.append(('rebind', a if a in FLAG else 'other:%s' % a, s, None))
                if call_name(c) in NP_INPLACE and c.args:
                    for r in sorted(self.roots(c.args[0], s)):
                        ev.append(('store', r if r in FLAG else 'other:' + r, s, None))
                for k in c.keywords:
                    if k.arg == 'out':
                        for r in sorted(self.roots(k.value, s)):
                            ev.append(('store', r if r in FLAG else 'other:' + r, s, None))
                ev += self._callee_stores(c, s)
        return ev

    def _callee_stores(self, c, s):
        """A module-level helper that stores into a parameter which is bound
        to (a view of) a representation of the receiver."""
        f = c.func
        if not (isinstance(f, ast.Name) and f.id in self.mod.functions):
            return []
        _, ea = shared(_REPO[0]) if _REPO else (None, None)
        if ea is None:
            return []
        muts = ea.mutated_params(self.mod.rel, f.id)
        if not muts:
            return []
        cps = params(self.mod.functions[f.id])
        out = []
        bound = list(zip(cps, c.args)) + [(k.arg, k.value) for k in c.keywords if k.arg]
        for p, a in bound:
            if p in muts and not harmless_self_copy(_REPO[0], self.mod.rel, f.id, p):
                for r in sorted(self.roots(a, s)):
                    out.append(('store', r if r in FLAG else 'other:' + r, s, None))
        return out

    def has_events(self):
        return any(self.events(n) for n in self.fi.cfg.nodes)

    # -- value expansion
    def value_of(self, name_node, at):
        """The expression whose value a Name use denotes: exactly one reaching
        definition `t = <expr>`, the object bound to t is never mutated in
        place, no operand of <expr> is rebound or mutated in place and no
        representation event of the receiver happens between the definition
        and the use.  Unlike FuncInfo.temp_value the defining expression may
        call helpers (partition_list, a bound method obtained with getattr):
        the expansion denotes the value computed AT the definition, which is
        all a role recogniser needs."""
        fi = self.fi
        defs = fi.rd.defs_at(at, name_node.id)
        if len(defs) != 1:
            return None, None
        site = next(iter(defs))
        if site in ('PARAM', 'UNBOUND') or not isinstance(site, (ast.Assign, ast.AnnAssign)):
            return None, None
        v = fi.def_value(site, name_node.id)
        if v is None:
            return None, None
        for n in ast.walk(v):
            if isinstance(n, (ast.Yield, ast.YieldFrom, ast.Await, ast.NamedExpr, ast.Lambda, ast.GeneratorExp)):
                return None, None
        if fi._mutated_in_place(name_node.id):
            return None, None

        def between(m):
            if m is site or m is at:
                return False
            return fi.cfg.reachable(site, m, avoiding=[at]) and fi.cfg.reachable(m, at, avoiding=[site])
        reads_me = False
        for m in walk_expr(v):
            if not (isinstance(m, ast.Name) and isinstance(m.ctx, ast.Load)):
                continue
            if m.id == self.me:
                reads_me = True
            if fi.rd.defs_at(site, m.id) != fi.rd.defs_at(at, m.id):
                return None, None
            if m.id in _module_aliases(self.mod) and m.id not in self._local_names():
                continue        # `np.append(x, y)` is not a mutation of the module `np`
            for ms in fi._mutated_in_place(m.id):
                if between(ms):
                    return None, None
        if reads_me:
            for n in fi.cfg.nodes:
                if n in (ENTRY, EXIT) or isinstance(n, Assume):
                    continue
                if self.events(n) and between(n):
                    return None, None
        return v, site

    def _local_names(self):
        if getattr(self, '_locals', None) is None:
            names = set(self.params)
            for n in walk_local(self.fn):
                if isinstance(n, ast.Name) and isinstance(n.ctx, (ast.Store, ast.Del)):
                    names.add(n.id)
            self._locals = names
        return self._locals

    def vexpand(self, expr, at=None, depth=8):
        """Canonical copy of `expr` with every temporary replaced by its
        defining expression (see value_of).  Copied Name nodes carry `_at`,
        the statement at which the original name is evaluated."""
        fi = self.fi
        bound = set()
        for x in ast.walk(expr):
            if isinstance(x, ast.comprehension):
                bound.update(target_names(x.target))

        def ex(e, at, d, bound):
            if isinstance(e, ast.Name):
                if d > 0 and isinstance(e.ctx, ast.Load) and e.id not in bound and at is not None:
                    v, site = self.value_of(e, at)
                    if v is not None:
                        b2 = set()
                        for x in ast.walk(v):
                            if isinstance(x, ast.comprehension):
                                b2.update(target_names(x.target))
                        return ex(v, site, d - 1, b2)
                new = ast.copy_location(ast.Name(id=e.id, ctx=e.ctx), e)
                if at is not None:
                    # an int survives the deep copy made by match.canon
                    new._at_id = id(at)
                    self._stmts[id(at)] = at
                return new
            if not isinstance(e, ast.AST):
                return e
            if isinstance(e, (ast.expr_context, ast.operator, ast.unaryop, ast.boolop, ast.cmpop)):
                return e
            new = type(e)()
            for f in e._fields:
                val = getattr(e, f, None)
                if isinstance(val, list):
                    setattr(new, f, [ex(x, at, d, bound) for x in val])
                elif isinstance(val, ast.AST):
                    setattr(new, f, ex(val, at, d, bound))
                else:
                    setattr(new, f, val)
            for a in ('lineno', 'col_offset', 'end_lineno', 'end_col_offset'):
                if hasattr(e, a):
                    setattr(new, a, getattr(e, a))
            return new
        if at is None:
            at = fi.stmt(expr)
        return canon(ex(expr, at, depth, bound))

    def at_of(self, name_node):
        """Statement at which an expanded Name is evaluated."""
        return self._stmts.get(getattr(name_node, '_at_id', None))

    def param_only(self, name_node):
        """The (expanded) Name denotes the unmodified parameter of that name."""
        if not isinstance(name_node, ast.Name) or name_node.id not in self.params:
            return False
        at = self.at_of(name_node)
        if at is None:
            return not assigns_to(self.fn, name_node.id)
        return self.fi.rd.defs_at(at, name_node.id) == {'PARAM'}


_REPO = []
_ALIASES = {}


def _module_aliases(mod):
    """Names bound by the import statements at the top level of the module."""
    key = id(mod)
    if key not in _ALIASES:
        out = set()
        for st in mod.tree.body:
            if isinstance(st, (ast.Import, ast.ImportFrom)):
                for a in st.names:
                    out.add((a.asname or a.name).split('.')[0])
        _ALIASES[key] = (mod, out)
    return _ALIASES[key][1]


def _mentions_attr(cx, e, attr):
    return any(cx.is_me_attr(n, attr) for n in ast.walk(e))


def _pure_over(e, names):
    """A pure numpy/builtin function of the given names only."""
    from ..match import _closed_over
    return _closed_over(e, set(names))


def _near_far(cx, e, extra=()):
    """Three-valued fallback for an expression in a located role that is none
    of the accepted forms: 'near' when it is a different pure function of the
    receiver/parameters (decidably another computation), else 'far'."""
    return 'near' if _pure_over(e, set(cx.params) | set(extra)) else 'far'


# ---------------------------------------------------------------------------
# harmless self-copy (exemption shared by D1 and D2)

def _root_record(ea, rel, qual, p, depth=8):
    """Follow 'callee-mutates' records down to the primitive store:
    (rel, qual, param, record)."""
    seen = set()
    while depth > 0:
        depth -= 1
        why = ea.mutated_params(rel, qual).get(p)
        if why is None:
            return None
        if why['kind'] != 'callee-mutates':
            return rel, qual, p, why
        via = why.get('via') or ''
        try:
            head, rest = via.split(' mutates ', 1)
            rel2, qual2 = head.split('::', 1)
            p2 = rest.split(' at ', 1)[0]
        except ValueError:
            return rel, qual, p, why
        if (rel2, qual2, p2) in seen:
            return None
        seen.add((rel2, qual2, p2))
        rel, qual, p = rel2, qual2, p2
    return None


_FRESH_CALLS = {'np.zeros', 'np.ones', 'np.full', 'np.empty', 'np.zeros_like', 'np.ones_like', 'np.full_like',
                'np.array', 'np.copy', 'np.arange', 'np.minimum', 'np.maximum', 'np.where', 'np.concatenate',
                'np.append', 'np.cumsum', 'np.repeat', 'np.clip'}


# numpy functions whose result never shares memory with an argument
_ALLOCATING = {'np.zeros', 'np.ones', 'np.full', 'np.empty', 'np.arange', 'np.concatenate', 'np.append', 'np.cumsum',
               'np.repeat', 'np.copy', 'np.fromiter', 'np.diff', 'np.hstack', 'np.tile'}


def _fresh(e):
    if isinstance(e, (ast.BinOp, ast.UnaryOp, ast.Compare, ast.Constant, ast.List, ast.ListComp)):
        return True
    if isinstance(e, ast.Call):
        if call_name(e) in _FRESH_CALLS:
            return True
        if isinstance(e.func, ast.Attribute) and e.func.attr == 'copy' and not e.args:
            return True
    return False


def harmless_self_copy(repo, rel, qual, p):
    """The only store through which `qual` may reach storage of parameter `p`
    is `A[I] = p[I]` where every definition of A reaching the store is either
    `A = p` (the very same object: the store writes p's own values back in
    place, a no-op) or a freshly allocated array (no alias at all)."""
    _, ea = shared(repo)
    root = _root_record(ea, rel, qual, p)
    if root is None:
        return False
    rel, qual, p, why = root
    s = why.get('node')
    mod = repo.mod(rel)
    try:
        fn = mod.func(qual)
    except Exception:
        return False
    if not (isinstance(s, ast.Assign) and len(s.targets) == 1 and isinstance(s.targets[0], ast.Subscript)
            and isinstance(s.value, ast.Subscript)):
        return False
    t, v = s.targets[0], s.value
    if not (isinstance(t.value, ast.Name) and isinstance(v.value, ast.Name) and v.value.id == p):
        return False
    fi = finfo(mod, fn)
    if fi.rd.defs_at(s, p) != {'PARAM'}:
        return False
    if fi.xu(t.slice, strict=False) != fi.xu(v.slice, strict=False):
        return False
    A = t.value.id
    if A == p:
        return True
    for site in fi.rd.defs_at(s, A):
        if site in ('PARAM', 'UNBOUND'):
            return False
        dv = fi.def_value(site, A)
        if dv is None:
            return False
        if isinstance(dv, ast.Name) and dv.id == p and fi.rd.defs_at(site, p) == {'PARAM'}:
            continue
        if _fresh(dv):
            continue
        return False
    # no other store into A or p in the function
    others = [x for x in fi._mutated_in_place(A) + fi._mutated_in_place(p) if x is not s]
    return not others


# ---------------------------------------------------------------------------
# D1 typestate

def _lengths_operand(cx, e):
    """self.lengths, or the unmodified constructor parameter `lengths`."""
    if cx.is_me_attr(e, 'lengths'):
        return True
    return isinstance(e, ast.Name) and e.id == 'lengths' and cx.param_only(e)


def _is_current_lengths(cx, lens, s):
    """`lens` has the value self.lengths holds at statement s: a dominating
    `self.lengths = <V>` with V expanding to the same expression, and no other
    rebinding of self.lengths in between."""
    cfg = cx.fi.cfg
    want = u(lens)
    cands = [n for n in cfg.nodes if isinstance(n, ast.Assign) and len(n.targets) == 1 and cx.is_me_attr(n.targets[0], 'lengths')
             and cfg.dominates(n, s) and n is not s]
    for n in cands:
        same = u(cx.vexpand(n.value, n)) == want
        if not same and isinstance(lens, ast.Name) and isinstance(n.value, ast.Name) and n.value.id == lens.id:
            # the very object that was stored: same definitions reach both uses, never mutated in place
            same = cx.fi.rd.defs_at(n, lens.id) == cx.fi.rd.defs_at(cx.at_of(lens) or s, lens.id) and \
                'UNBOUND' not in cx.fi.rd.defs_at(n, lens.id) and not cx.fi._mutated_in_place(lens.id)
        if not same:
            continue
        later = [m for m in cfg.nodes if m is not n and m is not s and any(e[1] == 'lengths' or e[0] in ('reinit', 'recurse', 'opaque') for e in cx.events(m))
                 and cfg.reachable(n, m, avoiding=[s]) and cfg.reachable(m, s, avoiding=[n])]
        # the operands of V must be unchanged between n and s: vexpand of the
        # use would not have produced the same text otherwise (value_of checks
        # rebinding/mutation between definition and use)
        if not later:
            return True
    return False


def rebuild_kind(cx, s):
    """Classify `self._array = <E>`:
      'flat'    E is the row view of the flat data: np.array(partition_list(
                self._data, <lengths>), ...) or self._data.reshape(...);
      'unknown' E is computed from self._data in a way the rule cannot see
                through (helper call, loop-built list, ...);
      None      an ordinary rebinding of the row view (also: a partition of
                something else / with other lengths)."""
    if not (isinstance(s, ast.Assign) and len(s.targets) == 1 and cx.is_me_attr(s.targets[0], '_array')):
        return None
    from ..normal import is_pure
    E = cx.vexpand(s.value, s)
    if isinstance(E, ast.Call) and call_name(E) in ('np.array', 'np.asarray') and E.args and isinstance(E.args[0], ast.Call) \
            and (call_name(E.args[0]) or '').split('.')[-1] == 'partition_list':
        a = E.args[0]
        flat = arg_or_kw(a, 0, 'list_to_partition')
        lens = arg_or_kw(a, 1, 'partition_lengths')
        if len(a.args) + len(a.keywords) == 2 and flat is not None and lens is not None:
            if cx.is_me_attr(flat, '_data') and (_lengths_operand(cx, lens) or _is_current_lengths(cx, lens, s)):
                return 'flat'
            if is_pure(flat) and is_pure(lens):
                return None     # decidably a partition of something else / by other lengths
        return 'unknown'
    if isinstance(E, ast.Call) and isinstance(E.func, ast.Attribute) and E.func.attr == 'reshape' and cx.is_me_attr(E.func.value, '_data'):
        return 'flat'
    if any(isinstance(n, ast.Name) and n.id == cx.me for n in ast.walk(E)) and not is_pure(E):
        return 'unknown'        # computed from the receiver through a helper the rule cannot see through
    if _mentions_attr(cx, E, '_data') and (_mentions_attr(cx, E, 'lengths') or _mentions_attr(cx, E, 'starts') or
                                           any(isinstance(n, ast.Name) and _lengths_operand(cx, n) for n in ast.walk(E))):
        # a pure function of the flat data AND the row lengths that is none of
        # the accepted spellings (slices in a comprehension, np.split at the
        # cumulated lengths, ...): possibly a re-expressed partition
        return 'unknown'
    return None


def _flow(cx, entry, summaries=None):
    """Forward may-analysis of one method from the entry state `entry`:
    (OUT, illegal, unknown).  A call of a private writer helper is replaced by
    the helper's exit state for the state at the call (context-sensitive
    summary, `summaries`)."""
    cfg = cx.fi.cfg
    body_nodes = [n for n in cfg.nodes if n not in (ENTRY, EXIT) and not isinstance(n, Assume)]
    kinds = {n: rebuild_kind(cx, n) for n in body_nodes}
    IN = {n: None for n in cfg.nodes}
    OUT = {n: None for n in cfg.nodes}
    OUT[ENTRY] = frozenset(entry)
    work = [n for n in cfg.nodes if n != ENTRY]
    illegal = {}
    unknown = {}
    guard = 0
    while work and guard < 20000:
        guard += 1
        n = work.pop(0)
        st = None
        for p in cfg.pred.get(n, []):
            if OUT[p] is not None:
                st = OUT[p] if st is None else (st | OUT[p])
        if st is None:
            continue
        IN[n] = st
        new = set(st)
        if n in kinds:
            evs = cx.events(n)
            if kinds[n] is not None:
                if kinds[n] == 'unknown':
                    unknown[n] = 'the row view is rebuilt from self._data in a form that is not recognised: %s' % u(n)[:140]
                elif ARRAY in new:
                    illegal[n] = ('the row view is rebuilt from the flat data while a store into self._array '
                                  'has not been folded back: that row store is lost')
                new.discard(DATA)
                new.discard(LENS)
                new.discard(ARRAY)
                evs = [e for e in evs if not (e[0] == 'rebind' and e[1] == '_array')]
            for kind, what, stmt, extra in evs:
                if kind == 'reinit':
                    arg = cx.vexpand(extra[0], n) if extra else None
                    from_rows = arg is not None and (cx.is_me_attr(arg, '_array') or cx.roots(extra[0], n) == {'_array'})
                    if from_rows and DATA in new:
                        illegal[n] = ('the object is rebuilt from its rows (self.__init__(self._array)) while a '
                                      'store into the flat data has not been propagated to the rows: it is lost')
                    new.clear()
                elif kind == 'recurse':
                    new.clear()
                elif kind == 'opaque':
                    res = summaries.exit_state(cx, what, extra, frozenset(new), n) if summaries is not None else None
                    if res is None or res[0] is None:
                        unknown[n] = ('call of the private writer helper %s.%s: its effect on the representations is not '
                                      'summarised (%s)' % (CLS, what, res[1] if res else 'no inter-procedural typestate'))
                        new.clear()
                    else:
                        new = set(res[0])
                elif kind in ('store', 'rebind'):
                    if what in FLAG:
                        new.add(FLAG[what])
        new = frozenset(new)
        if new != OUT[n]:
            OUT[n] = new
            for s in cfg.succ.get(n, []):
                if s not in work:
                    work.append(s)
    return OUT, illegal, unknown


class Summaries:
    """Context-sensitive summaries of the private writer helpers of the class:
    exit state of `self._h(...)` for the typestate at the call.  Every call
    site is visible (the name is private), the helper is analysed with the
    state of each call, its illegal orders are reported in the helper."""

    def __init__(self, ck, mod, ctxs):
        self.ck, self.mod, self.ctxs = ck, mod, ctxs
        self.memo = {}
        self.active = set()
        self.reported = set()
        self.events = {}

    def _opaque_reason(self, hx):
        """None when the helper's effect is exactly its own events on the
        receiver: no generator, no nested function touching the receiver, no
        representation escaping through the return value."""
        fn = hx.fn
        if fn.args.vararg is not None or fn.args.kwarg is not None:
            return 'star-arguments'
        if fn.decorator_list:
            return 'decorated helper'
        for x in ast.walk(fn):
            if isinstance(x, (ast.Yield, ast.YieldFrom, ast.Await)):
                return 'generator'
            if x is not fn and isinstance(x, (ast.FunctionDef, ast.AsyncFunctionDef, ast.Lambda)) and \
                    any(isinstance(y, ast.Name) and y.id == hx.me for y in ast.walk(x)):
                return 'nested function over the receiver'
        for r in returns_of(fn):
            if r.value is not None and hx.roots(r.value, r):
                return 'a representation escapes through its return value'
        return None

    def exit_state(self, cx, name, call, state, at):
        q = CLS + '.' + name
        hx = self.ctxs.get(q)
        if hx is None:
            return None, 'helper not found'
        why = self._opaque_reason(hx)
        if why:
            return None, why
        # arguments that denote a representation and are stored into by the helper
        if call is not None:
            _, ea = shared(self.ck.repo)
            muts = ea.mutated_params(self.mod.rel, q)
            hps = hx.params[1:]
            bound = list(zip(hps, call.args)) + [(k.arg, k.value) for k in call.keywords]
            for p, a in bound:
                if isinstance(a, ast.Starred) or p is None:
                    return None, 'star-arguments at the call'
                if cx.roots(a, at) and (p in muts or p not in hps):
                    return None, 'a representation is passed to the helper, which stores into that parameter'
        key = (name, state)
        if key in self.memo:
            return self.memo[key], ''
        if name in self.active:
            return None, 'recursive helpers'
        self.active.add(name)
        try:
            OUT, illegal, unknown = _flow(hx, state, self)
        finally:
            self.active.discard(name)
        cfg = hx.fi.cfg
        for n, msg in illegal.items():
            if id(n) not in self.reported:
                self.reported.add(id(n))
                self.ck.bad('C06.D1.resync.order', self.mod, n, q, u(n)[:160], msg + ' (helper entered in state %s)' % sorted(state))
        if unknown:
            n, msg = next(iter(unknown.items()))
            self.memo[key] = None
            return None, 'inside %s L%s: %s' % (q, getattr(n, 'lineno', '?'), msg)
        res = frozenset()
        for p in cfg.pred.get(EXIT, []):
            if OUT.get(p) is not None and not isinstance(p, ast.Raise):
                res |= OUT[p]
        self.memo[key] = res
        self.events[name] = sum(len(hx.events(n)) for n in cfg.nodes if n not in (ENTRY, EXIT) and not isinstance(n, Assume))
        return res, ''


def typestate(ck, mod, qual, fn, cx, is_ctor=False, summaries=None):
    rule = 'C06.D1.resync'
    cfg = cx.fi.cfg
    body_nodes = [n for n in cfg.nodes if n not in (ENTRY, EXIT) and not isinstance(n, Assume)]
    OUT, illegal, unknown = _flow(cx, frozenset(), summaries)
    n_events = sum(len(cx.events(n)) for n in body_nodes)
    for n, why in illegal.items():
        ck.bad(rule + '.order', mod, n, qual, u(n)[:160], why)
    for n, why in unknown.items():
        ck.missing(rule, '%s L%s: %s' % (qual, getattr(n, 'lineno', '?'), why))
    if not is_ctor:
        # CLEAN at every exit
        ev_nodes = [m for m in body_nodes if cx.events(m)]
        for p in cfg.pred.get(EXIT, []):
            st = OUT.get(p)
            if st is None:
                continue
            where = 'return at L%s' % getattr(p, 'lineno', '?') if isinstance(p, ast.Return) else 'fall-through after L%s' % getattr(p, 'lineno', '?')
            if isinstance(p, ast.Raise):
                continue
            if st:
                # find the last event statement that set the flag, for the report
                src = None
                for m in ev_nodes:
                    if m is p or cfg.reachable(m, p):
                        src = m
                ck.bad(rule, mod, src or p, qual, '%s ; exit: %s' % (u(src)[:100] if src is not None else '?', where),
                       'the method can exit in state %s: one representation (flat data / row view / lengths) was written '
                       'and the others were not re-synchronised on this path, so a later read through another path '
                       'returns stale data' % sorted(st))
            else:
                ck.ok(rule, mod, p if hasattr(p, 'lineno') else fn, '%s: %s' % (qual, where), 'CLEAN at this exit')
    return n_events


def _is_private(name):
    return name.startswith('_') and not (name.startswith('__') and name.endswith('__'))


def _uses_of_private(repo, mod, name, ctxs):
    """Uses of the private method `name`: (callers inside the class calling it
    as a method of their receiver, other references anywhere in the package)."""
    calls, refs = [], []
    for m in repo.all_modules():
        own = {}
        if m is mod:
            for q, cx in ctxs.items():
                for c in walk_local(cx.fn):
                    if isinstance(c, ast.Call) and isinstance(c.func, ast.Attribute) and c.func.attr == name and \
                            isinstance(c.func.value, ast.Name) and c.func.value.id == cx.me:
                        own[id(c.func)] = q
        for x in ast.walk(m.tree):
            if isinstance(x, ast.Attribute) and x.attr == name:
                if id(x) in own:
                    calls.append(own[id(x)])
                else:
                    refs.append('%s L%s' % (m.rel, getattr(x, 'lineno', '?')))
            elif isinstance(x, ast.Constant) and x.value == name and m is mod:
                refs.append('%s L%s (string)' % (m.rel, getattr(x, 'lineno', '?')))
    return calls, refs


def d1_writers(ck, mod):
    cls = mod.classes.get(CLS)
    if cls is None:
        raise AnalysisIncomplete('class RaggedArray not found')
    methods = [(q, fn) for q, fn in mod.functions.items() if q.startswith(CLS + '.') and '<locals>' not in q]
    # private helper methods that contain events: calls to them are opaque
    helper = set()
    while True:
        found = set()
        for q, fn in methods:
            name = q.split('.', 1)[1]
            if _is_private(name) and Ctx(mod, fn, helper).has_events():
                found.add(name)
        if found <= helper:
            break
        helper |= found
    writers = []
    pure = []
    ctxs = {}
    for q, fn in methods:
        ck.analysed(mod, fn)
        ctxs[q] = cx = Ctx(mod, fn, helper)
        if cx.has_events():
            writers.append((q, fn))
        else:
            pure.append((q, fn))
    names = sorted(q.split('.', 1)[1] for q, _ in writers)
    extra = sorted(set(names) - WRITERS)
    public_extra = [n for n in extra if not _is_private(n)]
    ck.check(not public_extra and WRITERS <= set(names), 'C06.D1.writers', mod, cls, CLS,
             'methods containing a representation event: %s' % names,
             'the writers are exactly __init__, __setitem__ and append',
             'a method outside {__init__, __setitem__, append} writes a representation: %s' % (
                 public_extra or sorted(WRITERS - set(names))))
    summaries = Summaries(ck, mod, ctxs)
    total = 0
    for q, fn in writers:
        name = q.split('.', 1)[1]
        if _is_private(name):
            continue
        total += typestate(ck, mod, q, fn, ctxs[q], is_ctor=q.endswith('__init__'), summaries=summaries)
    total += sum(summaries.events.values())
    # private helper methods that write a representation: analysed in the
    # context of every call (above); nothing else may refer to them
    inl = (getattr(ck.repo, 'inlined', {}) or {}).get(mod.rel, {})
    for n in extra:
        if not _is_private(n):
            continue
        hq = CLS + '.' + n
        calls, refs = _uses_of_private(ck.repo, mod, n, ctxs)
        into = sorted(c for c, hs in inl.items() if n in hs or hq in hs)
        if refs:
            ck.missing('C06.D1.writers', 'private helper method %s writes a representation and is referred to other than as '
                       '`self.%s(...)` inside the class (%s): not every context of it is visible' % (hq, n, refs[0]))
        elif calls:
            if n in summaries.events:
                ck.ok('C06.D1.writers', mod, mod.func(hq), '%s: private writer helper' % hq,
                      'analysed with the typestate of each of its call sites (%s)' % ', '.join(sorted(set(calls))))
            else:
                ck.missing('C06.D1.writers', 'private helper method %s writes a representation but no call of it from a '
                           'writer could be summarised' % hq)
        elif into:
            ck.ok('C06.D1.writers', mod, mod.func(hq), '%s: extracted private helper, inlined into every caller' % hq,
                  'its representation events were analysed inside %s' % ', '.join(into))
        else:
            ck.missing('C06.D1.writers', 'private helper method %s writes a representation and is never called inside the '
                       'class: the typestate of its (external) callers is unknown' % hq)
    ck.floor('C06.D1.resync', total, 12, 'representation events')
    return writers, pure


# ---------------------------------------------------------------------------
# D2 pure operators

def _ctor_call(cx, E):
    """E constructs a new object of the class: RaggedArray(...), ra.RaggedArray(...),
    type(self)(...), self.__class__(...)."""
    if not isinstance(E, ast.Call):
        return False
    if (call_name(E) or '').split('.')[-1] == CLS:
        return True
    return match('type(%s)' % cx.me, E.func) is not None or match('%s.__class__' % cx.me, E.func) is not None


def _known_not_implemented(cx, ret):
    """`return X` where X is NotImplemented, or a name known to be
    NotImplemented on every path to the return."""
    v = ret.value
    if isinstance(v, ast.Name) and v.id == 'NotImplemented':
        return True
    if not isinstance(v, ast.Name):
        return False
    for n in cx.fi.cfg.nodes:
        if isinstance(n, Assume) and cx.fi.cfg.dominates(n, ret):
            t = n.test
            if isinstance(t, ast.Compare) and len(t.ops) == 1 and isinstance(t.left, ast.Name) and t.left.id == v.id \
                    and u(t.comparators[0]) == 'NotImplemented':
                if (isinstance(t.ops[0], ast.Is) and n.polarity) or (isinstance(t.ops[0], ast.IsNot) and not n.polarity):
                    if cx.fi.rd.defs_at(n.owner, v.id) == cx.fi.rd.defs_at(ret, v.id):
                        return True
    return False


def _wrap_return(ck, rule, mod, q, cx):
    """The single `return <Class>(<array>, <lengths>, ...)` of a re-wrapping
    method: (return stmt, expanded call) or None (reported)."""
    rets = [r for r in returns_of(cx.fn) if r.value is not None]
    wraps = []
    for r in rets:
        E = cx.vexpand(r.value, r)
        if _ctor_call(cx, E):
            wraps.append((r, E))
        elif _known_not_implemented(cx, r):
            continue
        elif isinstance(E, ast.Name) and E.id == cx.me:
            ck.bad(rule, mod, r, q, u(r), 'the operator returns its own operand: operators must return NEW objects')
            return None
        else:
            ck.missing(rule, '%s: return value not recognised as a new %s: %s' % (q, CLS, u(r)[:120]))
            return None
    if len(wraps) != 1:
        ck.missing(rule, '%s: expected exactly one `return %s(<new flat data>, lengths=self.lengths)`, found %d' % (q, CLS, len(wraps)))
        return None
    return wraps[0]


def _check_same_lengths(ck, rule, mod, q, cx, r, E, what):
    lens = arg_or_kw(E, 1, 'lengths')
    me_l = '%s.lengths' % cx.me
    # the constructor copies its lengths argument (D3): a copy of self.lengths is the same row structure
    forms = [me_l, '%s.copy()' % me_l, 'np.array(%s)' % me_l, 'np.asarray(%s)' % me_l, 'np.copy(%s)' % me_l, '%s[:]' % me_l]
    if lens is not None and any(match(f, lens) is not None for f in forms):
        ck.ok(rule, mod, r, '%s: lengths=%s' % (q, u(lens)), 'new object with the same row lengths')
        return True
    v = 'near' if lens is None else _near_far(cx, lens)
    ck.decide(v, rule, mod, r, q, u(r), '', '%s must wrap the new flat data with self.lengths (found lengths=%s)' % (what, u(lens)))
    return False


def _ragged_type_test(cx, test, oth):
    """+1 when `test` holds exactly when `oth` is a ragged array of the
    receiver's class, -1 for the negation, 0 when not recognised."""
    from ..patterns import conjuncts, Cmp
    cj = conjuncts(test, True)
    if not cj or len(cj) != 1:
        return 0
    c = cj[0]
    me = cx.me
    klass = ('type(%s)' % me, '%s.__class__' % me, CLS)

    def is_cls(e):
        return any(match(k, e) is not None for k in klass)

    def is_type_of_other(e):
        return match('type(%s)' % oth, e) is not None or match('%s.__class__' % oth, e) is not None
    if isinstance(c, Cmp):
        if c.op not in (ast.Is, ast.Eq, ast.IsNot, ast.NotEq):
            return 0
        if (is_type_of_other(c.lhs) and is_cls(c.rhs)) or (is_type_of_other(c.rhs) and is_cls(c.lhs)):
            return 1 if c.op in (ast.Is, ast.Eq) else -1
        return 0
    if isinstance(c, tuple) and c[0] == 'expr':
        e = c[1]
        if isinstance(e, ast.Call) and call_name(e) == 'isinstance' and len(e.args) == 2 and not e.keywords and \
                isinstance(e.args[0], ast.Name) and e.args[0].id == oth and is_cls(e.args[1]):
            return 1 if c[2] else -1
    return 0


def _operand_guard(ck, rule, mod, q, cx, oth, site, tests):
    """The replacement of the right operand by its flat data happens exactly
    for ragged operands: `tests` = [(test expr, polarity)] known at the
    replacement."""
    verdicts = [_ragged_type_test(cx, t, oth) * (1 if pol else -1) for t, pol in tests]
    con = '%s under %s' % (u(site)[:80], ' and '.join(('%s' if pol else 'not (%s)') % u(t) for t, pol in tests) or '<no condition>')
    if any(v > 0 for v in verdicts) and not any(v < 0 for v in verdicts):
        ck.ok(rule, mod, site, con, 'the flat data replaces the right operand exactly when it is a ragged array')
    elif any(v < 0 for v in verdicts):
        ck.bad(rule, mod, site, q, con, 'the right operand is replaced by its flat data when it is NOT a ragged array (and kept as '
               'an object when it is one): element-wise operators between ragged arrays no longer act on the flat data')
    else:
        ck.missing(rule, '%s: condition under which the right operand is replaced by its flat data not recognised: %s' % (q, con[:160]))


def d2_map_operator(ck, mod, rule):
    q = CLS + '.map_operator'
    fn = mod.func(q)
    cx = Ctx(mod, fn)
    if len(cx.params) < 3:
        ck.missing(rule, '%s(self, operator, other): parameters not recognised' % q)
        return
    me, opn, oth = cx.params[:3]
    w = _wrap_return(ck, rule, mod, q, cx)
    if w is None:
        return
    r, E = w
    arr = arg_or_kw(E, 0, 'array')
    construct = '%s ; %s' % (u(arr), u(r))
    bad_msg = 'map_operator must return RaggedArray(array=<new flat result>, lengths=self.lengths)'
    if not (isinstance(arr, ast.Call) and isinstance(arr.func, ast.Call) and call_name(arr.func) == 'getattr'
            and len(arr.func.args) == 2 and not arr.func.keywords and len(arr.args) == 1 and not arr.keywords):
        v = 'far' if arr is not None else 'near'
        if arr is not None and _near_far(cx, arr) == 'near':
            v = 'near'
        ck.decide(v, rule, mod, r, q, construct, '', bad_msg + ' with <new flat result> = getattr(self._data, operator)(other)')
        return
    X, Y = arr.func.args
    O = arr.args[0]
    okx = cx.is_me_attr(X, '_data')
    oky = isinstance(Y, ast.Name) and Y.id == opn and cx.param_only(Y)
    if okx and oky and _check_same_lengths(ck, rule, mod, q, cx, r, E, 'map_operator'):
        ck.ok(rule, mod, r, construct, 'element-wise result on the flat data, re-wrapped with the same row lengths in a NEW object')
    elif not (okx and oky):
        bad = X if not okx else Y
        ck.decide(_near_far(cx, bad), rule, mod, r, q, construct, '', bad_msg + ': the operator named by the `%s` parameter '
                  'must be applied to self._data (found getattr(%s, %s))' % (opn, u(X), u(Y)))
    # the right operand: the flat data of a ragged operand, the operand itself otherwise
    flat_other = '%s._data' % oth
    msg_ok = 'ragged operand contributes its flat data'
    msg_bad = 'other must be replaced by other._data for ragged operands'
    if isinstance(O, ast.Name) and O.id == oth:
        at = cx.at_of(O) or r
        defs = cx.fi.rd.defs_at(at, oth)
        sites = [d for d in defs if d not in ('PARAM', 'UNBOUND')]
        if 'PARAM' in defs and not sites:
            ck.bad(rule, mod, r, q, u(O), msg_bad)
        elif 'PARAM' in defs and len(sites) == 1 and isinstance(sites[0], ast.Assign):
            dv = cx.fi.def_value(sites[0], oth)
            dvx = cx.vexpand(dv, sites[0]) if dv is not None else None
            if dvx is not None and u(dvx) == flat_other and cx.fi.rd.defs_at(sites[0], oth) == {'PARAM'}:
                ck.ok(rule, mod, sites[0], u(sites[0]), msg_ok)
                cfg = cx.fi.cfg
                tests = [(n.test, n.polarity) for n in cfg.nodes if isinstance(n, Assume) and cfg.dominates(n, sites[0]) and
                         any(isinstance(x, ast.Name) and x.id == oth for x in ast.walk(n.test))]
                _operand_guard(ck, rule, mod, q, cx, oth, sites[0], tests)
            elif dvx is not None:
                ck.decide(_near_far(cx, dvx), rule, mod, sites[0], q, u(sites[0]), '', msg_bad)
            else:
                ck.missing(rule, '%s: definition of the right operand not recognised: %s' % (q, u(sites[0])[:120]))
        else:
            ck.missing(rule, '%s: definitions of the right operand `%s` not recognised' % (q, oth))
    elif isinstance(O, ast.IfExp) and ((u(O.body) == flat_other and u(O.orelse) == oth) or (u(O.orelse) == flat_other and u(O.body) == oth)):
        ck.ok(rule, mod, r, u(O), msg_ok)
        _operand_guard(ck, rule, mod, q, cx, oth, O, [(O.test, u(O.body) == flat_other)])
    else:
        ck.decide(_near_far(cx, O), rule, mod, r, q, u(O), '', msg_bad)


def d2_invert(ck, mod, rule):
    q = CLS + '.__invert__'
    cx = Ctx(mod, mod.func(q))
    w = _wrap_return(ck, rule, mod, q, cx)
    if w is None:
        return
    r, E = w
    arr = arg_or_kw(E, 0, 'array')
    me = cx.me
    forms = ['%s._data.__invert__()' % me, '~%s._data' % me, 'np.invert(%s._data)' % me, 'np.bitwise_not(%s._data)' % me]
    if arr is not None and any(match(f, arr) is not None for f in forms):
        if _check_same_lengths(ck, rule, mod, q, cx, r, E, '__invert__'):
            ck.ok(rule, mod, r, u(r), 'new object with the same lengths')
    else:
        v = 'near' if arr is None else _near_far(cx, arr)
        ck.decide(v, rule, mod, r, q, u(r), '', '__invert__ must wrap the inverted flat data (~self._data) with self.lengths')


def d2_pure(ck, mod, pure):
    rule = 'C06.D2.pure-operators'
    entries = [(RA, q) for q, fn in pure if not q.endswith(('__repr__', '__str__', '__len__'))]
    res, ea = shared(ck.repo)
    n = 0
    for rel, q in entries:
        fn = mod.func(q)
        muts = ea.mutated_params(rel, q)
        for p in params(fn):
            n += 1
            if p in muts and not harmless_self_copy(ck.repo, rel, q, p):
                why = muts[p]
                ck.bad(rule, mod, why['node'], q, 'parameter %s <- %s' % (p, why['construct'][:120]),
                       'a read-only method (operator/reduction/property) stores into storage of `%s`: operators must '
                       'return new objects and never alter their operands' % p,
                       (why.get('via') or ''))
            else:
                ck.ok(rule, mod, fn, '%s(%s)' % (q, p), 'no store may alias %s' % p)
    # map_operator rewraps fresh data with the same lengths
    d2_map_operator(ck, mod, rule + '.rewrap')
    # every dunder operator delegates to map_operator with its own name
    cnt = 0
    for q, fn in pure:
        name = q.split('.', 1)[1]
        if name.startswith('__') and name.endswith('__') and name not in ('__len__', '__repr__', '__str__', '__getitem__', '__invert__', '__init__', '__setitem__'):
            cnt += 1
            cx = Ctx(mod, fn)
            r = [x for x in returns_of(fn) if x.value is not None]
            msg = "%s must return self.map_operator('%s', other): another operator name computes a different operation" % (name, name)
            if len(r) != 1 or len(cx.params) != 2:
                ck.missing(rule + '.delegate', '%s: expected (self, other) and a single return' % q)
                continue
            E = cx.vexpand(r[0].value, r[0])
            oth = cx.params[1]
            if isinstance(E, ast.Call) and isinstance(E.func, ast.Attribute) and E.func.attr == 'map_operator':
                a0 = arg_or_kw(E, 0, 'operator')
                a1 = arg_or_kw(E, 1, 'other')
                ok = isinstance(E.func.value, ast.Name) and E.func.value.id == cx.me and const_value(a0) == name and \
                    isinstance(a1, ast.Name) and a1.id == oth and cx.param_only(a1) and len(E.args) + len(E.keywords) == 2
                if ok:
                    ck.ok(rule + '.delegate', mod, r[0], u(r[0]), 'delegates to map_operator under its own name')
                else:
                    parts = [x for x in (E.func.value, a0, a1) if x is not None]
                    v = 'near' if len(parts) == 3 and all(_near_far(cx, x) == 'near' for x in parts) else 'far'
                    ck.decide(v, rule + '.delegate', mod, r[0], q, u(r[0]), '', msg)
            else:
                ck.decide(_near_far(cx, E), rule + '.delegate', mod, r[0], q, u(r[0]), '', msg)
    ck.floor(rule + '.delegate', cnt, 23, 'operator methods')
    d2_invert(ck, mod, rule + '.rewrap')
    return n


# ---------------------------------------------------------------------------
# D3 copy on construction

def _copy_flag(cx, e):
    """+1 / -1 when the test `e` is the unmodified `copy` parameter / its
    negation (also `copy is True`, `copy == False`, ...), else 0."""
    from ..patterns import conjuncts, Cmp
    cj = conjuncts(e, True)
    if not cj or len(cj) != 1:
        return 0
    c = cj[0]
    if isinstance(c, tuple) and c[0] == 'expr':
        t = c[1]
        if isinstance(t, ast.Name) and t.id == 'copy' and cx.param_only(t):
            return 1 if c[2] else -1
        return 0
    if isinstance(c, Cmp) and isinstance(c.lhs, ast.Name) and c.lhs.id == 'copy' and cx.param_only(c.lhs) and \
            isinstance(c.rhs, ast.Constant) and isinstance(c.rhs.value, bool) and c.op in (ast.Is, ast.Eq, ast.IsNot, ast.NotEq):
        pos = c.op in (ast.Is, ast.Eq)
        return 1 if pos == c.rhs.value else -1
    return 0


def _copy_flag_false_at(cx, s):
    """Statement `s` is reached only with a falsy `copy` parameter."""
    cfg = cx.fi.cfg
    for n in cfg.nodes:
        if isinstance(n, Assume) and cfg.dominates(n, s):
            f = _copy_flag(cx, n.test)
            if f and (f > 0) != bool(n.polarity):
                return True
    return False


def _copy_making(cx, v):
    """Three-valued: the (expanded) value of a definition of self._data owns
    its buffer whenever the `copy` parameter is true."""
    if isinstance(v, ast.IfExp):
        f = _copy_flag(cx, v.test)
        if f > 0:
            return _copy_making(cx, v.body)
        if f < 0:
            return _copy_making(cx, v.orelse)
        a, b = _copy_making(cx, v.body), _copy_making(cx, v.orelse)
        return a if a == b else ('far' if 'far' in (a, b) else 'near')
    if isinstance(v, ast.Call):
        cn = call_name(v)
        if cn in ('np.concatenate', 'np.hstack', 'np.vstack', 'np.stack', 'np.copy'):
            return 'match'
        if cn == 'np.array':
            c = kwarg(v, 'copy')
            inner_fresh = v.args and isinstance(v.args[0], (ast.ListComp, ast.List))
            if inner_fresh or c is None or const_value(c) is True or (isinstance(c, ast.Name) and c.id == 'copy' and cx.param_only(c)):
                return 'match'
        elif isinstance(v.func, ast.Attribute) and v.func.attr == 'copy' and not v.args and not v.keywords:
            return 'match'          # canonical form of np.array(<name>)
        elif isinstance(v.func, ast.Attribute) and v.func.attr == 'flatten' and not (
                isinstance(v.func.value, ast.Name) and v.func.value.id == 'np'):
            return 'match'          # ndarray.flatten always returns a copy (ravel / reshape do not)
        elif isinstance(v.func, ast.Attribute) and v.func.attr == 'astype' and not (
                isinstance(v.func.value, ast.Name) and v.func.value.id == 'np'):
            c = kwarg(v, 'copy')
            if c is None or const_value(c) is True or (isinstance(c, ast.Name) and c.id == 'copy' and cx.param_only(c)):
                return 'match'      # astype copies unless copy=False
    elif isinstance(v, (ast.BinOp, ast.UnaryOp)) and not isinstance(getattr(v, 'op', None), ast.UAdd):
        return 'match'              # the result of array arithmetic is a new array
    return _near_far(cx, v)


def d3_copy(ck, mod):
    rule = 'C06.D3.copy-on-construction'
    fn = mod.func(CLS + '.__init__')
    cx = Ctx(mod, fn)
    F = CLS + '.__init__'
    d = param_default(fn, 'copy')
    ck.check(const_value(d) is True, rule + '.default', mod, fn, F, 'copy=%s' % u(d), 'copy defaults to True', 'the constructor\'s copy flag must default to True')
    # the flag is not reassigned
    re = [s for s in assigns_to(fn, 'copy')]
    ck.check(not re, rule + '.default', mod, re[0] if re else fn, F, u(re[0]) if re else 'copy never reassigned', 'flag flows unmodified', 'the copy flag is overwritten inside the constructor')
    n = 0
    for s in walk_local(fn):
        if not (isinstance(s, ast.Assign) and len(s.targets) == 1):
            continue
        if cx.is_me_attr(s.targets[0], '_data'):
            n += 1
            v = cx.vexpand(s.value, s)
            if _copy_flag_false_at(cx, s):
                ck.ok(rule + '.data', mod, s, u(s)[:140], 'reached only when the caller passed copy=False: no copy is promised')
                continue
            verdict = _copy_making(cx, v)
            if verdict != 'match' and isinstance(v, ast.Name):
                # a local with one definition per arm (try / except, if / else): every definition is judged
                leaves = _defs_leaves(cx, s.value, s)
                if leaves:
                    vs = [_copy_making(cx, lv) for lv, _at in leaves]
                    verdict = 'match' if all(x == 'match' for x in vs) else ('near' if 'near' in vs and 'far' not in vs else 'far')
            ck.decide(verdict, rule + '.data', mod, s, F, u(s)[:140],
                      'flat data is built by a copying constructor honouring the copy flag',
                      'self._data must be np.concatenate(...) or np.array(array, copy=copy): np.asarray / a bare '
                      'reference keeps the caller\'s buffer although copy=True')
        elif cx.is_me_attr(s.targets[0], 'lengths'):
            n += 1
            v = cx.vexpand(s.value, s)
            verdict = None
            if isinstance(v, ast.Call):
                c = kwarg(v, 'copy')
                if call_name(v) == 'np.array' and (c is None or const_value(c) is True):
                    verdict = 'match'
                elif call_name(v) in _ALLOCATING:
                    verdict = 'match'
                elif isinstance(v.func, ast.Attribute) and v.func.attr == 'copy' and not v.args and not v.keywords:
                    verdict = 'match'
            if verdict is None:
                verdict = _near_far(cx, v)
            ck.decide(verdict, rule + '.lengths', mod, s, F, u(s)[:140],
                      'lengths are stored as a fresh array',
                      'self.lengths must be a fresh np.array(...): np.asarray(lengths) keeps the caller\'s array, so '
                      'a later in-place edit of it changes lengths/starts of this object (and of every result that '
                      'shares it) while the rows keep the old partition')
    ck.floor(rule + '.data', n, 8, 'definitions of _data/lengths in the constructor')
    # _array is derived from self._data (never from the raw argument)
    for s in walk_local(fn):
        if isinstance(s, ast.Assign) and len(s.targets) == 1 and cx.is_me_attr(s.targets[0], '_array'):
            v = cx.vexpand(s.value, s)
            if isinstance(v, ast.List) and not v.elts:
                continue
            verdict = 'match' if _mentions_attr(cx, v, '_data') else _near_far(cx, v)
            ck.decide(verdict, rule + '.rows', mod, s, F, u(s)[:140], 'row view is derived from the object\'s own flat data',
                      'self._array must be built from self._data (view or partition), not from the caller\'s argument')
    # lengths never stored into anywhere in the class
    for q, f in mod.functions.items():
        if q.startswith(CLS + '.') and '<locals>' not in q:
            cq = Ctx(mod, f)
            for s in cq.fi.cfg.nodes:
                for kind, what, stmt, _ in cq.events(s):
                    if kind == 'store' and what == 'lengths':
                        ck.bad(rule + '.lengths', mod, s, q, u(s), 'self.lengths is shared between operands/results and must only be rebound, never stored into')
                    if kind == 'rebind' and what == 'lengths' and isinstance(s, ast.AugAssign):
                        ck.bad(rule + '.lengths', mod, s, q, u(s), 'in-place update of self.lengths (shared between objects)')


# ---------------------------------------------------------------------------
# D5 the cells addressed by a write

def _module_callees(mod, fn, depth=4):
    """Module-level functions of `mod` called (transitively) from `fn`."""
    out, todo = set(), [(fn, depth)]
    while todo:
        f, d = todo.pop()
        for c in walk_local(f):
            if isinstance(c, ast.Call) and isinstance(c.func, ast.Name) and c.func.id in mod.functions and c.func.id not in out:
                out.add(c.func.id)
                if d > 0:
                    todo.append((mod.functions[c.func.id], d - 1))
    return out


_BOOL_CALLS = {'isinstance', 'issubclass', 'hasattr', 'callable', 'bool', 'np.isscalar', 'np.iterable', 'np.issubdtype',
               'np.array_equal', 'np.can_cast'}


def _bool_valued(e):
    """The expression is a truth value by construction (it denotes no index,
    length or array)."""
    if isinstance(e, ast.Constant):
        return isinstance(e.value, bool)
    if isinstance(e, ast.Compare):
        # `x < 0` on an array is a mask - an address -, not a truth value: ordering/equality only between scalars
        def scalar(x):
            return (isinstance(x, ast.Constant) and isinstance(x.value, (int, float)) and not isinstance(x.value, bool)) or \
                (isinstance(x, ast.Call) and call_name(x) in ('len', 'np.ndim', 'np.size', 'type')) or \
                (isinstance(x, ast.Attribute) and x.attr in ('size', 'ndim', '__class__'))
        return all(isinstance(o, (ast.Is, ast.IsNot, ast.In, ast.NotIn)) for o in e.ops) or \
            all(scalar(x) for x in [e.left] + e.comparators)
    if isinstance(e, ast.UnaryOp) and isinstance(e.op, ast.Not):
        return True
    if isinstance(e, ast.BoolOp):
        return all(_bool_valued(x) for x in e.values)
    if isinstance(e, ast.IfExp):
        return _bool_valued(e.body) and _bool_valued(e.orelse)
    if isinstance(e, ast.Call):
        return call_name(e) in _BOOL_CALLS
    return False


def _is_predicate(mod, fn):
    """A helper that only answers yes/no: every return value is, after the
    expansion of temporaries, a truth value by construction, and the function
    stores into nothing but its own locals."""
    rets = [r for r in returns_of(fn) if r.value is not None]
    if not rets:
        return False
    fi = finfo(mod, fn)
    for s in walk_local(fn):
        if isinstance(s, (ast.Assign, ast.AugAssign, ast.AnnAssign)):
            tg = s.targets if isinstance(s, ast.Assign) else [s.target]
            if any(not isinstance(t, ast.Name) for t in tg):
                return False
        if isinstance(s, (ast.Global, ast.Nonlocal, ast.Yield, ast.YieldFrom)):
            return False
    return all(_bool_valued(fi.expand(r.value)) for r in rets)


def d5_write_addressing(ck, mod):
    """The typestate (D1) shows that every store into the flat data is
    followed by a rebuild of the rows; it says nothing about WHICH cells the
    store addresses.  `a[rows, cols] = v` addresses `self._data[<flat index>]`
    where the flat index comes from the index-conversion helpers of the module;
    the writer agrees with the list-of-rows model only if (1) every flat-data
    access of the writer takes its index from the checked conversion, (2) the
    writer maps each (row index type, column index type) case to the same
    helper with the same arguments as the reader, a row slice being expanded
    against the number of rows, and (3) the generator of the (row, column)
    pairs for a column slice keeps row ids and positions in the row selection
    apart.  These are the index-space rules of the read path (C05.D1/D3/D4),
    which analyse `__getitem__` and `__setitem__` together; they are obligations
    of the write path as well and are run here for the helpers that
    `__setitem__` actually reaches."""
    rule = 'C06.D5.write-addressing'
    W = CLS + '.__setitem__'
    fn = mod.functions.get(W)
    if fn is None:
        ck.missing(rule, '%s not found' % W)
        return
    cx = Ctx(mod, fn)
    # flat-data stores of the writer and the helpers their indices come from
    stores = []
    for n in cx.fi.cfg.nodes:
        if n in (ENTRY, EXIT) or isinstance(n, Assume):
            continue
        for kind, what, stmt, _ in cx.events(n):
            if kind == 'store' and what == '_data' and n not in stores:
                stores.append(n)
    callees = _module_callees(mod, fn)
    try:
        from . import C05
        rules = [('_convert_from_2d', C05.d1_call_sites), ('_get_iis_from_list', None), ('_slice_to_list', C05.d3_row_count),
                 (None, C05.d3_dispatch), ('_get_iis_from_slices', C05.d4_index_space),
                 # a[rows, -k:] = v / a[:5, 0] = v / a[mask] = v address cells through the same helpers as the reads
                 ('_slice_to_list', C05.d2_slices), ('_convert_from_1d', C05.d5_index_dtype)]
        # the CONTENT of the conversions the writer goes through (call-sites only shows that the store takes its index
        # from _convert_from_2d): which (row, column) pairs are refused - a column at/after the end of its row, a row or
        # column still negative after the offset by the row count / row length - and which flat position a pair and a
        # mask position denote.  A pair that is not refused addresses a cell of ANOTHER row in a write.  Run for the
        # helper when the writer reaches it; when it does not, the remaining groups see the restructured conversion.
        content = [(('_convert_from_2d',), C05.d1_bounds), (('_handle_negative_indices',), C05.d1_negatives),
                   (('_convert_from_1d', 'where'), C05.d5_where)]
    except (ImportError, AttributeError) as e:
        ck.missing(rule, 'index-space rules of the read path (sa/rules/C05.py) not available: %r' % (e,))
        return
    if not stores:
        ck.missing(rule, '%s: no store into the flat data found (the addressing of writes is not recognised)' % W)
        return
    n = 0
    try:
        rw = C05._follow_delegates(ck, mod, [C05.CLS + '.__getitem__', C05.CLS + '.__setitem__'])
    except Exception:
        rw = mod
    for helper, run in rules:
        if helper is not None and helper not in callees:
            ck.missing(rule, '%s does not reach the index-conversion helper %s: the flat index of `%s` is computed in a way '
                       'the index-space rules do not cover' % (W, helper, u(stores[0])[:80]))
            continue
        n += 1
        if run is not None:
            # the reader/writer rules see both methods as they are after following their delegation to new private
            # helpers, exactly as the C05 check runs them
            run(ck, rw if run in (C05.d1_call_sites, C05.d3_dispatch, C05.d3_row_count) else mod)
    covered = {h for h, _ in rules if h} | {'partition_list'}
    for helpers, run in content:
        if helpers[0] in callees:
            covered.update(helpers)
            run(ck, mod)
    # every other module-level function between the index of `a[...] = v` and the flat store: no rule looks at
    # what it computes, so the check must not say HOLDS on its account (a pure predicate decides no address)
    for h in sorted(callees - covered):
        hf = mod.functions[h]
        if _is_predicate(mod, hf):
            continue
        ck.missing(rule, '%s reaches the module-level helper %s on the way to the flat index of `%s`; no index-space rule covers it'
                   % (W, h, u(stores[0])[:80]))
    d5_refusals_live(ck, mod, [(W, fn)] + [(h, mod.functions[h]) for h in sorted(callees)])
    # the rebuild primitive: every 'flat' re-synchronisation of D1 is
    # np.array(partition_list(self._data, lengths)); the rows agree with the
    # flat data only if partition_list cuts consecutive pieces of those lengths
    try:
        from .C10 import d5_partition_list
        d5_partition_list(ck)
    except (ImportError, AttributeError) as e:
        ck.missing(rule, 'rule for the rebuild primitive partition_list (sa/rules/C10.py d5_partition_list) not available: %r' % (e,))
    ck.ok(rule, mod, fn, '%s: %d flat-data stores; index helpers reached: %s' % (W, len(stores), ', '.join(sorted(callees))),
          'the index-space rules C05.D1.row-bounds.call-sites / C05.D3 / C05.D4 / C05.D7 apply to the write path')
    ck.floor(rule, n, 5, 'index-space rule groups applied to the write path')


# ---------------------------------------------------------------------------
# D5b the refusals of the index helpers can fire (sign domain)

_NONNEG_CALLS = {'len', 'abs', 'np.abs', 'np.absolute', 'np.fabs', 'np.flatnonzero', 'np.argwhere', 'np.nonzero', 'np.count_nonzero',
                 'np.argmax', 'np.argmin', 'np.argsort', 'np.size', 'np.ndim', 'np.shape', 'np.bincount'}
_NONNEG_METHODS = {'nonzero', 'argmax', 'argmin', 'argsort'}
_NONNEG_ATTRS = {'size', 'ndim', 'shape', 'nbytes', 'itemsize'}
# value-preserving wrappers / selections / order statistics: non-negative when their operand is
_SIGN_KEEPING_CALLS = {'np.array', 'np.asarray', 'np.asanyarray', 'np.atleast_1d', 'np.copy', 'np.ravel', 'np.sort', 'np.unique',
                       'np.max', 'np.min', 'np.sum', 'np.cumsum', 'np.squeeze', 'np.concatenate', 'np.append', 'np.hstack',
                       'list', 'tuple', 'sorted', 'max', 'min', 'sum', 'int'}
_SIGN_KEEPING_METHODS = {'copy', 'reshape', 'ravel', 'flatten', 'max', 'min', 'sum', 'cumsum', 'squeeze', 'tolist', 'item'}
_SIGN_NEUTRAL_KW = {'axis', 'dtype', 'copy', 'keepdims', 'kind', 'order', 'ndmin', 'subok'}
_HARMLESS_CONSUMERS = {'len', 'range', 'enumerate', 'zip', 'list', 'tuple', 'sorted', 'sum', 'min', 'max', 'int', 'float', 'bool',
                       'print', 'str', 'repr', 'isinstance', 'type', 'any', 'all'}


class Signs:
    """A small abstract interpretation of one function over the sign domain
    {ZERO (the number 0 / an all-False mask / an all-zero array), NONNEG,
    unknown}: which expressions
    are non-negative BY CONSTRUCTION (positions returned by np.where(mask) /
    np.nonzero / argsort, lengths, sizes, counts, absolute values, sums and
    products of such), through def-use for local names (every reaching
    definition non-negative, the object never stored into nor aliased)."""
    ZERO, NONNEG = 'zero', 'nonneg'

    def __init__(self, mod, fn):
        self.mod, self.fn = mod, fn
        self.fi = finfo(mod, fn)
        self._busy = set()

    def _escapes(self, name):
        """The object bound to `name` may be written through another path: a
        bare alias `z = name`, or the name handed to a non-numpy callee."""
        fi = self.fi
        if fi._mutated_in_place(name):
            return True
        for n in walk_local(self.fn):
            if isinstance(n, (ast.Assign, ast.AnnAssign)) and isinstance(n.value, ast.Name) and n.value.id == name:
                return True
            if isinstance(n, ast.Call):
                cn = call_name(n) or ''
                if cn.startswith(('np.', 'numpy.')) or cn in _HARMLESS_CONSUMERS:
                    if any(k.arg == 'out' and isinstance(k.value, ast.Name) and k.value.id == name for k in n.keywords):
                        return True
                    continue
                if isinstance(n.func, ast.Attribute) and isinstance(n.func.value, ast.Name) and n.func.value.id == name:
                    continue        # a method of the object itself: mutating ones are in _mutated_in_place
                if any(isinstance(a, ast.Name) and a.id == name for a in list(n.args) + [k.value for k in n.keywords]):
                    return True
        return False

    def nonneg(self, e, at, depth=8):
        v = self.sign(e, at, depth)
        return v in (self.ZERO, self.NONNEG)

    def sign(self, e, at, depth=8):
        Z, N = self.ZERO, self.NONNEG
        if e is None or depth < 0:
            return None
        if isinstance(e, ast.Constant):
            if isinstance(e.value, bool):
                return N if e.value else Z
            if isinstance(e.value, (int, float)):
                return Z if e.value == 0 else (N if e.value > 0 else None)
            return None
        if isinstance(e, ast.Name):
            if at is None or (id(at), e.id) in self._busy:
                return None
            defs = self.fi.rd.defs_at(at, e.id)
            if not defs or self._escapes(e.id):
                return None
            out = set()
            self._busy.add((id(at), e.id))
            try:
                for site in defs:
                    if site in ('PARAM', 'UNBOUND'):
                        return None
                    if isinstance(site, (ast.For, ast.AsyncFor)) and isinstance(site.target, ast.Name) and site.target.id == e.id:
                        it = site.iter          # an element of a non-negative sequence / range(n) / range(a >= 0, b)
                        if isinstance(it, ast.Call) and call_name(it) in ('range', 'np.arange') and not it.keywords and \
                                (len(it.args) == 1 or (len(it.args) == 2 and self.nonneg(it.args[0], site, depth - 1))):
                            out.add(N)
                            continue
                        out.add(self.sign(it, site, depth - 1))
                        continue
                    v = self.fi.def_value(site, e.id) if isinstance(site, (ast.Assign, ast.AnnAssign)) else None
                    out.add(self.sign(v, site, depth - 1) if v is not None else None)
            finally:
                self._busy.discard((id(at), e.id))
            if None in out:
                return None
            return Z if out == {Z} else N
        if isinstance(e, ast.Attribute):
            if e.attr == 'size' and self._empty(e.value, at, depth - 1):
                return Z
            if e.attr in _NONNEG_ATTRS:
                return N
            if e.attr in ('T', 'real', 'flat'):
                return self.sign(e.value, at, depth - 1)
            return None
        if isinstance(e, ast.Subscript):
            # an element / a selection / a member of the tuple of position arrays
            return self.sign(e.value, at, depth - 1)
        if isinstance(e, (ast.Tuple, ast.List)):
            vs = [self.sign(x, at, depth - 1) for x in e.elts]
            if not vs:
                return Z
            return None if None in vs else (Z if set(vs) == {Z} else N)
        if isinstance(e, (ast.ListComp, ast.GeneratorExp)):
            return None
        if isinstance(e, ast.IfExp):
            a, b = self.sign(e.body, at, depth - 1), self.sign(e.orelse, at, depth - 1)
            return None if None in (a, b) else (Z if a == b == Z else N)
        if isinstance(e, ast.UnaryOp):
            if isinstance(e.op, ast.UAdd):
                return self.sign(e.operand, at, depth - 1)
            if isinstance(e.op, ast.USub):
                return Z if self.sign(e.operand, at, depth - 1) == Z else None
            return None
        if isinstance(e, ast.BinOp):
            a, b = self.sign(e.left, at, depth - 1), self.sign(e.right, at, depth - 1)
            if isinstance(e.op, ast.Add):
                return None if None in (a, b) else (Z if a == b == Z else N)
            if isinstance(e.op, ast.Mult):
                if None in (a, b):
                    return None
                return Z if Z in (a, b) else N
            if isinstance(e.op, (ast.FloorDiv, ast.Div, ast.Mod)) and a is not None and b == N and \
                    isinstance(e.right, ast.Constant):
                return N if a == N else Z
            return None
        if isinstance(e, ast.BoolOp):
            vs = [self.sign(x, at, depth - 1) for x in e.values]
            if isinstance(e.op, ast.And):
                # the first falsy operand is the value: falsy whenever ONE conjunct is constant-false
                return Z if Z in vs else (None if None in vs else N)
            return None if None in vs else (Z if set(vs) == {Z} else N)
        if isinstance(e, ast.Compare):
            return self._compare(e, at, depth)
        if isinstance(e, ast.Call):
            cn = call_name(e)
            f = e.func
            if cn == 'np.where':
                if len(e.args) == 1 and not e.keywords:
                    return N            # the tuple of position arrays
                if len(e.args) == 3:
                    a, b = self.sign(e.args[1], at, depth - 1), self.sign(e.args[2], at, depth - 1)
                    return None if None in (a, b) else (Z if a == b == Z else N)
                return None
            if cn in ('np.arange', 'range') and not e.keywords and (
                    len(e.args) == 1 or (len(e.args) == 2 and self.nonneg(e.args[0], at, depth - 1))):
                return N
            if cn in ('len', 'np.size') and len(e.args) == 1:
                return Z if self._empty(e.args[0], at, depth - 1) else N
            if cn == 'np.count_nonzero' and e.args:
                return Z if self.sign(e.args[0], at, depth - 1) == Z or self._empty(e.args[0], at, depth - 1) else N
            if cn in _NONNEG_CALLS:
                return N
            if cn in _SIGN_KEEPING_CALLS and e.args:
                if any(k.arg not in _SIGN_NEUTRAL_KW for k in e.keywords):
                    return None
                if cn in ('np.append', 'max', 'min', 'sum') and len(e.args) > 1:
                    vs = [self.sign(a, at, depth - 1) for a in e.args[:2]]
                    return None if None in vs or len(e.args) > 2 else (Z if set(vs) == {Z} else N)
                if cn == 'int' and len(e.args) != 1:
                    return None
                return self.sign(e.args[0], at, depth - 1)
            if isinstance(f, ast.Attribute) and not (isinstance(f.value, ast.Name) and f.value.id in ('np', 'numpy')):
                if f.attr in _NONNEG_METHODS:
                    return N
                if f.attr == 'any' or f.attr == 'all':
                    v = self.sign(f.value, at, depth - 1)
                    return Z if f.attr == 'any' and (v == Z or self._empty(f.value, at, depth - 1)) else N
                if f.attr in _SIGN_KEEPING_METHODS:
                    if any(k.arg not in _SIGN_NEUTRAL_KW for k in e.keywords):
                        return None
                    if f.attr == 'sum' and self._empty(f.value, at, depth - 1):
                        return Z
                    return self.sign(f.value, at, depth - 1)
                if f.attr == 'astype' and e.args and u(e.args[0]) in ('int', 'np.int64', 'np.intp', 'float', 'np.int32', "'int'", 'bool'):
                    return self.sign(f.value, at, depth - 1)
            return None
        return None

    def _peel(self, e, at, depth=4):
        """The defining expression of a single-definition name (for the KIND of
        value - mask or not -, never for its operands' current values)."""
        while isinstance(e, ast.Name) and depth > 0 and at is not None:
            defs = self.fi.rd.defs_at(at, e.id)
            if len(defs) != 1:
                break
            site = next(iter(defs))
            v = self.fi.def_value(site, e.id) if isinstance(site, (ast.Assign, ast.AnnAssign)) else None
            if v is None:
                break
            e, at, depth = v, site, depth - 1
        return e

    def _empty(self, e, at, depth=6):
        """The value is an array WITHOUT elements: the positions of an all-False
        mask (np.where(<mask>)[k], np.nonzero(<mask>)[k]), or an elementwise
        comparison / selection of such."""
        if depth < 0:
            return False
        x = self._peel(e, at)
        if isinstance(x, ast.Name):
            return False
        # operands of the peeled definition are evaluated where the name is used only for their SIGN KIND:
        # `_peel` follows single definitions, and Signs.sign re-checks every name through its own reaching definitions
        at2 = self.fi.stmt(x) or at
        if isinstance(x, ast.Compare) and len(x.ops) == 1:
            return self._empty(x.left, at2, depth - 1) or self._empty(x.comparators[0], at2, depth - 1)
        if isinstance(x, ast.Subscript) and isinstance(x.value, ast.Call) and call_name(x.value) in ('np.where', 'np.nonzero') \
                and len(x.value.args) == 1 and not x.value.keywords and isinstance(const_value(x.slice, None), int):
            m = x.value.args[0]
            return self.sign(m, at2, depth - 1) == self.ZERO and isinstance(self._peel(m, at2), ast.Compare)
        return False

    def _compare(self, e, at, depth):
        """`E < c` / `E <= c` with E non-negative and c too small is false for
        every element; `c < Z`, `Z != 0`, `1 <= Z` with Z zero is false."""
        Z, N = self.ZERO, self.NONNEG
        if len(e.ops) != 1:
            return None
        op, a, b = e.ops[0], e.left, e.comparators[0]
        if isinstance(op, (ast.Gt, ast.GtE)):
            op, a, b = (ast.Lt() if isinstance(op, ast.Gt) else ast.LtE()), b, a
        ka = const_value(a, None) if isinstance(a, (ast.Constant, ast.UnaryOp)) else None
        kb = const_value(b, None) if isinstance(b, (ast.Constant, ast.UnaryOp)) else None
        num = lambda k: isinstance(k, (int, float)) and not isinstance(k, bool)
        sa = self.sign(a, at, depth - 1)
        sb = self.sign(b, at, depth - 1)
        if isinstance(op, ast.Lt):
            if sa in (Z, N) and ((num(kb) and kb <= 0) or sb == Z):
                return Z                # nonneg < 0
            if sb == Z and num(ka) and ka >= 0:
                return Z                # 0 < zero
        elif isinstance(op, ast.LtE):
            if sa in (Z, N) and num(kb) and kb < 0:
                return Z                # nonneg <= -1
            if sb == Z and num(ka) and ka > 0:
                return Z                # 1 <= zero
        elif isinstance(op, ast.NotEq):
            if (sa == Z and (sb == Z or kb == 0)) or (sb == Z and ka == 0):
                return Z                # zero != 0
        elif isinstance(op, ast.Eq):
            if (sa in (Z, N) and num(kb) and kb < 0) or (sb in (Z, N) and num(ka) and ka < 0):
                return Z
        return N                        # a truth value / a mask: non-negative, truth unknown


def _raises_directly(stmts):
    """A `raise` among the statements or under nested if/with (not inside a
    nested loop, try or function)."""
    for s in stmts:
        if isinstance(s, ast.Raise):
            return s
        if isinstance(s, ast.If):
            r = _raises_directly(s.body) or _raises_directly(s.orelse)
            if r is not None:
                return r
        elif isinstance(s, (ast.With, ast.AsyncWith)):
            r = _raises_directly(s.body)
            if r is not None:
                return r
    return None


def d5_refusals_live(ck, mod, fns):
    """Every refusal (`if <test>: raise ...`) on the way from the index of
    `a[...] = v` to the flat store can fire.  A test that asks for a negative
    element of a value which is non-negative by construction - the POSITIONS of
    the negative indices (np.where(idx < 0)[0]) instead of the indices, a length,
    a count - is constant false: the refusal is dead code, the index it was
    written for reaches the flat store, and the write lands in another row.
    Decided in the sign domain (class Signs); a test the domain says nothing
    about is left to the content rules of the helper."""
    rule = 'C06.D5.write-addressing.refusals-live'
    n = 0
    for q, fn in fns:
        sg = Signs(mod, fn)
        fi = sg.fi
        for g in walk_local(fn):
            if not isinstance(g, ast.If):
                continue
            r = _raises_directly(g.body)
            if r is None:
                continue
            n += 1
            v = sg.sign(g.test, g)
            exc = (call_name(r.exc) or u(r.exc)) if r.exc is not None else 're-raise'
            if v != Signs.ZERO:
                ck.ok(rule, mod, g, '%s: refusal (%s) under `%s`' % (q, exc, u(g.test)[:100]), 'not constant-false in the sign domain')
                continue
            # name the operand and, when there is one, the in-place update it went stale over
            culprit, stale = None, None
            for x in walk_expr(g.test):
                if isinstance(x, ast.Name) and isinstance(x.ctx, ast.Load) and sg.nonneg(x, g) and x.id not in ('np', 'numpy'):
                    culprit = x
                    d = sg._peel(x, g)
                    for y in walk_expr(d):
                        if isinstance(y, ast.Name) and y.id != x.id:
                            for m in fi._mutated_in_place(y.id):
                                if fi.cfg.reachable(m, g):
                                    stale = (y.id, m)
                    break
            what = ('`%s` (= %s)' % (culprit.id, u(sg._peel(culprit, g))[:80])) if culprit is not None else 'the tested value'
            ck.bad(rule, mod, g, q, 'refusal (%s) that can never fire: operand of the sign test' % exc,
                   'the test `%s` is constant false: %s is non-negative by construction (positions / lengths / counts), so no element of it '
                   'is ever negative and the %s below it is dead code%s.  An index that should be refused (e.g. a row below -n_rows) reaches '
                   'the flat store and the write lands in a cell of another row' % (
                       u(g.test)[:120], what, exc,
                       ('; the value that was updated in place before this test is `%s` (%s, L%s) - that is the one to re-test'
                        % (stale[0], u(stale[1])[:60], getattr(stale[1], 'lineno', '?'))) if stale else ''))
    if n == 0:
        ck.ok(rule, mod, fns[0][1] if fns else mod.tree, 'no refusal in the index helpers of the writer', 'nothing to decide')
    return n


# ---------------------------------------------------------------------------
# D6c append: the new row lengths describe the rows whose values were joined to the flat data

_JOIN_FUNCS = {'np.concatenate', 'np.hstack', 'np.vstack', 'np.row_stack'}
_SEQ_WRAPPERS = {'np.array', 'np.asarray', 'np.asanyarray', 'list', 'tuple', 'np.atleast_1d', 'np.fromiter'}


def _unwrap_seq(e):
    """Strip conversions that keep the sequence of values: np.array(X[, dtype]), list(X), X.copy(), X.tolist()."""
    while True:
        if isinstance(e, ast.Call) and call_name(e) in _SEQ_WRAPPERS and len(e.args) >= 1 and \
                all(k.arg in ('dtype', 'copy', 'count') for k in e.keywords):
            e = e.args[0]
        elif isinstance(e, ast.Call) and isinstance(e.func, ast.Attribute) and e.func.attr in ('copy', 'tolist') and not e.args \
                and not (isinstance(e.func.value, ast.Name) and e.func.value.id == 'np'):
            e = e.func.value
        elif isinstance(e, ast.Call) and isinstance(e.func, ast.Attribute) and e.func.attr == 'astype' \
                and not (isinstance(e.func.value, ast.Name) and e.func.value.id == 'np'):
            e = e.func.value            # same values (their element type is D6.flat-data.cast's business)
        else:
            return e


def _list_typed(e):
    return isinstance(e, (ast.List, ast.ListComp)) or (isinstance(e, ast.Call) and (
        call_name(e) == 'list' or (isinstance(e.func, ast.Attribute) and e.func.attr == 'tolist')))


def join_parts(e):
    """Operands, in order, of an expression that joins sequences end to end:
    np.append(a, b), np.concatenate([a, b, ...]), np.hstack((a, b)),
    np.r_[a, b], list + list (under np.array(...)); None when `e` is no join."""
    e = _unwrap_seq(e)
    if isinstance(e, ast.Call):
        cn = call_name(e)
        if cn == 'np.append':
            a, b = arg_or_kw(e, 0, 'arr'), arg_or_kw(e, 1, 'values')
            return [a, b] if a is not None and b is not None else None
        if cn in _JOIN_FUNCS and e.args and isinstance(e.args[0], (ast.List, ast.Tuple)) and \
                not any(isinstance(x, ast.Starred) for x in e.args[0].elts):
            return list(e.args[0].elts)
        return None
    if isinstance(e, ast.Subscript) and u(e.value) == 'np.r_' and isinstance(e.slice, ast.Tuple):
        return list(e.slice.elts)
    if isinstance(e, ast.BinOp) and isinstance(e.op, ast.Add) and _list_typed(e.left) and _list_typed(e.right):
        return (join_parts(e.left) if isinstance(e.left, ast.BinOp) else [e.left]) + [e.right]
    return None


_LEN_FORMS = ('len(_I)', '_I.shape[0]', 'np.shape(_I)[0]', '_I.__len__()', 'np.size(_I, 0)', 'np.size(_I, axis=0)')


def _is_len_of(e, name=None):
    """e is the length (first-axis extent) of an expression: returns that expression."""
    for f in _LEN_FORMS:
        b = match(f, e)
        if b is not None:
            x = b['_I']
            if name is None or (isinstance(x, ast.Name) and x.id == name):
                return x
    return None


def _defs_leaves(cx, e, at, depth=5):
    """The expressions a value may come from: `e` itself, or, for a local name
    with several reaching definitions (arms of an if/else), the value of each
    definition.  -> [(expanded expression, statement)]; None when a definition
    has no simple value."""
    if isinstance(e, ast.Name) and e.id not in cx.params and depth > 0:
        defs = cx.fi.rd.defs_at(at, e.id)
        out = []
        for site in defs:
            if site in ('PARAM', 'UNBOUND'):
                return None
            v = cx.fi.def_value(site, e.id) if isinstance(site, (ast.Assign, ast.AnnAssign)) else None
            if v is None:
                return None
            sub = _defs_leaves(cx, v, site, depth - 1)
            if sub is None:
                return None
            out += sub
        return out
    return [(cx.vexpand(e, at), at)]


def _same_seq_value(cx, a, b):
    """Two expanded expressions denote the same value: same canonical text and
    every name in them is reached by the same definitions where each is
    evaluated, none of them stored into."""
    if u(a) != u(b):
        return False
    na = [n for n in ast.walk(a) if isinstance(n, ast.Name)]
    nb = [n for n in ast.walk(b) if isinstance(n, ast.Name)]
    for x, y in zip(na, nb):
        if x.id != y.id:
            return False
        if x.id in ('np', 'numpy', 'len', 'list', 'tuple', 'map', 'range') or x.id == cx.me:
            continue
        ax, ay = cx.at_of(x), cx.at_of(y)
        if ax is None or ay is None:
            # a comprehension variable / an unexpanded position
            continue
        if cx.fi.rd.defs_at(ax, x.id) != cx.fi.rd.defs_at(ay, y.id):
            return False
        if cx.fi._mutated_in_place(x.id):
            return False
    return True


def d6_append_lengths(ck, mod):
    """List-of-rows model: `a.append(rows)` adds the rows r_1..r_k AFTER the
    existing ones.  The writer keeps that in two places - the flat data gets
    the concatenated values, `lengths` gets one entry per row - and D1 only
    shows that both are written and the row view is rebuilt from them.  They
    describe the same rows only if (1) old and new part are joined in the same
    order, old first, in both, and (2) the new lengths are the lengths, row by
    row, of the very sequence whose concatenation went into the flat data."""
    rule = 'C06.D6.append.lengths'
    q = CLS + '.append'
    fn = mod.functions.get(q)
    if fn is None:
        ck.missing(rule, '%s not found' % q)
        return 0
    cx = Ctx(mod, fn)
    if len(cx.params) < 2:
        ck.missing(rule, '%s(self, values): parameters' % q)
        return 0
    V = cx.params[1]
    cfg = cx.fi.cfg
    SL = [s for s in walk_local(fn) if isinstance(s, ast.Assign) and len(s.targets) == 1 and cx.is_me_attr(s.targets[0], 'lengths')]
    SD = [s for s in walk_local(fn) if isinstance(s, ast.Assign) and len(s.targets) == 1 and cx.is_me_attr(s.targets[0], '_data')]
    if not SL and not SD:
        ck.ok(rule, mod, fn, '%s: neither lengths nor flat data are rebound (delegates to the constructor)' % q, 'nothing to relate')
        return 0

    def old_new(s, attr):
        """(index of the old part, [new parts], n parts) of the join stored by s."""
        parts = join_parts(cx.vexpand(s.value, s))
        if parts is None:
            # the join may be hidden behind a name with several definitions: look at the raw value too
            parts = join_parts(s.value)
            if parts is not None:
                parts = [cx.vexpand(p, s) for p in parts]
        if parts is None:
            return None
        olds = [i for i, p in enumerate(parts) if cx.is_me_attr(_unwrap_seq(p), attr)]
        if len(olds) != 1:
            return None
        return olds[0], [p for i, p in enumerate(parts) if i != olds[0]], len(parts)

    n = 0
    data_new = {}
    for s in SD:
        r = old_new(s, '_data')
        if r is None:
            ck.missing(rule, '%s L%s: the new flat data is not recognised as <old flat data> joined with <new values>: %s' % (
                q, getattr(s, 'lineno', '?'), u(s)[:120]))
            continue
        n += 1
        i_old, new, k = r
        data_new[s] = new
        ck.check(i_old == 0, rule + '.order', mod, s, q, 'position of the old flat data in the join that extends it',
                 'the appended values follow the existing flat data',
                 'the existing flat data is operand %d of %d of the join: the appended rows do not come AFTER the existing ones, '
                 'so rows, iteration and flat data list them in another order than the list-of-rows model' % (i_old + 1, k))
    for s in SL:
        r = old_new(s, 'lengths')
        if r is None:
            ck.missing(rule, '%s L%s: the new lengths are not recognised as <old lengths> joined with <lengths of the new rows>: %s' % (
                q, getattr(s, 'lineno', '?'), u(s)[:120]))
            continue
        n += 1
        i_old, new, k = r
        ck.check(i_old == 0, rule + '.order', mod, s, q, 'position of the old lengths in the join that extends them',
                 'the lengths of the appended rows follow the existing lengths',
                 'the existing lengths are operand %d of %d of the join while the values of the new rows are appended at the END of the flat '
                 'data: the row boundaries are cut at the wrong places for every row (lengths and flat data describe different orders)'
                 % (i_old + 1, k))
        if len(new) != 1:
            ck.missing(rule, '%s L%s: %d new parts are joined to the lengths' % (q, getattr(s, 'lineno', '?'), len(new)))
            continue
        # the flat-data extension the lengths belong to: on the same paths
        sd = [d for d in data_new if cfg.reachable(d, s) or cfg.reachable(s, d)]
        if len(sd) != 1 or len(data_new[sd[0]]) != 1:
            ck.missing(rule, '%s L%s: the extension of the flat data that belongs to this extension of the lengths is not unique' % (
                q, getattr(s, 'lineno', '?')))
            continue
        D = _unwrap_seq(data_new[sd[0]][0])
        rows = None         # the sequence of rows whose values are joined
        if isinstance(D, ast.Call) and call_name(D) in _JOIN_FUNCS and D.args and not isinstance(D.args[0], (ast.List, ast.Tuple)):
            rows = D.args[0]
        L0 = new[0]
        leaves = _defs_leaves(cx, L0, cx.at_of(L0) or s) if isinstance(L0, ast.Name) else [(L0, s)]
        if leaves is None:
            ck.missing(rule, '%s L%s: definitions of the new lengths not recognised' % (q, getattr(s, 'lineno', '?')))
            continue
        for L, at in leaves:
            _one_lengths_leaf(ck, rule, mod, q, cx, V, s, L, at, D, rows)
    return n


def _flat_row_arm(cx, V, at):
    """+1: `at` is reached only when the first element of the values is NOT
    iterable (the single-flat-row form); -1: only when it is; 0: no condition
    on the values beyond "is a non-empty sequence / is a ragged array"
    dominates; None: some dominating condition on the values is not
    recognised (or tests another binding of the name)."""
    from ..patterns import conjuncts, Cmp
    cfg = cx.fi.cfg
    res, unknown = 0, False

    def is_v(e):
        return isinstance(e, ast.Name) and e.id == V

    def first_of_v(e):
        return isinstance(e, ast.Subscript) and is_v(e.value) and const_value(e.slice, 'x') == 0 and \
            not isinstance(const_value(e.slice, 'x'), bool)

    def size_of_v(e):
        return (isinstance(e, ast.Call) and call_name(e) in ('len', 'np.size') and len(e.args) == 1 and is_v(e.args[0])) or \
            (isinstance(e, ast.Attribute) and e.attr == 'size' and is_v(e.value))
    for a in cfg.nodes:
        if not (isinstance(a, Assume) and cfg.dominates(a, at)):
            continue
        own = getattr(a, 'owner', None)
        t = cx.vexpand(a.test, own) if own is not None else a.test
        if not any(is_v(x) for x in ast.walk(t)):
            continue
        cj = conjuncts(t, bool(a.polarity))
        if cj is None:
            unknown = True
            continue
        same_binding = own is not None and cx.fi.rd.defs_at(own, V) == cx.fi.rd.defs_at(at, V)
        for c in cj:
            if isinstance(c, Cmp):
                if not any(is_v(x) for e in (c.lhs, c.rhs) for x in ast.walk(e)):
                    continue
                sides = (c.lhs, c.rhs)
                if any(size_of_v(x) for x in sides) and any(isinstance(x, ast.Constant) for x in sides):
                    continue            # non-emptiness
                if any(match('type(%s)' % V, x) is not None or match('%s.__class__' % V, x) is not None for x in sides):
                    continue            # ragged operand or not
                unknown = True
                continue
            e, pol = c[1], c[2]
            if not any(is_v(x) for x in ast.walk(e)):
                continue
            if size_of_v(e):
                continue
            if isinstance(e, ast.Call) and e.args and len(e.args) <= 2:
                fn_ = (call_name(e) or '').split('.')[-1]
                if fn_ in ('_is_iterable', 'iterable', 'isinstance', 'hasattr') and is_v(e.args[0]):
                    continue            # the values as a whole
                if fn_ in ('_is_iterable', 'iterable') and first_of_v(e.args[0]) and same_binding:
                    res = -1 if pol else 1
                    continue
                if fn_ == 'isscalar' and first_of_v(e.args[0]) and same_binding:
                    res = 1 if pol else -1
                    continue
            unknown = True
    if res:
        return res
    return None if unknown else 0


def _one_lengths_leaf(ck, rule, mod, q, cx, V, s, L, at, D, rows):
    con = 'lengths of the appended rows (%s)' % u(L)[:80]
    where = '%s L%s' % (q, getattr(at, 'lineno', '?'))
    X = _unwrap_seq(L)
    it = elt = None
    if isinstance(X, (ast.ListComp, ast.GeneratorExp)) and len(X.generators) == 1 and not X.generators[0].ifs and \
            isinstance(X.generators[0].target, ast.Name):
        it, elt, var = X.generators[0].iter, X.elt, X.generators[0].target.id
        if _is_len_of(elt, var) is None:
            pure = _pure_over(elt, {var})
            sizey = any(isinstance(x, ast.Attribute) and x.attr == 'size' for x in ast.walk(elt)) or \
                any(isinstance(x, ast.Call) and call_name(x) == 'np.size' for x in ast.walk(elt))
            if pure and not sizey:
                ck.bad(rule, mod, at, q, 'per-row entry of the new lengths', 'each appended row must contribute its length len(row); found `%s`: '
                       'lengths no longer add up to the size of the flat data / the row boundaries move' % u(elt)[:80])
            else:
                ck.missing(rule, '%s: per-row entry of the new lengths not recognised: %s' % (where, u(elt)[:80]))
            return
    elif isinstance(X, ast.Call) and call_name(X) == 'map' and len(X.args) == 2 and u(X.args[0]) == 'len':
        it = X.args[1]
    if it is not None:
        if rows is None:
            ck.missing(rule, '%s: the new lengths are taken row by row from `%s`, but the values joined to the flat data (%s) are not '
                       'recognised as the concatenation of a sequence of rows' % (where, u(it)[:60], u(D)[:80]))
        elif _same_seq_value(cx, it, rows):
            ck.ok(rule, mod, at, con, 'one length per row of the sequence whose concatenation extends the flat data (%s)' % u(rows)[:60])
        else:
            ck.missing(rule, '%s: the new lengths are taken row by row from `%s`, the flat data is extended by the concatenation of `%s`: '
                       'cannot show that both denote the same rows' % (where, u(it)[:60], u(rows)[:60]))
        return
    if isinstance(X, (ast.List, ast.Tuple)) and len(X.elts) == 1:
        of = _is_len_of(X.elts[0])
        if of is not None:
            arm = _flat_row_arm(cx, V, at)
            same = (rows is not None and _same_seq_value(cx, of, rows)) or _same_seq_value(cx, of, D) or \
                (isinstance(of, ast.Name) and of.id == V)
            if arm == 1:
                ck.ok(rule, mod, at, con, 'a single flat row (first element not iterable): one length, the number of values')
            elif arm == -1 or (arm == 0 and same):
                ck.bad(rule, mod, at, q, 'new lengths: ONE entry for all appended rows',
                       'the appended rows contribute the single length `%s` although this point is reached for a sequence of rows: '
                       'a.append([r1, r2]) adds one row r1+r2 (or a row whose length is the NUMBER of rows) where the list-of-rows model '
                       'adds two; lengths, starts and rows disagree with the model from then on' % u(X.elts[0])[:60])
            else:
                ck.missing(rule, '%s: a single new length `%s` under a condition on the values that is not recognised' % (where, u(X.elts[0])[:60]))
            return
    ck.missing(rule, '%s: lengths of the appended rows not recognised: %s' % (where, u(L)[:100]))


# ---------------------------------------------------------------------------
# D1b derived state: an attribute computed from a representation is a fourth representation

def _rep_deps(mod, cx, e, depth=2):
    """Representations of the receiver the value of `e` is computed from:
    mentions of self._data / self._array / self.lengths, of another member of
    the class (self.starts, len(self) ... -> what that member reads), and, in
    the constructor, of a parameter that a representation is built from."""
    deps = set()
    opaque = False
    for x in ast.walk(e):
        a = cx.attr_of_me(x)
        if a is None:
            continue
        if a in FLAG:
            deps.add(a)
        elif depth > 0:
            f = mod.functions.get(CLS + '.' + a)
            if f is not None:
                cx2 = Ctx(mod, f)
                for s in walk_local(f):
                    if isinstance(s, ast.expr):
                        b = cx2.attr_of_me(s)
                        if b in FLAG:
                            deps.add(b)
            else:
                opaque = True        # another stored attribute
    for x in ast.walk(e):
        if isinstance(x, ast.Call) and isinstance(x.func, ast.Name) and x.func.id in ('len', 'iter', 'list', 'sum', 'max', 'min') and \
                any(isinstance(y, ast.Name) and y.id == cx.me for y in x.args):
            deps |= set(FLAG)        # len(self), list(self): through the protocol methods
    if cx.fn.name == '__init__':
        names = {x.id for x in ast.walk(e) if isinstance(x, ast.Name)} & set(cx.params[1:])
        if names:
            for s in walk_local(cx.fn):
                if isinstance(s, ast.Assign) and len(s.targets) == 1 and cx.attr_of_me(s.targets[0]) in FLAG:
                    if names & {y.id for y in ast.walk(s.value) if isinstance(y, ast.Name)}:
                        deps.add(cx.attr_of_me(s.targets[0]))
    if deps & {'_data', '_array'}:
        deps |= {'_data', '_array'}  # two views of the same content
    return deps, opaque


_SHAPE_ATTRS = {'size', 'shape', 'dtype', 'ndim', 'nbytes', 'itemsize'}
_SHAPE_CALLS = {'len', 'np.shape', 'np.size', 'np.ndim'}


def _shape_only(cx, e):
    """Every mention of the flat data / the row view in `e` is under an
    observer of its extent or element type (x.size, x.shape, len(x), x.dtype):
    the value does not depend on the elements."""
    par = {}
    for n in ast.walk(e):
        for c in ast.iter_child_nodes(n):
            par[c] = n
    for n in ast.walk(e):
        if cx.attr_of_me(n) in ('_data', '_array'):
            p = par.get(n)
            if isinstance(p, ast.Attribute) and p.attr in _SHAPE_ATTRS:
                continue
            if isinstance(p, ast.Call) and call_name(p) in _SHAPE_CALLS and p.args and p.args[0] is n:
                continue
            return False
        elif cx.attr_of_me(n) is not None and cx.attr_of_me(n) not in FLAG:
            return False            # through another member: not looked into
    return True


def d1_derived_state(ck, mod):
    """The typestate of D1 knows three representations.  Any OTHER attribute of
    the receiver that a method of the class stores and another one reads is
    state as well; when its value is computed from a representation (a cached
    `starts`, a remembered size, a memoised flat copy) it is a fourth
    representation: every writer that changes the representation it was
    computed from must store it again (or reset it) before it returns, on
    every path - otherwise a later read returns the value for the old content.
    Decided by the same forward analysis as D1 with one flag per derived
    attribute."""
    rule = 'C06.D1.derived-state'
    methods = [(q, fn) for q, fn in mod.functions.items() if q.startswith(CLS + '.') and '<locals>' not in q]
    helper = set()
    while True:
        found = {q.split('.', 1)[1] for q, fn in methods if _is_private(q.split('.', 1)[1]) and Ctx(mod, fn, helper).has_events()}
        if found <= helper:
            break
        helper |= found
    ctxs = {q: Ctx(mod, fn, helper) for q, fn in methods}
    extra = {}
    for q, cx in ctxs.items():
        for n in cx.fi.cfg.nodes:
            if n in (ENTRY, EXIT) or isinstance(n, Assume):
                continue
            for kind, what, stmt, _ in cx.events(n):
                if isinstance(what, str) and what.startswith('other:'):
                    extra.setdefault(what[6:], []).append((q, n, kind))
    if not extra:
        cls = mod.classes.get(CLS)
        ck.ok(rule, mod, cls, '%s: no attribute besides _data/_array/lengths is stored by any method' % CLS,
              'the state of the object is exactly the three representations')
        return 0
    n_obl = 0
    for X, sites in sorted(extra.items()):
        readers = sorted(q for q, cx in ctxs.items() if any(
            isinstance(a, ast.Attribute) and isinstance(a.ctx, ast.Load) and cx.attr_of_me(a) == X for a in walk_local(cx.fn)))
        if not readers:
            ck.ok(rule, mod, sites[0][1], '%s.%s is stored (%s) and never read in the class' % (CLS, X, sites[0][0]), 'no observer depends on it')
            continue
        deps, opaque, resets, shape_only = set(), False, 0, True
        for q, s, kind in sites:
            cx = ctxs[q]
            if kind != 'rebind' or not isinstance(s, (ast.Assign, ast.AnnAssign)) or s.value is None:
                opaque = True           # stored into in place / deleted / setattr
                continue
            v = cx.vexpand(s.value, s)
            if isinstance(v, ast.Constant) or (isinstance(v, (ast.List, ast.Tuple, ast.Dict)) and not ast.dump(v).count('Name(')):
                resets += 1
                continue
            d, o = _rep_deps(mod, cx, v)
            deps |= d
            shape_only = shape_only and _shape_only(cx, v)
            opaque = opaque or (o and not d)
        if not deps:
            if opaque:
                ck.missing(rule, '%s.%s is stored by %s and read by %s: cannot tell whether its value is computed from a representation' % (
                    CLS, X, sorted({q for q, _, _ in sites})[0], readers[0]))
            else:
                ck.ok(rule, mod, sites[0][1], '%s.%s: value independent of the representations' % (CLS, X), 'configuration, not derived state')
            continue
        ctor = ctxs.get(CLS + '.__init__')
        ctor_sets = ctor is not None and any(q == CLS + '.__init__' and kind == 'rebind' for q, _, kind in sites)
        for q, cx in sorted(ctxs.items()):
            name = q.split('.', 1)[1]
            if name == '__init__' or _is_private(name):
                continue                # a private helper is judged at its call sites ('opaque' below)
            cfg = cx.fi.cfg
            body = [m for m in cfg.nodes if m not in (ENTRY, EXIT) and not isinstance(m, Assume)]
            if not any(e[1] in deps or e[0] == 'opaque' for m in body for e in cx.events(m)):
                continue
            # forward may-analysis: may X be stale?
            OUT = {m: None for m in cfg.nodes}
            OUT[ENTRY] = (False, None)
            work = [m for m in cfg.nodes if m != ENTRY]
            guard = 0
            unknown = None
            while work and guard < 20000:
                guard += 1
                m = work.pop(0)
                st = None
                for p in cfg.pred.get(m, []):
                    if OUT[p] is not None:
                        st = OUT[p] if st is None else ((st[0] or OUT[p][0]), st[1] or OUT[p][1])
                if st is None:
                    continue
                stale, src = st
                if m in body:
                    for kind, what, stmt, _x in cx.events(m):
                        if kind == 'reinit':
                            if ctor_sets:
                                stale, src = False, None
                            else:
                                stale, src = True, m
                        elif kind == 'recurse':
                            stale, src = False, None
                        elif kind == 'opaque':
                            unknown = m
                        elif what == 'other:' + X and kind == 'rebind':
                            stale, src = False, None
                        elif what == 'lengths' and 'lengths' in deps:
                            stale, src = True, m
                        elif what in ('_data', '_array') and what in deps:
                            if kind == 'store':
                                # an element store changes the content, not the extent / element type
                                if not shape_only:
                                    stale, src = True, m
                            elif what == '_array' and rebuild_kind(cx, m) == 'flat':
                                pass        # the row view re-derived from the flat data: same content
                            else:
                                stale, src = True, m
                new = (stale, src)
                if new != OUT[m]:
                    OUT[m] = new
                    for s2 in cfg.succ.get(m, []):
                        if s2 not in work:
                            work.append(s2)
            if unknown is not None:
                ck.missing(rule, '%s calls a private writer helper (L%s): the refresh of %s.%s is not followed into it' % (
                    q, getattr(unknown, 'lineno', '?'), CLS, X))
                continue
            for p in cfg.pred.get(EXIT, []):
                st = OUT.get(p)
                if st is None or isinstance(p, ast.Raise):
                    continue
                n_obl += 1
                where = 'return at L%s' % getattr(p, 'lineno', '?') if isinstance(p, ast.Return) else 'fall-through after L%s' % getattr(p, 'lineno', '?')
                if st[0]:
                    ck.bad(rule, mod, st[1] if st[1] is not None else p, q,
                           'derived attribute %s not refreshed after a write to %s ; exit: %s' % (
                               X, '/'.join(sorted(deps)), 'return' if isinstance(p, ast.Return) else 'fall-through'),
                           '%s.%s is computed from %s (stored by %s, read by %s).  On this path %s changes that representation (%s) and returns '
                           'without storing %s again or resetting it: the next %s observes the value for the OLD content while rows, flat data '
                           'and lengths show the new one' % (
                               CLS, X, '/'.join('self.' + d for d in sorted(deps)), ', '.join(sorted({s_[0] for s_ in sites})),
                               ', '.join(readers[:3]), q, u(st[1])[:80] if st[1] is not None else '?', X, readers[0]))
                else:
                    ck.ok(rule, mod, p if hasattr(p, 'lineno') else cx.fn, '%s: %s ; %s' % (q, X, where), 'derived attribute refreshed / not invalidated on this path')
    return n_obl


# ---------------------------------------------------------------------------
# D4b every slot is stored when the constructor returns

def slots_definite_at_exit(ck, rule, mod, qual, max_atoms=10):
    """For every truth assignment of the constructor's syntactic branch
    conditions (atoms treated as independent, as in
    extra.attrs_definite_in_constructor) every name in __slots__ has been
    stored when the constructor returns normally.  A slot left unset is an
    AttributeError in the first method that reads it (there is no class-level
    default with __slots__).  Stores inside loop bodies do not count (zero
    trips); a try body counts only when no handler can complete normally."""
    import itertools
    from .extra import _bool_atoms, _bool_eval
    fn = mod.functions.get(qual)
    cls = mod.parent.get(fn) if fn is not None else None
    if fn is None or not isinstance(cls, ast.ClassDef):
        ck.missing(rule, 'constructor %s in %s' % (qual, mod.rel))
        return 0
    slots = None
    for b in cls.body:
        if isinstance(b, ast.Assign) and any(isinstance(t, ast.Name) and t.id == '__slots__' for t in b.targets):
            if isinstance(b.value, (ast.Tuple, ast.List)) and all(isinstance(const_value(e), str) for e in b.value.elts):
                slots = [const_value(e) for e in b.value.elts]
            else:
                ck.missing(rule, '__slots__ of %s is not a display of string constants' % cls.name)
                return 0
    if slots is None:
        ck.ok(rule, mod, cls, '%s has no __slots__' % cls.name, 'attribute defaults may live in the class: not checked')
        return 1
    me = params(fn)[0] if params(fn) else 'self'
    atoms = []
    for s in walk_local(fn):
        if isinstance(s, ast.If):
            _bool_atoms(s.test, atoms)
    if len(atoms) > max_atoms:
        ck.missing(rule, '%s has %d branch conditions: truth-table enumeration not attempted' % (qual, len(atoms)))
        return 0

    def stores_of(stmt):
        out = set()
        tg = stmt.targets if isinstance(stmt, ast.Assign) else ([stmt.target] if isinstance(stmt, ast.AnnAssign) and stmt.value is not None else [])
        for t in tg:
            for e in (t.elts if isinstance(t, (ast.Tuple, ast.List)) else [t]):
                if isinstance(e, ast.Attribute) and isinstance(e.value, ast.Name) and e.value.id == me:
                    out.add(e.attr)
        if isinstance(stmt, ast.Expr) and isinstance(stmt.value, ast.Call):
            c = stmt.value
            if call_name(c) == 'setattr' and len(c.args) >= 2 and isinstance(c.args[0], ast.Name) and c.args[0].id == me and \
                    isinstance(const_value(c.args[1]), str):
                out.add(const_value(c.args[1]))
            # delegation to another constructor run / helper on the receiver: cannot see which slots it stores
            if isinstance(c.func, ast.Attribute) and isinstance(c.func.value, ast.Name) and c.func.value.id == me:
                out.add('*')
        return out

    def run(stmts, have, env):
        for s in stmts:
            if isinstance(s, ast.If):
                v = _bool_eval(s.test, env)
                if v is True:
                    if not run(s.body, have, env):
                        return False
                elif v is False:
                    if not run(s.orelse, have, env):
                        return False
                else:
                    h1, h2 = set(have), set(have)
                    a, b = run(s.body, h1, env), run(s.orelse, h2, env)
                    if not a and not b:
                        return False
                    keep = (h1 if a else h2) & (h2 if b else h1)
                    have.clear()
                    have.update(keep)
                continue
            if isinstance(s, ast.Try):
                hb = set(have)
                alive = run(s.body, hb, env)
                outs = [hb] if alive else []
                for h in s.handlers:
                    hh = set(have)
                    if run(h.body, hh, env):
                        outs.append(hh)
                if not outs:
                    return False
                keep = set.intersection(*outs)
                if s.orelse and alive:
                    run(s.orelse, keep, env)
                if s.finalbody:
                    run(s.finalbody, keep, env)
                have.clear()
                have.update(keep)
                continue
            if isinstance(s, ast.With):
                if not run(s.body, have, env):
                    return False
                continue
            if isinstance(s, (ast.For, ast.While)):
                run(s.body, set(have), env)
                continue
            if isinstance(s, (ast.Return, ast.Raise)):
                if isinstance(s, ast.Return):
                    exits.append((set(have), dict(env), s))
                return False
            have.update(stores_of(s))
        return True

    unset = {}
    for values in itertools.product((True, False), repeat=len(atoms)):
        env = dict(zip(atoms, values))
        exits = []
        have = set()
        if run(fn.body, have, env):
            exits.append((have, env, None))
        for h, e, at in exits:
            if '*' in h:
                continue
            for a in slots:
                if a not in h:
                    unset.setdefault(a, []).append(e)
    for a in slots:
        envs = unset.get(a)
        if not envs:
            ck.ok(rule, mod, fn, '%s: slot %s' % (qual, a), 'stored on every path on which the constructor returns (%d assignments of %d conditions)'
                  % (2 ** len(atoms), len(atoms)))
            continue
        rel = {x: envs[0][x] for x in atoms if all(e[x] == envs[0][x] for e in envs)}
        wit = ', '.join('%s is %s' % (x, v) for x, v in rel.items())
        ck.bad(rule, mod, fn, qual, '%s.%s may be left unset when the constructor returns' % (me, a),
               'no store to %s.%s on the path selected by {%s}: the object is handed out without this slot, and the first method that '
               'reads it (append, size, flatten, dtype, the operators) raises AttributeError - e.g. RaggedArray([]) followed by '
               'append(...), which the method documents as supported ("if the current RaggedArray is blank ...")' % (me, a, wit), wit)
    return len(slots)


def d4_reshape_rows(ck, mod):
    """Second half of G5.  A ragged array may consist of EMPTY rows only (the
    transitions of trajectories that never change state, a column slice beyond
    every row): flat data of size 0, lengths [0, 0, ...].  On the equal-length
    fast path the row view `self._data.reshape(-1, <row length>)` then asks
    numpy to infer the number of rows from 0 / 0 (ValueError "cannot reshape
    array of size 0 into shape (0)"): with a row length taken from the lengths
    the row count must be explicit (len(lengths)), never the -1 placeholder."""
    rule = 'C06.D4.constructor-definite-attributes.reshape-rows'
    from .C05 import _trailing_shape, _xc
    q = CLS + '.__init__'
    fn = mod.functions.get(q)
    if fn is None:
        ck.missing(rule, q)
        return
    cx = Ctx(mod, fn)
    DATA = '%s._data' % cx.me
    n = 0
    for s in walk_local(fn):
        if not (isinstance(s, ast.Assign) and len(s.targets) == 1 and cx.is_me_attr(s.targets[0], '_array')):
            continue
        v = _xc(cx.fi, s.value)
        if not (isinstance(v, ast.Call) and isinstance(v.func, ast.Attribute) and v.func.attr == 'reshape' and u(v.func.value) == DATA):
            continue
        args, _ = _trailing_shape(v, DATA)
        from_lengths = [a for a in args if any(isinstance(x, ast.Name) and x.id == 'lengths' and cx.param_only(x) for x in ast.walk(a))]
        if not from_lengths:
            continue            # the single-row view: its length is len(array) > 0 on that branch
        n += 1
        placeholder = [a for a in args if const_value(a, 'x') == -1]
        ck.check(not placeholder, rule, mod, s, q, 'row count of the rectangular row view (reshape of %s)' % DATA,
                 'the number of rows is explicit',
                 'the row view is %s.reshape(-1, <row length taken from lengths>): for a ragged array of empty rows only (size 0, lengths '
                 '[0, 0]) numpy cannot infer -1 from 0 / 0 and raises ValueError, e.g. disorder.transitions of trajectories without a '
                 'transition, a[:, 5:] beyond every row.  The row count must be len(lengths)' % DATA)
    if n == 0:
        ck.ok(rule, mod, fn, '%s: no rectangular fast path over caller-supplied lengths' % q, 'nothing to infer')


# ---------------------------------------------------------------------------
# D6 append: flat data keeps its element dimensions, every accepted input form reaches its handler

def d6_append(ck, mod):
    q = CLS + '.append'
    fn = mod.functions.get(q)
    if fn is None:
        ck.missing('C06.D6.append', '%s not found' % q)
        return
    cx = Ctx(mod, fn)
    fi = cx.fi
    ck.analysed(mod, fn)
    # (a) np.append without axis ravels both operands (numpy: "If axis is not given, both arr and values are flattened before use")
    rule = 'C06.D6.append.flat-axis'
    n = 0
    for s in walk_local(fn):
        if not (isinstance(s, ast.Assign) and len(s.targets) == 1 and cx.is_me_attr(s.targets[0], '_data')):
            continue
        E = cx.vexpand(s.value, s)
        for c in ast.walk(E):
            if isinstance(c, ast.Call) and call_name(c) == 'np.append' and c.args and _mentions_attr(cx, c.args[0], '_data'):
                n += 1
                has_axis = kwarg(c, 'axis') is not None or len(c.args) >= 3
                ax = kwarg(c, 'axis') if kwarg(c, 'axis') is not None else (c.args[2] if len(c.args) >= 3 else None)
                if has_axis and const_value(ax, 'x') != 0 or isinstance(const_value(ax, 'x'), bool):
                    # an axis is named, but not the ragged one
                    if isinstance(const_value(ax, 'x'), int) and not isinstance(const_value(ax, 'x'), bool):
                        ck.bad(rule + '.ragged', mod, s, q, 'axis along which the new rows are joined to the flat data',
                               'np.append(%s._data, <new rows>, axis=%s): the flat data is ragged along axis 0 only (its other axes are the '
                               'element dimensions); joining along another axis raises for one-dimensional data and, for multi-dimensional '
                               'elements, widens every element instead of adding rows - lengths and flat data no longer describe the same '
                               'elements' % (cx.me, u(ax)))
                    else:
                        ck.missing(rule, '%s: axis of np.append(%s._data, ...) is not a constant: %s' % (q, cx.me, u(ax)[:60]))
                    continue
                ck.check(has_axis, rule, mod, s, q, 'flat data extended by np.append(%s._data, <new rows>)' % cx.me,
                         'appended along the ragged axis (axis=%s): the element dimensions are kept' % (u(ax) if ax is not None else '?'),
                         'np.append without axis flattens both operands: for a ragged array with multi-dimensional elements (flat data of shape '
                         '(N, 3), rows of shape (n_i, 3)) the flat data becomes one-dimensional, partition_list then raises DataInvalid, and the '
                         'object is left with the new flat data and lengths but the old rows.  The new rows must be joined along axis 0 '
                         '(np.append(..., axis=0) / np.concatenate([self._data, new]))')
            elif isinstance(c, ast.Call) and call_name(c) in ('np.concatenate', 'np.vstack') and _mentions_attr(cx, c, '_data'):
                n += 1
                ax = kwarg(c, 'axis') if kwarg(c, 'axis') is not None else (c.args[1] if call_name(c) == 'np.concatenate' and len(c.args) >= 2 else None)
                if ax is not None and const_value(ax, 'x') != 0:
                    if isinstance(const_value(ax, 'x'), int) or const_value(ax, 'x') is None:
                        ck.bad(rule + '.ragged', mod, s, q, 'axis along which the new rows are joined to the flat data',
                               '%s(..., axis=%s) over the flat data: it is ragged along axis 0 only' % (call_name(c), u(ax)))
                    else:
                        ck.missing(rule, '%s: axis of the join of the flat data is not a constant: %s' % (q, u(ax)[:60]))
                    continue
                ck.ok(rule, mod, s, u(s)[:120], 'joined along the first axis')
    if n == 0:
        ck.missing(rule, '%s: extension of the flat data (self._data = np.append(self._data, ...)) not found' % q)
    # (b) a single row given as a flat sequence: the method distinguishes the form (an arm for `not _is_iterable(values[0])`),
    #     so the form must reach that distinction BEFORE anything that only works for a sequence of rows (np.concatenate(values)
    #     raises "zero-dimensional arrays cannot be concatenated" for a sequence of scalars)
    rule = 'C06.D6.append.row-forms'
    if len(cx.params) < 2:
        ck.missing(rule, '%s(self, values): parameters' % q)
        return
    V = cx.params[1]

    def probes(e):
        """element-iterability probe of the parameter: _is_iterable(V[0]) / np.ndim(V[0]) / isinstance(V[0], ...) / hasattr(V[0], ...)"""
        for c in ast.walk(e):
            if isinstance(c, ast.Call) and (call_name(c) or '').split('.')[-1] in ('_is_iterable', 'ndim', 'isinstance', 'hasattr', 'isscalar', 'iter') and c.args:
                a = c.args[0]
                if isinstance(a, ast.Subscript) and isinstance(a.value, ast.Name) and a.value.id == V and const_value(a.slice, 'x') == 0:
                    return True
        return False
    headers = [s for s in walk_local(fn) if isinstance(s, ast.If) and (probes(s.test) or probes(cx.vexpand(s.test, s)))]
    if not headers:
        ck.ok(rule, mod, fn, '%s: no arm for a flat row' % q, 'the method does not distinguish a flat row from a sequence of rows')
        return
    cfg = fi.cfg
    m = 0
    for c in walk_local(fn):
        if not (isinstance(c, ast.Call) and call_name(c) in ('np.concatenate', 'np.hstack', 'np.vstack') and c.args and
                isinstance(c.args[0], ast.Name) and c.args[0].id == V):
            continue
        st = fi.stmt(c)
        if st is None:
            continue
        m += 1
        doms = [h for h in headers if cfg.dominates(h, st)]
        ck.check(bool(doms), rule, mod, st, q, 'np.concatenate(<values>) of the rows to append',
                 'the flat-row form is told apart (%s) before the rows are concatenated' % (u(doms[0].test)[:80] if doms else ''),
                 'the method has an arm for a single row given as a flat sequence (`%s`, L%s), but np.concatenate(%s) runs first on every '
                 'path and raises ValueError for a sequence of scalars: a.append([6, 7]) fails on a non-empty array although the same '
                 'argument works for the constructor and for append on a blank array; the arm is dead code'
                 % (u(headers[0].test)[:60], getattr(headers[0], 'lineno', '?'), V))
    if m == 0:
        ck.ok(rule, mod, fn, '%s: rows are not joined by np.concatenate(%s)' % (q, V), 'nothing that needs a sequence of rows runs on the raw argument')


# ---------------------------------------------------------------------------
# D6 the element type of the flat data is chosen by numpy from the values

_JOIN_CALLS = {'np.append', 'np.concatenate', 'np.hstack', 'np.vstack', 'np.stack', 'np.row_stack'}
_CONV_CALLS = {'np.array', 'np.asarray', 'np.asanyarray', 'np.ascontiguousarray', 'np.atleast_1d', 'np.require',
               'np.copy', 'np.ravel', 'np.squeeze', 'list', 'tuple'}
_TRANSPARENT_METHODS = VIEW_METHODS | {'copy', 'flatten', 'tolist'}
_OBJECT_DTYPES = {'object', 'np.object_', 'np.object', "'O'", "'object'"}
_TYPE_NAMES = {'int', 'float', 'bool', 'complex', 'str', 'bytes'}


def data_path_casts(cx, e, at, depth=6):
    """The DATA PATH of expression `e` evaluated at statement `at`: the
    sub-expressions whose element values end up, value for value, in the value
    of e - operands of joins (np.append / np.concatenate), of conversions
    (np.array / np.asarray / .copy() / .reshape ...), elements of displays and
    comprehensions, arms of conditional expressions, and, for a local name,
    the value of every definition reaching the use (def-use, so naming or
    un-naming a sub-expression changes nothing).  Returns (casts, opaque):
    casts = [(call, dtype expression, statement)] for every conversion on the
    path that names an element type (`.astype(D)`, `dtype=D`, `.view(D)`);
    opaque = calls of non-numpy helpers on the path (the rule cannot see
    whether they convert)."""
    casts, opaque, seen = [], [], set()
    fi = cx.fi

    def go(e, at, d):
        if e is None or d < 0:
            return
        if isinstance(e, (ast.List, ast.Tuple, ast.Set)):
            for x in e.elts:
                go(x, at, d)
        elif isinstance(e, ast.Starred):
            go(e.value, at, d)
        elif isinstance(e, ast.IfExp):
            go(e.body, at, d)
            go(e.orelse, at, d)
        elif isinstance(e, (ast.ListComp, ast.GeneratorExp, ast.SetComp)):
            go(e.elt, at, d)
        elif isinstance(e, ast.Subscript):
            go(e.value, at, d)
        elif isinstance(e, ast.Attribute):
            if e.attr in VIEW_ATTRS:
                go(e.value, at, d)
        elif isinstance(e, ast.Call):
            f, cn = e.func, call_name(e)
            dt = kwarg(e, 'dtype')
            if isinstance(f, ast.Attribute) and f.attr == 'astype':
                D = e.args[0] if e.args else dt
                if D is not None:
                    casts.append((e, D, at))
                go(f.value, at, d)
            elif isinstance(f, ast.Attribute) and f.attr in _TRANSPARENT_METHODS and not (
                    isinstance(f.value, ast.Name) and f.value.id == 'np'):
                if f.attr == 'view' and (e.args or dt is not None):
                    casts.append((e, e.args[0] if e.args else dt, at))
                go(f.value, at, d)
            elif cn in _JOIN_CALLS or cn in _CONV_CALLS:
                D = dt
                if D is None and cn in ('np.array', 'np.asarray', 'np.asanyarray') and len(e.args) >= 2:
                    D = e.args[1]
                if D is not None:
                    casts.append((e, D, at))
                if cn == 'np.append':
                    go(arg_or_kw(e, 0, 'arr'), at, d)
                    go(arg_or_kw(e, 1, 'values'), at, d)
                elif e.args:
                    go(e.args[0], at, d)
            elif cn is not None and (cn.startswith('np.') or cn in ('len', 'range', 'sum', 'zip', 'enumerate', 'sorted')):
                pass            # another numpy/builtin function: a computed value, not a conversion of the operand
            else:
                opaque.append(e)
        elif isinstance(e, ast.Name) and e.id != cx.me and at is not None:
            for site in fi.rd.defs_at(at, e.id):
                if site in ('PARAM', 'UNBOUND') or (id(site), e.id) in seen:
                    continue
                seen.add((id(site), e.id))
                if isinstance(site, (ast.For, ast.AsyncFor)):
                    if e.id in target_names(site.target):
                        go(site.iter, site, d - 1)
                    continue
                v = fi.def_value(site, e.id) if isinstance(site, (ast.Assign, ast.AnnAssign)) else None
                if v is not None:
                    go(v, site, d - 1)
    go(e, at, depth)
    return casts, opaque


def dtype_kind(cx, D, at, depth=4):
    """What element type a conversion names: 'none' (dtype=None), 'object'
    (every value is representable), 'own' (the element type the receiver's
    data had: <receiver...>.dtype, also through a local), 'fixed' (a constant
    type), 'other' (computed: e.g. np.result_type(...) - may well be lossless)."""
    if isinstance(D, ast.Constant) and D.value is None:
        return 'none'
    if u(D) in _OBJECT_DTYPES:
        return 'object'
    if isinstance(D, ast.Constant) and isinstance(D.value, str):
        return 'fixed'
    if isinstance(D, ast.Name) and D.id in _TYPE_NAMES and D.id not in cx.params and not assigns_to(cx.fn, D.id):
        return 'fixed'
    if isinstance(D, ast.Attribute) and isinstance(D.value, ast.Name) and D.value.id == 'np':
        return 'fixed'
    if isinstance(D, ast.Call) and call_name(D) == 'np.dtype' and D.args:
        return dtype_kind(cx, D.args[0], at, depth)
    if isinstance(D, ast.Attribute) and D.attr == 'dtype':
        r = D.value
        while isinstance(r, (ast.Attribute, ast.Subscript)) or (isinstance(r, ast.Call) and isinstance(r.func, ast.Attribute)
                                                                and r.func.attr in _TRANSPARENT_METHODS):
            r = r.func.value if isinstance(r, ast.Call) else r.value
        if isinstance(r, ast.Name) and r.id == cx.me:
            return 'own'
        if at is not None and cx.roots(D.value, at):
            return 'own'
        return 'other'
    if isinstance(D, ast.Name) and depth > 0 and at is not None:
        defs = cx.fi.rd.defs_at(at, D.id)
        kinds = set()
        for site in defs:
            v = cx.fi.def_value(site, D.id) if isinstance(site, (ast.Assign, ast.AnnAssign)) else None
            kinds.add(dtype_kind(cx, v, site, depth - 1) if v is not None else 'other')
        if len(kinds) == 1:
            return kinds.pop()
    return 'other'


def d6_flat_dtype(ck, mod, writers):
    """List-of-rows model: a value written into the ragged array reads back
    as that value.  numpy chooses the element type of a join
    (np.append / np.concatenate) and of np.array(<rows>) by promotion, so that
    every operand is representable.  A conversion on the data path of a NEW
    flat array (`self._data = <E>`) to the element type the object had before,
    or to a constant type, silently truncates / wraps the incoming values
    (0.5 -> 0 in an int array, 300 -> 44 in int8, 2 -> True in a bool array);
    it shows only for operation histories that mix element types."""
    rule = 'C06.D6.flat-data.cast'
    n = 0
    for q, fn in writers:
        cx = Ctx(mod, fn)
        for s in cx.fi.cfg.nodes:
            if not (isinstance(s, ast.Assign) and len(s.targets) == 1 and cx.is_me_attr(s.targets[0], '_data')):
                continue
            n += 1
            casts, opaque = data_path_casts(cx, s.value, s)
            verdicts = []
            for c, D, at in casts:
                k = dtype_kind(cx, D, at)
                verdicts.append((k, c, D))
            lossy = [(k, c, D) for k, c, D in verdicts if k in ('own', 'fixed')]
            unknown = [(k, c, D) for k, c, D in verdicts if k == 'other']
            con = 'element type of the new flat data (%s.%s = <%s>)' % (cx.me, '_data', (call_name(s.value) or type(s.value).__name__)
                                                                         if isinstance(s.value, ast.Call) else type(s.value).__name__)
            if lossy:
                k, c, D = lossy[0]
                ck.bad(rule, mod, s, q, con + ' ; conversion %s' % u(c)[:100],
                       'the values on their way into the flat data are converted to %s (%s): numpy\'s promotion in the join / '
                       'np.array no longer decides the element type, so values that the old type cannot hold are truncated or wrapped '
                       '(float rows appended to an int array, wide ints to int8, 2 to a bool array) and every view (rows, flat data, '
                       'reductions, comparisons) disagrees with the list-of-rows model' % (
                           'the element type the array had before' if k == 'own' else 'a constant element type', u(D)))
            elif unknown:
                k, c, D = unknown[0]
                ck.missing(rule, '%s L%s: conversion to a computed element type on the way into the flat data (%s): cannot tell whether '
                           'it holds every incoming value' % (q, getattr(s, 'lineno', '?'), u(c)[:120]))
            elif opaque:
                ck.missing(rule, '%s L%s: the new flat data passes through %s, which the rule cannot see through' % (
                    q, getattr(s, 'lineno', '?'), u(opaque[0])[:100]))
            else:
                ck.ok(rule, mod, s, u(s)[:120], 'no conversion to a named element type on the data path: numpy promotes'
                      + (' (object: every value representable)' if any(k == 'object' for k, _, _ in verdicts) else ''))
    ck.floor(rule, n, 4, 'definitions of the flat data in the writers')


# ---------------------------------------------------------------------------
# D6 the value probe of __setitem__

def d6_value_probe(ck, mod):
    """`value[0]` is read to tell a nested value from a flat one.  The selection -
    and with it the value of a read-modify-write `a[mask] += 1`, `a[:, k:] *= 2` -
    may be EMPTY, so the probe must be preceded by a non-emptiness test."""
    rule = 'C06.D6.value-probe'
    q = CLS + '.__setitem__'
    fn = mod.functions.get(q)
    if fn is None or len(params(fn)) < 3:
        ck.missing(rule, '%s(self, index, value)' % q)
        return
    V = params(fn)[2]
    fi = finfo(mod, fn)
    from ..patterns import conjuncts, Cmp

    def nonempty(test, pol=True):
        for c in conjuncts(test, pol) or []:
            if isinstance(c, Cmp):
                al = c.as_less()
                txt = {u(c.lhs), u(c.rhs)}
                sizes = {'len(%s)' % V, '%s.size' % V, 'np.size(%s)' % V}
                if al is not None and u(al[2]) in sizes and ((const_value(al[0], 'x') == 0 and al[1]) or (const_value(al[0], 'x') == 1 and not al[1])):
                    return True
                if c.op in (ast.NotEq,) and txt & sizes and '0' in txt:
                    return True
            elif c[2] is True and u(c[1]) in ('len(%s)' % V, '%s.size' % V):
                return True
        return False
    n = 0
    for sub in walk_local(fn):
        if not (isinstance(sub, ast.Subscript) and isinstance(sub.ctx, ast.Load) and isinstance(sub.value, ast.Name) and sub.value.id == V
                and const_value(sub.slice, 'x') == 0 and not isinstance(const_value(sub.slice, 'x'), bool)):
            continue
        n += 1
        st = fi.stmt(sub)
        ok = False
        # short-circuit inside the same test: <non-empty> and probe(value[0])
        child, par = sub, mod.parent.get(sub)
        while par is not None and par is not st:
            if isinstance(par, ast.BoolOp) and isinstance(par.op, ast.And):
                idx = [i for i, x in enumerate(par.values) if x is child]
                if idx and any(nonempty(x) for x in par.values[:idx[0]]):
                    ok = True
            child, par = par, mod.parent.get(par)
        if not ok:
            for a in fi.cfg.nodes:
                if isinstance(a, Assume) and fi.cfg.dominates(a, st) and nonempty(a.test, a.polarity):
                    ok = True
        ck.check(ok, rule, mod, st, q, 'probe of the first element of the assigned value (<value>[0])',
                 'guarded by a non-emptiness test',
                 '`%s[0]` is evaluated under `_is_iterable(%s)` only; iterable does not mean non-empty: when the index selects nothing '
                 '(all-False mask, column slice beyond every row) the value of a read-modify-write such as a[mask] += 1 is the empty '
                 'selection and the probe raises IndexError where the list-of-rows model performs no write' % (V, V))
    if n == 0:
        ck.ok(rule, mod, fn, '%s: the assigned value is never probed by <value>[0]' % q, 'nothing to guard')


# ---------------------------------------------------------------------------
# D2b reflected operators are reachable from numpy left operands

def d2_reflected_dispatch(ck, mod):
    """`np.float64(2) * a`, `a.max() - a`, `ndarray + a`: numpy's own binary
    operators are tried first.  They return NotImplemented (so that python
    calls RaggedArray.__r*__) only for a right operand that opts out of
    numpy's dispatch - `__array_ufunc__ = None` in the class body (NEP 13), or,
    for classes without __array_ufunc__, an `__array_priority__` above
    ndarray's.  Otherwise numpy coerces the ragged array through its sequence
    protocol (__len__/__getitem__) and the reflected methods are dead."""
    rule = 'C06.D2.pure-operators.reflected-dispatch'
    cls = mod.classes.get(CLS)
    if cls is None:
        ck.missing(rule, 'class %s' % CLS)
        return
    names = {b.name for b in cls.body if isinstance(b, (ast.FunctionDef, ast.AsyncFunctionDef))}
    reflected = sorted(n for n in names if n.startswith('__r') and n.endswith('__') and n not in ('__repr__', '__reduce__', '__reduce_ex__', '__reversed__', '__round__'))
    if not reflected:
        ck.ok(rule, mod, cls, '%s defines no reflected operator' % CLS, 'nothing to dispatch to')
        return
    optout = None
    for b in cls.body:
        tg = b.targets if isinstance(b, ast.Assign) else ([b.target] if isinstance(b, ast.AnnAssign) and b.value is not None else [])
        for t in tg:
            if isinstance(t, ast.Name) and t.id == '__array_ufunc__' and isinstance(b.value, ast.Constant) and b.value.value is None:
                optout = b
            if isinstance(t, ast.Name) and t.id == '__array_priority__' and isinstance(const_value(b.value), (int, float)) and \
                    not isinstance(const_value(b.value), bool) and const_value(b.value) > 0:
                optout = b
    if '__array_ufunc__' in names:
        ck.missing(rule, '%s implements __array_ufunc__: deferral of numpy operands not analysed' % CLS)
        return
    ck.check(optout is not None, rule, mod, optout if optout is not None else cls, CLS,
             'numpy left operands reach the reflected operators (%d defined)' % len(reflected),
             'the class opts out of numpy\'s operator dispatch (%s)' % (u(optout) if optout is not None else ''),
             'the class defines %s but neither `__array_ufunc__ = None` nor a positive `__array_priority__`: for a numpy scalar or array as LEFT '
             'operand (a.max() - a, np.float64(2) * a, np.int64(4) == a) numpy does not return NotImplemented but converts the ragged array '
             'through __len__/__getitem__: ValueError for ragged rows, a bare object ndarray (row structure lost) for equal-length rows; the '
             'reflected methods are never called' % ', '.join(reflected[:4]))


# ---------------------------------------------------------------------------
# Case analysis of the writers: truth-table execution over SEMANTIC atoms
#
# Every writer starts with a case distinction on the FORM of its input (is the argument a ragged array, a sequence of
# rows, a flat row, empty; are lengths given) and treats each form by another constructor of the three representations.
# The typestate (D1) shows that the representations are re-synchronised, not that each form reaches the treatment written
# for it.  The rules below execute the method symbolically for every assignment of its branch conditions.  The conditions
# are read as predicates - NONEMPTY(x) for `0 < len(x)`, `len(x) != 0`, `x.size`, ...; ISNONE(x); ITERABLE(x);
# RAGGED(x) for `type(x) is type(self)`; `len(x) < 0` is false and `0 <= len(x)` true for every x - so that a rewritten
# test denotes the same atom and a test that no input can satisfy selects no path.  An atom over a name is forgotten when
# the name is rebound; atoms over the receiver are forgotten at every representation event.  Try statements fork into
# "body completes" / "a handler runs", loops into zero / one trip (their entries are flagged `maybe`).

class _Entry:
    __slots__ = ('kind', 'node', 'key', 'val', 'env', 'expr', 'generic', 'maybe')

    def __init__(self, kind, node, key=None, val=None, env=None, expr=None, generic=False, maybe=False):
        self.kind, self.node, self.key, self.val, self.env, self.expr, self.generic, self.maybe = \
            kind, node, key, val, env, expr, generic, maybe


class _Path:
    __slots__ = ('env', 'trace', 'outcome', 'opaque')

    def __init__(self, env, trace, outcome, opaque):
        self.env, self.trace, self.outcome, self.opaque = env, trace, outcome, opaque

    def stmts(self):
        return [e for e in self.trace if e.kind == 'stmt']

    def atoms(self):
        return [e for e in self.trace if e.kind == 'atom']

    def generic_over(self, names):
        """Conditions evaluated on this path that the predicate reading does not understand and that mention one of
        the names: a verdict that hinges on an undetermined predicate over them is 'not recognised', never a violation."""
        return [e for e in self.trace if e.kind == 'atom' and e.generic and (set(names) & _names_in(e.expr))]


def _names_in(e):
    return {n.id for n in ast.walk(e) if isinstance(n, ast.Name)} if isinstance(e, ast.AST) else set()


def _num(e):
    v = const_value(e, None) if isinstance(e, (ast.Constant, ast.UnaryOp)) else None
    return v if isinstance(v, (int, float)) and not isinstance(v, bool) else None


def _size_of(e):
    """X when `e` is the number of elements (first-axis extent) of X."""
    if isinstance(e, ast.Call) and call_name(e) in ('len', 'np.size') and len(e.args) == 1 and not e.keywords:
        return e.args[0]
    if isinstance(e, ast.Attribute) and e.attr == 'size':
        return e.value
    b = match('_X.shape[0]', e)
    if b is not None:
        return b['_X']
    return None


def _ragged_of(cx, e):
    """(name, polarity) when `e` holds exactly when the local `name` is (is not) a ragged array of the receiver's class."""
    for n in ast.walk(e):
        if isinstance(n, ast.Name) and n.id != cx.me and n.id not in ('type', 'isinstance', CLS, 'ra'):
            v = _ragged_type_test(cx, e, n.id)
            if v:
                return n.id, v > 0
    return None


def _atom(cx, e):
    """Predicate reading of an atomic condition: ('const', bool) or (key, polarity, generic)."""
    if isinstance(e, ast.Constant):
        return ('const', bool(e.value))
    if isinstance(e, ast.Compare) and len(e.ops) == 1:
        op, a, b = type(e.ops[0]), e.left, e.comparators[0]
        if op is ast.Gt:
            op, a, b = ast.Lt, b, a
        elif op is ast.GtE:
            op, a, b = ast.LtE, b, a
        rg = _ragged_of(cx, e)
        if rg is not None:
            return (('ragged', rg[0]), rg[1], False)
        if op in (ast.Is, ast.IsNot, ast.Eq, ast.NotEq):
            for x, y in ((a, b), (b, a)):
                if isinstance(y, ast.Constant) and y.value is None:
                    return (('isnone', u(x)), op in (ast.Is, ast.Eq), False)
        sa, sb, ka, kb = _size_of(a), _size_of(b), _num(a), _num(b)
        if sb is not None and ka is not None:          # k OP size
            key = ('nonempty', u(sb))
            if op is ast.Lt:
                if ka < 0:
                    return ('const', True)
                if ka == 0:
                    return (key, True, False)
            elif op is ast.LtE:
                if ka <= 0:
                    return ('const', True)
                if ka == 1:
                    return (key, True, False)
        if sa is not None and kb is not None:          # size OP k
            key = ('nonempty', u(sa))
            if op is ast.Lt:
                if kb <= 0:
                    return ('const', False)
                if kb == 1:
                    return (key, False, False)
            elif op is ast.LtE:
                if kb < 0:
                    return ('const', False)
                if kb == 0:
                    return (key, False, False)
        for s_, k_ in ((sa, kb), (sb, ka)):
            if s_ is not None and k_ is not None and op in (ast.Eq, ast.NotEq):
                if k_ < 0:
                    return ('const', op is ast.NotEq)
                if k_ == 0:
                    return (('nonempty', u(s_)), op is ast.NotEq, False)
        thr = (sa is not None and kb is not None) or (sb is not None and ka is not None)    # a size against a threshold
        if op in (ast.Eq, ast.NotEq, ast.Is, ast.IsNot):
            return (('cmp', '==' if op in (ast.Eq, ast.NotEq) else 'is') + tuple(sorted((u(a), u(b)))), op in (ast.Eq, ast.Is), not thr)
        if op is ast.Lt:
            return (('cmp', '<', u(a), u(b)), True, not thr)
        if op is ast.LtE:
            return (('cmp', '<', u(b), u(a)), False, not thr)   # for numbers: a <= b  ==  not (b < a)
        return (('expr', u(e)), True, True)
    if isinstance(e, ast.Call):
        cn = (call_name(e) or '').split('.')[-1]
        if cn in ('_is_iterable', 'iterable') and len(e.args) == 1 and not e.keywords:
            return (('iter', u(e.args[0])), True, False)
        if cn == 'isscalar' and len(e.args) == 1 and not e.keywords:
            return (('iter', u(e.args[0])), False, True)        # not exactly the complement (strings): a generic reading
        rg = _ragged_of(cx, e)
        if rg is not None:
            return (('ragged', rg[0]), rg[1], False)
        b = match('(_L == _L[0]).all()', e)
        if b is not None:
            return (('alleq', u(b['_L'])), True, False)
        b = match('(_L != _L[0]).any()', e) or match('(_L - _L[0]).any()', e)
        if b is not None:
            return (('alleq', u(b['_L'])), False, False)
    sz = _size_of(e)
    if sz is not None:
        return (('nonempty', u(sz)), True, False)               # a size as a truth value
    return (('expr', u(e)), True, True)


class Cases:
    """All paths of one method as (final env, trace, outcome)."""
    LIMIT = 6000
    _cache = {}

    @classmethod
    def of(cls, cx):
        k = id(cx.fn)
        hit = cls._cache.get(k)
        if hit is None or hit[0] is not cx.fn:
            hit = (cx.fn, cls(cx))
            cls._cache[k] = hit
        return hit[1]

    def __init__(self, cx):
        self.cx = cx
        self.paths = []
        self.overflow = False
        self.todo = [[]]
        while self.todo:
            if len(self.paths) >= self.LIMIT:
                self.overflow = True
                break
            self._run(self.todo.pop())

    # one run under a prefix of decisions
    def _run(self, prefix):
        self.prefix, self.k, self.made = prefix, 0, []
        self.env, self.names, self.trace, self.opaque = {}, {}, [], False
        out = self._block(self.cx.fn.body, False)
        self.paths.append(_Path(dict(self.env), self.trace, out or 'fall', self.opaque))

    def _choose(self, key):
        if self.k < len(self.prefix):
            v = self.prefix[self.k]
        else:
            v = True
            self.todo.append(self.made + [False])
        self.k += 1
        self.made.append(v)
        return v

    def _decide(self, key, names, expr, stmt, generic, maybe):
        snap = dict(self.env)
        if key in self.env:
            v = self.env[key]
        else:
            v = self._choose(key)
            self.env[key] = v
            self.names[key] = names
        self.trace.append(_Entry('atom', stmt, key, v, snap, expr, generic, maybe))
        return v

    def _forget(self, name):
        for k in [k for k, ns in self.names.items() if name in ns and k in self.env]:
            del self.env[k]

    def _test(self, e, stmt, maybe):
        if isinstance(e, ast.BoolOp):
            is_and = isinstance(e.op, ast.And)
            for v in e.values:
                r = self._test(v, stmt, maybe)
                if r != is_and:
                    return r
            return is_and
        if isinstance(e, ast.UnaryOp) and isinstance(e.op, ast.Not):
            return not self._test(e.operand, stmt, maybe)
        if isinstance(e, ast.IfExp):
            return self._test(e.body if self._test(e.test, stmt, maybe) else e.orelse, stmt, maybe)
        a = _atom(self.cx, e)
        if a[0] == 'const':
            return a[1]
        key, pol, generic = a
        return self._decide(key, _names_in(e), e, stmt, generic, maybe) == pol

    def _ifexps(self, e, s, maybe):
        """Conditional expressions in a statement are case distinctions too: decide them (outermost first)."""
        if isinstance(e, ast.IfExp):
            t = self._test(self.cx.vexpand(e.test, s), s, maybe)
            self.trace.append(_Entry('ifexp', e, val=t, maybe=maybe))
            self._ifexps(e.body if t else e.orelse, s, maybe)
            return
        if isinstance(e, (ast.ListComp, ast.SetComp, ast.DictComp, ast.GeneratorExp, ast.Lambda)) or not isinstance(e, ast.AST):
            return
        for c in ast.iter_child_nodes(e):
            self._ifexps(c, s, maybe)

    def _simple(self, s, maybe):
        cx = self.cx
        if not isinstance(s, (ast.FunctionDef, ast.AsyncFunctionDef, ast.ClassDef)):
            for e in header_exprs(s):
                self._ifexps(e, s, maybe)
        self.trace.append(_Entry('stmt', s, env=dict(self.env), maybe=maybe))
        bound = set()
        tg = s.targets if isinstance(s, (ast.Assign, ast.Delete)) else ([s.target] if isinstance(s, (ast.AugAssign, ast.AnnAssign, ast.For)) else [])
        for t in tg:
            for x in ast.walk(t):
                if isinstance(x, ast.Name) and isinstance(x.ctx, (ast.Store, ast.Del)):
                    bound.add(x.id)
            r = t
            while isinstance(r, (ast.Subscript, ast.Attribute, ast.Starred)):
                r = r.value
            if isinstance(r, ast.Name) and r is not t:
                bound.add(r.id)            # stored into in place
        if isinstance(s, (ast.With, ast.AsyncWith)):
            for it in s.items:
                if it.optional_vars is not None:
                    bound |= {x.id for x in ast.walk(it.optional_vars) if isinstance(x, ast.Name)}
        for e in header_exprs(s) if not isinstance(s, (ast.FunctionDef, ast.AsyncFunctionDef, ast.ClassDef)) else []:
            for c in walk_expr(e):
                if isinstance(c, ast.Call) and isinstance(c.func, ast.Attribute) and c.func.attr in MUT_METHODS and \
                        isinstance(c.func.value, ast.Name):
                    bound.add(c.func.value.id)
                if isinstance(c, ast.NamedExpr) and isinstance(c.target, ast.Name):
                    bound.add(c.target.id)
        try:
            if cx.events(s):
                bound.add(cx.me)
        except Exception:
            bound.add(cx.me)
        for n in bound:
            self._forget(n)

    def _block(self, stmts, maybe):
        cx = self.cx
        for s in stmts:
            if isinstance(s, ast.If):
                t = self._test(cx.vexpand(s.test, s), s, maybe)
                r = self._block(s.body if t else s.orelse, maybe)
                if r:
                    return r
            elif isinstance(s, ast.Try):
                if not self._choose(('exc', id(s))):
                    r = self._block(s.body, maybe) or self._block(s.orelse, maybe)
                else:
                    self._block(s.body, True)
                    r = 'raise'
                    for i, h in enumerate(s.handlers):
                        if i == len(s.handlers) - 1 or self._choose(('handler', id(h))):
                            r = self._block(h.body, maybe)
                            break
                r = self._block(s.finalbody, maybe) or r
                if r:
                    return r
            elif isinstance(s, (ast.With, ast.AsyncWith)):
                self._simple(s, maybe)
                r = self._block(s.body, maybe)
                if r:
                    return r
            elif isinstance(s, (ast.For, ast.AsyncFor, ast.While)):
                self._simple(s, maybe)
                if self._choose(('loop', id(s))):
                    r = self._block(s.body, True)
                    if r in ('return', 'raise'):
                        self.opaque = True      # an exit from inside a loop: not followed
                    for x in ast.walk(s):
                        if isinstance(x, ast.Name) and isinstance(x.ctx, ast.Store):
                            self._forget(x.id)
                r = self._block(s.orelse, maybe)
                if r:
                    return r
            elif isinstance(s, ast.Return):
                self._simple(s, maybe)
                return 'return'
            elif isinstance(s, ast.Raise):
                self._simple(s, maybe)
                return 'raise'
            elif isinstance(s, (ast.Break, ast.Continue)):
                return 'loop-exit'
            elif isinstance(s, (ast.FunctionDef, ast.AsyncFunctionDef, ast.ClassDef)):
                continue
            elif type(s).__name__ == 'Match':
                self.opaque = True
                self._simple(s, maybe)
            else:
                self._simple(s, maybe)
        return None


def _tri(path, val, names):
    """Verdict for a requirement on a predicate whose value on the path is `val` (True / False / None = undetermined)
    and which was NOT met: 'near' - unless the path tested conditions over the same operands that the predicate
    reading does not understand (the requirement may be met in a spelling the rule cannot read) -> 'far'."""
    return 'far' if (path.opaque or path.generic_over(names)) else 'near'


def _me_store(cx, s, attr):
    return isinstance(s, ast.Assign) and len(s.targets) == 1 and cx.is_me_attr(s.targets[0], attr)


class _Once:
    """Report each (rule, construct) once although many paths show it: a violation when some path decides it ('near'),
    'not recognised' when every path that shows it also tests conditions the predicate reading does not understand."""

    def __init__(self, ck, mod, q):
        self.ck, self.mod, self.q, self.seen, self.n_bad, self.pending = ck, mod, q, set(), 0, {}

    def missing(self, rule, what):
        if (rule, what) not in self.seen:
            self.seen.add((rule, what))
            self.ck.missing(rule, what)

    def decide(self, verdict, rule, node, construct, detail):
        cur = self.pending.get((rule, construct))
        if cur is None or (cur[0] != 'near' and verdict == 'near'):
            self.pending[(rule, construct)] = (verdict, node, detail)

    def bad(self, rule, node, construct, detail):
        self.decide('near', rule, node, construct, detail)

    def flush(self):
        for (rule, construct), (verdict, node, detail) in self.pending.items():
            if verdict == 'near':
                self.n_bad += 1
                self.ck.bad(rule, self.mod, node, self.q, construct, detail)
            else:
                self.ck.missing(rule, '%s: %s - not decided: the path also tests conditions over the same operands that the predicate '
                                'reading does not understand (%s)' % (self.q, construct, detail[:120]))
        self.pending = {}


# -- the constructor

def _ctor_data_kind(cx, v, A):
    x = _unwrap_seq(v)
    if isinstance(x, ast.Name) and x.id == A and cx.param_only(x):
        return 'flat'
    if isinstance(v, ast.Call) and call_name(v) in _JOIN_FUNCS | {'np.stack'} and len(v.args) >= 1 and isinstance(v.args[0], ast.Name) \
            and v.args[0].id == A and cx.param_only(v.args[0]):
        return 'rows'
    if isinstance(x, (ast.ListComp, ast.GeneratorExp)) and len(x.generators) >= 1 and isinstance(x.generators[0].iter, ast.Name) and \
            x.generators[0].iter.id == A:
        return 'rows'           # the elements of the rows, row after row (object fallback of the join)
    return None


def _ctor_lengths_kind(cx, v, A, L):
    x = _unwrap_seq(v)
    if isinstance(x, ast.Name) and x.id == L and cx.param_only(x):
        return 'given'
    if isinstance(x, (ast.List, ast.Tuple)):
        if not x.elts:
            return 'none'
        if len(x.elts) == 1:
            of = _is_len_of(x.elts[0])
            if isinstance(of, ast.Name) and of.id == A:
                return 'single'
        return None
    if isinstance(x, (ast.ListComp, ast.GeneratorExp)) and len(x.generators) == 1 and not x.generators[0].ifs and \
            isinstance(x.generators[0].target, ast.Name) and isinstance(x.generators[0].iter, ast.Name) and x.generators[0].iter.id == A:
        return 'per-row' if _is_len_of(x.elt, x.generators[0].target.id) is not None else None
    if isinstance(x, ast.Call) and call_name(x) == 'map' and len(x.args) == 2 and u(x.args[0]) == 'len' and isinstance(x.args[1], ast.Name) \
            and x.args[1].id == A:
        return 'per-row'
    return None


def _ctor_rows_kind(cx, s, L):
    E = cx.vexpand(s.value, s)
    if isinstance(E, (ast.List, ast.Tuple)) and not E.elts:
        return 'empty'
    if isinstance(E, ast.Call) and call_name(E) in ('np.array', 'np.asarray') and E.args and isinstance(E.args[0], ast.Call) \
            and (call_name(E.args[0]) or '').split('.')[-1] == 'partition_list':
        a = E.args[0]
        flat, lens = arg_or_kw(a, 0, 'list_to_partition'), arg_or_kw(a, 1, 'partition_lengths')
        if flat is None or lens is None or not cx.is_me_attr(flat, '_data'):
            return None
        if isinstance(lens, ast.Name) and lens.id == L and cx.param_only(lens):
            return 'cut-given'
        if cx.is_me_attr(lens, 'lengths') or _is_current_lengths(cx, lens, s):
            return 'cut-own'
        return None
    if isinstance(E, ast.Call) and isinstance(E.func, ast.Attribute) and E.func.attr == 'reshape' and cx.is_me_attr(E.func.value, '_data'):
        uses_L = any(isinstance(n, ast.Name) and n.id == L for a in list(E.args) + [k.value for k in E.keywords] for n in ast.walk(a))
        return 'rect' if uses_L else 'one-row'
    return None


_CTOR_CASES = (
    # name, (ISNONE(lengths), NONEMPTY(array), ITERABLE(array[0])), flat data, lengths, accepted row views
    ('lengths given', (False, None, None), 'flat', 'given', ('rect', 'cut-given')),
    ('lengths inferred, empty input', (True, False, None), 'flat', 'none', ('empty',)),
    ('lengths inferred, sequence of rows', (True, True, True), 'rows', 'per-row', ('cut-own',)),
    ('lengths inferred, one flat row', (True, True, False), 'flat', 'single', ('one-row', 'cut-own')),
)
_KIND_TEXT = {'flat': 'the argument taken as the flat data', 'rows': 'the rows of the argument joined end to end',
              'given': 'the lengths argument', 'none': 'no rows', 'per-row': 'one length per row of the argument',
              'single': 'one row holding the whole argument', 'rect': 'rectangular view (n_rows x row length)',
              'cut-given': 'flat data cut by the lengths argument', 'cut-own': 'flat data cut by self.lengths',
              'one-row': 'one-row view of the flat data', 'empty': 'no rows', None: 'not recognised'}


def d1_constructor_cases(ck, mod):
    """The constructor is the re-synchronisation primitive of every writer (`self.__init__(self._array)`, append on a
    blank array, every operator result, every slice).  It distinguishes four input forms and must build the three
    representations by the SAME reading of the input in each: for a sequence of rows the flat data is their join, the
    lengths are their lengths and the rows cut the flat data by those lengths; with lengths given the argument IS the
    flat data; and so on.  A test of the case distinction that is inverted, widened or unsatisfiable sends a form to the
    treatment of another one (flat data joined but lengths 'given', a flat row read as rows ...): the representations
    then disagree from the first observation on."""
    rule = 'C06.D1.constructor-cases'
    q = CLS + '.__init__'
    fn = mod.functions.get(q)
    if fn is None or len(params(fn)) < 3:
        ck.missing(rule, '%s(self, array, lengths, ...) not found' % q)
        return 0
    cx = Ctx(mod, fn)
    A, L = cx.params[1], cx.params[2]
    cs = Cases.of(cx)
    if cs.overflow:
        ck.missing(rule, '%s: more than %d paths' % (q, Cases.LIMIT))
        return 0
    once = _Once(ck, mod, q)
    kLN, kNE, kIT, kEQ = ('isnone', L), ('nonempty', A), ('iter', '%s[0]' % A), ('alleq', L)
    # a rebound parameter is re-read by later tests as a new value: the paths are then an over-approximation
    rebound = bool(assigns_to(fn, A) or assigns_to(fn, L))

    def tri(p, names):
        return 'far' if rebound else _tri(p, None, names)
    seen_ok = {}
    for p in cs.paths:
        if p.outcome == 'raise':
            continue
        last = {}
        for e in p.stmts():
            for attr in FLAG:
                if _me_store(cx, e.node, attr):
                    last[attr] = e
        # the first element is read only from a non-empty argument
        for a in p.atoms():
            if any(isinstance(x, ast.Subscript) and isinstance(x.value, ast.Name) and x.value.id == A and const_value(x.slice, 'x') == 0
                   and not isinstance(const_value(x.slice, 'x'), bool) for x in ast.walk(a.expr)):
                ne = a.env.get(kNE)
                if ne is not True:
                    once.decide(tri(p, (A,)), rule + '.probe', a.node, 'probe of the first element of the argument (<array>[0])',
                                'the constructor reads `%s[0]` on a path on which the argument is %s: RaggedArray([]) - the blank array that '
                                'append() documents as its starting point - raises IndexError' % (A, 'empty' if ne is False else 'not known to be non-empty'))
        if p.opaque:
            once.missing(rule, '%s: a path through a construct the case analysis does not follow (match / exit inside a loop)' % q)
            continue
        kinds = {}

        def val(entry):
            # the stored value on THIS path (a name with one definition per arm is followed along the path), temporaries expanded
            i = p.trace.index(entry)
            leaf, j = _resolve(p, i, entry.node.value, keep=(A, L))
            if leaf is None:
                return ast.Constant(value=Ellipsis)
            return cx.vexpand(leaf, p.trace[j].node)
        if '_data' in last:
            kinds['_data'] = _ctor_data_kind(cx, val(last['_data']), A)
        if 'lengths' in last:
            kinds['lengths'] = _ctor_lengths_kind(cx, val(last['lengths']), A, L)
        if '_array' in last:
            kinds['_array'] = _ctor_rows_kind(cx, last['_array'].node, L)
        if len(last) < 3:
            continue            # a slot left unset on this path: D4.constructor-definite-attributes.exit
        env = (p.env.get(kLN), p.env.get(kNE), p.env.get(kIT))
        for name, want, kd, kl, krows in _CTOR_CASES:
            if any(w is not None and v is not None and w != v for w, v in zip(want, env)):
                continue        # the path is not taken for this form
            # the path is taken for (some input of) this form: undetermined predicates mean it is taken for both values
            got = (kinds.get('_data'), kinds.get('lengths'), kinds.get('_array'))
            if None in got:
                which = [a for a, g in zip(('flat data', 'lengths', 'row view'), got) if g is None]
                once.missing(rule, '%s, case "%s": definition of the %s not recognised (%s)' % (
                    q, name, which[0], u(last[{'flat data': '_data', 'lengths': 'lengths', 'row view': '_array'}[which[0]]].node)[:100]))
                continue
            okc = got[0] == kd and got[1] == kl and got[2] in krows
            if okc and got[2] == 'rect' and p.env.get(kEQ) is not True:
                once.decide(tri(p, (L,)), rule, last['_array'].node,
                            'constructor case "%s": rectangular row view without equal lengths' % name,
                            'the rows x row-length view of the flat data is taken on a path on which the lengths are %s: rows of '
                            'different lengths are cut at multiples of the first length' % (
                                'NOT all equal' if p.env.get(kEQ) is False else 'not known to be all equal'))
                continue
            if okc:
                seen_ok.setdefault(name, last['_array'].node)
                continue
            undet = [n for n, w, v in zip(('ISNONE(%s)' % L, 'NONEMPTY(%s)' % A, 'ITERABLE(%s[0])' % A), want, env) if w is not None and v is None]
            bad_attr = '_data' if got[0] != kd else ('lengths' if got[1] != kl else '_array')
            once.decide(tri(p, (A, L)), rule, last[bad_attr].node,
                        'constructor case "%s": %s' % (name, {'_data': 'flat data', 'lengths': 'lengths', '_array': 'row view'}[bad_attr]),
                        'for this input form the constructor must build flat data = %s, lengths = %s, rows = %s; a path taken for it%s builds '
                        'flat data = %s, lengths = %s, rows = %s.  The representations are built by different readings of the same input '
                        '(or by the reading for another form): rows, flat data, lengths and every re-initialisation through the '
                        'constructor (slices, operator results, `a[i] = row`, append on a blank array) disagree with the list-of-rows model'
                        % (_KIND_TEXT[kd], _KIND_TEXT[kl], ' / '.join(_KIND_TEXT[k] for k in krows),
                           (' (taken whatever %s is)' % ', '.join(undet)) if undet else '',
                           _KIND_TEXT[got[0]], _KIND_TEXT[got[1]], _KIND_TEXT[got[2]]))
    once.flush()
    n = 0
    for name, _w, kd, kl, krows in _CTOR_CASES:
        if name in seen_ok:
            n += 1
            ck.ok(rule, mod, seen_ok[name], '%s, case "%s"' % (q, name), 'flat data = %s, lengths = %s, rows = %s on every path taken for it' % (
                _KIND_TEXT[kd], _KIND_TEXT[kl], ' / '.join(_KIND_TEXT[k] for k in krows)))
    ck.floor(rule, n + once.n_bad, 4, 'input forms of the constructor with a recognised treatment')
    return n



# -- __setitem__ / append

def _resolve(path, idx, e, keep=()):
    """The expression whose value `e` has at trace position idx on this path: a local name is followed to its last
    assignment on the path (never past a name in `keep`), a conditional expression to the arm the path takes."""
    choice = {id(t.node): t.val for t in path.trace if t.kind == 'ifexp'}
    for _ in range(12):
        if isinstance(e, ast.IfExp) and id(e) in choice:
            e = e.body if choice[id(e)] else e.orelse
            continue
        if not isinstance(e, ast.Name) or e.id in keep:
            return e, idx
        found = None
        for j in range(idx - 1, -1, -1):
            t = path.trace[j]
            if t.kind == 'stmt' and isinstance(t.node, (ast.Assign, ast.AugAssign, ast.AnnAssign, ast.For, ast.With)) and \
                    e.id in {x.id for tg in (t.node.targets if isinstance(t.node, ast.Assign) else [getattr(t.node, 'target', None)]) if tg is not None
                             for x in ast.walk(tg) if isinstance(x, ast.Name) and isinstance(x.ctx, ast.Store)}:
                found = j
                break
        if found is None:
            return e, idx
        node = path.trace[found].node
        if isinstance(node, ast.Assign) and len(node.targets) == 1 and isinstance(node.targets[0], ast.Name) and not path.trace[found].maybe:
            e, idx = node.value, found
            continue
        return None, found
    return None, idx


def _is_unwrap(s, V=None):
    """`N = V._array` / `N = V._data`: the representation of a ragged operand taken in its place -> (N, V)."""
    if isinstance(s, ast.Assign) and len(s.targets) == 1 and isinstance(s.targets[0], ast.Name) and isinstance(s.value, ast.Attribute) \
            and s.value.attr in ('_array', '_data') and isinstance(s.value.value, ast.Name) and (V is None or s.value.value.id == V):
        return s.targets[0].id, s.value.value.id
    return None


def _ragged_operand(ck, mod, q, cx, V, once):
    """The rows of a ragged operand replace it exactly when it IS a ragged array."""
    rule = 'C06.D1.writer-forms.ragged-operand'
    cs = Cases.of(cx)
    sites = [s for s in walk_local(cx.fn) if _is_unwrap(s, V)]
    if not sites:
        ck.missing(rule, '%s: no statement takes the rows of a ragged `%s` in its place (<name> = %s._array)' % (q, V, V))
        return 0
    key = ('ragged', V)
    for p in cs.paths:
        if p.outcome == 'raise':
            continue
        done = False
        for i, e in enumerate(p.trace):
            if e.kind == 'stmt' and _is_unwrap(e.node, V) and cx.fi.rd.defs_at(e.node, V) == {'PARAM'}:
                done = True
                rg = e.env.get(key)
                if rg is not True:
                    once.decide(_tri(p, rg, (V,)), rule, e.node, 'rows of the operand taken in its place (<operand>._array) for a non-ragged operand',
                                '`%s` is executed on a path on which `%s` is %s: every ordinary value (scalar, list, ndarray) has no '
                                '_array and the write raises AttributeError, while a ragged value is used as an object' % (
                                    u(e.node), V, 'NOT a ragged array' if rg is False else 'not known to be a ragged array'))
        if not done and any(a.key == key and a.val is True for a in p.atoms()) and all(_is_unwrap(s, V)[0] == V for s in sites):
            a0 = [a for a in p.atoms() if a.key == key and a.val is True][0]
            once.decide(_tri(p, True, (V,)), rule, a0.node, 'ragged operand used without taking its rows',
                        'on a path on which `%s` is a ragged array its rows are not taken in its place' % V)
    return len(sites)


def _value_helper(mod, cx, call, V):
    """`call` applies a value helper of the class / module to the local `V` and nothing else: `self._h(V)`, `CLS._h(V)`,
    `type(self)._h(V)`, `_h(V)`.  -> (helper Ctx, name of the helper's value parameter) when the helper is a plain function of
    that one argument: no representation events, no other parameter used, its parameter neither rebound nor stored into,
    no nested scopes / generators; None otherwise (the caller then treats the call as an unrecognised expression)."""
    if not (isinstance(call, ast.Call) and len(call.args) == 1 and not call.keywords and isinstance(call.args[0], ast.Name)
            and call.args[0].id == V):
        return None
    f = call.func
    hq = None
    if isinstance(f, ast.Name):
        hq, bound = f.id, False
    elif isinstance(f, ast.Attribute):
        r = f.value
        on_me = isinstance(r, ast.Name) and r.id == cx.me
        on_cls = (isinstance(r, ast.Name) and r.id == CLS) or match('type(%s)' % cx.me, r) is not None or \
                 (isinstance(r, ast.Attribute) and r.attr == '__class__' and isinstance(r.value, ast.Name) and r.value.id == cx.me)
        if on_me or on_cls:
            hq, bound = CLS + '.' + f.attr, on_me
    hf = mod.functions.get(hq) if hq else None
    if hf is None or hf is cx.fn or not isinstance(hf, ast.FunctionDef):
        return None
    decos = [u(d) for d in hf.decorator_list]
    if any(d not in ('staticmethod', 'classmethod') for d in decos) or len(decos) > 1:
        return None
    ps = params(hf)
    a = hf.args
    if a.vararg or a.kwarg or a.kwonlyargs:
        return None
    is_method = '.' in hq
    if is_method and not decos:
        if not bound or len(ps) != 2:          # CLS._h(V) on a plain method binds V to the receiver
            return None
        recv, P = ps[0], ps[1]
    elif is_method and decos == ['classmethod']:
        if len(ps) != 2:
            return None
        recv, P = ps[0], ps[1]
    else:
        if len(ps) != 1:
            return None
        recv, P = None, ps[0]
    for n in ast.walk(hf):
        if n is not hf and isinstance(n, (ast.FunctionDef, ast.AsyncFunctionDef, ast.ClassDef, ast.Lambda, ast.Yield, ast.YieldFrom,
                                          ast.Global, ast.Nonlocal, ast.Await, ast.NamedExpr)):
            return None
        if isinstance(n, ast.Name) and n.id == P and isinstance(n.ctx, (ast.Store, ast.Del)):
            return None
        if recv is not None and isinstance(n, ast.Name) and n.id == recv:
            return None                        # reads the receiver: not a function of the value alone
        if isinstance(n, (ast.Subscript, ast.Attribute)) and isinstance(n.ctx, (ast.Store, ast.Del)):
            r = n
            while isinstance(r, (ast.Subscript, ast.Attribute, ast.Starred)):
                r = r.value
            if isinstance(r, ast.Name) and r.id == P:
                return None
        if isinstance(n, ast.Call) and isinstance(n.func, ast.Attribute) and n.func.attr in MUT_METHODS:
            return None
        if isinstance(n, ast.Call) and (call_name(n) in NP_INPLACE or any(k.arg == 'out' for k in n.keywords)):
            return None
    hcx = Ctx(mod, hf)
    hcx.me = recv if recv is not None else '<no receiver>'
    return hcx, P


def _value_helper_cases(vh, outer):
    """The returns of a value helper as cases [(returned leaf, parameter name, (ITERABLE(P), NONEMPTY(P), ITERABLE(P[0])) on the
    path, far?)], restricted to the helper paths compatible with what the caller already knows about the argument
    (`outer`, same three predicates).  Raising paths are refusals, not values.  None when a path cannot be followed."""
    hcx, P = vh
    cs = Cases.of(hcx)
    if cs.overflow:
        return None
    keys = (('iter', P), ('nonempty', P), ('iter', '%s[0]' % P))
    out = []
    for hp in cs.paths:
        if hp.outcome == 'raise':
            continue
        if hp.opaque or hp.outcome != 'return':
            return None                        # an exit inside a loop / falls off the end (stores None)
        last = None
        for j in range(len(hp.trace) - 1, -1, -1):
            if hp.trace[j].kind == 'stmt':
                last = j
                break
        if last is None or not isinstance(hp.trace[last].node, ast.Return) or hp.trace[last].node.value is None:
            return None
        ent = hp.trace[last]
        inner = tuple(ent.env.get(k) for k in keys)
        if any(o is not None and h is not None and o != h for o, h in zip(outer, inner)):
            continue                           # the caller's path excludes this helper path
        env = tuple(o if o is not None else h for o, h in zip(outer, inner))
        lf, _j = _resolve(hp, last, ent.node.value, keep=(P,))
        if lf is None:
            return None
        out.append((lf, P, env, bool(hp.generic_over((P,)))))
    return out or None


def _events_on(cx, p, kinds, whats=None):
    out = []
    for i, e in enumerate(p.trace):
        if e.kind != 'stmt':
            continue
        for kind, what, stmt, extra in cx.events(e.node):
            if kind in kinds and (whats is None or what in whats):
                out.append((i, e, kind, what, extra))
    return out


def d1_setitem_forms(ck, mod):
    """`a[index] = value`: (1) every index form the method accepts ends in a write (a store into a representation or
    the recursive call for a mask) - an accepted form that writes nothing silently drops the assignment; (2) a ragged
    value contributes its rows exactly when it is one; (3) the value stored into the flat data is the join of the rows
    of `value` exactly for a non-empty sequence of sequences and `value` itself otherwise - the other reading of a form
    raises (len() of a scalar, concatenate of scalars) or stores row objects into single cells."""
    q = CLS + '.__setitem__'
    fn = mod.functions.get(q)
    rule = 'C06.D1.writer-forms'
    if fn is None or len(params(fn)) < 3:
        ck.missing(rule, '%s(self, index, value) not found' % q)
        return
    cx = Ctx(mod, fn, _writer_helpers(mod))
    I, V = cx.params[1], cx.params[2]
    cs = Cases.of(cx)
    if cs.overflow:
        ck.missing(rule, '%s: more than %d paths' % (q, Cases.LIMIT))
        return
    once = _Once(ck, mod, q)
    _ragged_operand(ck, mod, q, cx, V, once)
    kVI, kVN, kV0 = ('iter', V), ('nonempty', V), ('iter', '%s[0]' % V)
    n_forms, n_flat = 0, 0
    for p in cs.paths:
        if p.outcome == 'raise':
            continue
        # (1) accepted index form -> a write
        acc = [a for a in p.atoms() if a.val is True and ((a.key == ('ragged', I)) or (
            isinstance(a.expr, ast.Call) and call_name(a.expr) == 'isinstance' and a.expr.args and isinstance(a.expr.args[0], ast.Name)
            and a.expr.args[0].id == I))]
        writes = _events_on(cx, p, ('store', 'recurse', 'opaque'))
        if acc:
            n_forms += 1
            if not writes and not p.opaque:
                once.decide(_tri(p, None, ()), rule + '.accepted-index-writes', acc[0].node,
                            'accepted index form (%s) that writes nothing' % u(acc[0].expr)[:80],
                            'a path that accepts the index (`%s` holds) returns normally without a store into a representation and '
                            'without the recursive call: `a[i] = v` is silently dropped for this index form, every later read shows the old '
                            'content where the list-of-rows model shows v' % u(acc[0].expr)[:80])
        # (3) what goes into the flat data
        for i, e, kind, what, _x in writes:
            if not (kind == 'store' and what == '_data' and isinstance(e.node, ast.Assign) and isinstance(e.node.targets[0], ast.Subscript)
                    and cx.is_me_attr(e.node.targets[0].value, '_data')):
                continue
            leaf, _at = _resolve(p, i, e.node.value, keep=(V,))
            if leaf is None:
                once.missing(rule + '.value-flattening', '%s: the value stored into the flat data is not followed to its definition (%s)' % (q, u(e.node)[:80]))
                continue
            outer = (e.env.get(kVI), e.env.get(kVN), e.env.get(kV0))
            # the cases of the value as (leaf over the name W, (ITERABLE(W), NONEMPTY(W), ITERABLE(W[0])), far?): the expression
            # itself, or - for a call of a pure one-argument value helper applied to the value - the helper's returns
            cases = [(leaf, V, outer, False)]
            vh = _value_helper(mod, cx, leaf, V)
            if vh is not None:
                cases = _value_helper_cases(vh, outer)
                if cases is None:
                    once.missing(rule + '.value-flattening', '%s: value stored into the flat data through a helper whose paths are not followed: %s' % (
                        q, u(leaf)[:80]))
                    continue
            for lf, W, (vi, vn, v0), hfar in cases:
                def verdict():
                    return 'far' if hfar else _tri(p, None, (V,))
                if isinstance(lf, ast.Name) and lf.id == W:
                    n_flat += 1
                    if not (vi is False or vn is False or v0 is False):
                        once.decide(verdict(), rule + '.value-flattening', e.node, 'value stored as it is for a sequence of rows',
                                    'the flat data receives `%s` unchanged on a path on which nothing excludes a non-empty sequence of sequences '
                                    '(ITERABLE(%s) %s, ITERABLE(%s[0]) %s): row objects are stored into single cells / the shapes do not match'
                                    % (V, V, vi, V, v0))
                elif isinstance(lf, ast.Call) and call_name(lf) in _JOIN_FUNCS and len(lf.args) == 1 \
                        and isinstance(lf.args[0], ast.Name) and lf.args[0].id == W:
                    n_flat += 1
                    if vi is not True or v0 is not True:
                        once.decide(verdict(), rule + '.value-flattening', e.node, 'rows of the value joined for a value that is no sequence of rows',
                                    '%s(%s) is stored into the flat data on a path on which ITERABLE(%s) is %s and ITERABLE(%s[0]) is %s: for a '
                                    'scalar or a flat sequence the join (or the len()/[0] probe on the way to it) raises, so `a[i, j] = 5` / '
                                    '`a[i, :] = [1, 2]` fail where the list-of-rows model assigns' % (call_name(lf), V, V, vi, V, v0))
                else:
                    once.missing(rule + '.value-flattening', '%s: value stored into the flat data not recognised as <value> / join of its rows: %s' % (
                        q, u(lf)[:80] if lf is not None else u(leaf)[:80]))
    once.flush()
    if not once.n_bad:
        ck.ok(rule + '.accepted-index-writes', mod, fn, '%s: %d paths accept an index form' % (q, n_forms), 'each ends in a store into a representation or the recursive call')
        ck.ok(rule + '.value-flattening', mod, fn, '%s: %d flat-data stores on the paths' % (q, n_flat),
              'the rows of the value are joined exactly for a non-empty sequence of sequences')
    ck.floor(rule + '.accepted-index-writes', n_forms, 4, 'paths of __setitem__ that accept an index form')
    ck.floor(rule + '.value-flattening', n_flat + once.n_bad, 2, 'flat-data stores with a recognised value')


def _writer_helpers(mod):
    methods = [(q, fn) for q, fn in mod.functions.items() if q.startswith(CLS + '.') and '<locals>' not in q]
    helper = set()
    while True:
        found = {q.split('.', 1)[1] for q, fn in methods if _is_private(q.split('.', 1)[1]) and Ctx(mod, fn, helper).has_events()}
        if found <= helper:
            return helper
        helper |= found


def _is_wrap(s, V):
    """`V = [V]` (also (V,), np.array([V])): a flat row made a sequence of one row."""
    if not (isinstance(s, ast.Assign) and len(s.targets) == 1 and isinstance(s.targets[0], ast.Name) and s.targets[0].id == V):
        return False
    x = _unwrap_seq(s.value)
    return isinstance(x, (ast.List, ast.Tuple)) and len(x.elts) == 1 and isinstance(x.elts[0], ast.Name) and x.elts[0].id == V


def d6_append_forms(ck, mod):
    """`a.append(values)`: (1) a ragged argument contributes its rows exactly when it is one; (2) re-running the
    constructor on the ARGUMENT discards the present content, so it is reached only for a blank array; (3) a flat row
    is wrapped into a one-row sequence exactly when the first element is not iterable, and the row-wise join
    np.concatenate(values) is not reached with a flat row."""
    q = CLS + '.append'
    fn = mod.functions.get(q)
    rule = 'C06.D6.append'
    if fn is None or len(params(fn)) < 2:
        ck.missing(rule, '%s(self, values) not found' % q)
        return
    cx = Ctx(mod, fn, _writer_helpers(mod))
    V = cx.params[1]
    cs = Cases.of(cx)
    if cs.overflow:
        ck.missing(rule, '%s: more than %d paths' % (q, Cases.LIMIT))
        return
    once = _Once(ck, mod, q)
    _ragged_operand(ck, mod, q, cx, V, once)
    kVI, kVN, kV0 = ('iter', V), ('nonempty', V), ('iter', '%s[0]' % V)
    n_re, n_wrap, n_join = 0, 0, 0
    for p in cs.paths:
        if p.outcome == 'raise':
            continue
        for i, e, kind, what, extra in _events_on(cx, p, ('reinit',)):
            if not extra or cx.roots(extra[0], e.node):
                continue                    # rebuilt from the object's own rows
            n_re += 1
            sizes = {k: v for k, v in e.env.items() if k[0] == 'nonempty' and (k[1] == cx.me or k[1].startswith(cx.me + '.'))}
            if not any(v is False for v in sizes.values()):
                state = 'NON-EMPTY' if any(v is True for v in sizes.values()) else 'not known to be empty'
                once.decide(_tri(p, None, (cx.me,)), rule + '.reinit-guard', e.node, 're-initialisation from the argument on a non-blank array',
                            '`%s` replaces all three representations by those of the argument; it is executed on a path on which the array is '
                            '%s: append() then DISCARDS the existing rows instead of adding after them (and a blank array takes the path that '
                            'joins to the existing flat data)' % (u(e.node)[:80], state))
        wrapped = False
        for i, e in enumerate(p.trace):
            if e.kind != 'stmt':
                continue
            if _is_wrap(e.node, V):
                wrapped = True
                n_wrap += 1
                vi, v0 = e.env.get(kVI), e.env.get(kV0)
                if v0 is not False or vi is False:
                    once.decide(_tri(p, None, (V,)), rule + '.row-forms.wrap', e.node, 'argument wrapped into a one-row sequence although it is no flat row',
                                '`%s` is executed on a path on which ITERABLE(%s) is %s and ITERABLE(%s[0]) is %s: a sequence of rows [r1, r2] '
                                'becomes ONE row (of row objects) where the list-of-rows model appends two rows; a scalar is wrapped and fails later'
                                % (u(e.node), V, vi, V, v0))
                continue
            if wrapped or not isinstance(e.node, (ast.Assign, ast.Expr, ast.AugAssign, ast.AnnAssign)):
                continue
            for c in walk_expr(e.node.value) if e.node.value is not None else []:
                if isinstance(c, ast.Call) and call_name(c) in _JOIN_FUNCS and len(c.args) >= 1 and isinstance(c.args[0], ast.Name) and c.args[0].id == V:
                    n_join += 1
                    # what the path knows about the first element at the join or finds out later, before `V` is rebound
                    v0, vn = e.env.get(kV0), e.env.get(kVN)
                    for t in p.trace[i + 1:]:
                        if t.kind == 'stmt' and isinstance(t.node, ast.Assign) and any(isinstance(x, ast.Name) and x.id == V for x in t.node.targets):
                            break
                        if t.kind == 'atom' and t.key == kV0 and v0 is None:
                            v0 = t.val
                        if t.kind == 'atom' and t.key == kVN and vn is None:
                            vn = t.val
                    if v0 is False and vn is not False:
                        once.decide(_tri(p, None, (V,)), rule + '.row-forms.wrap', e.node, 'rows of the argument joined for a flat row',
                                    '%s(%s) is reached, without the argument having been wrapped, on a path on which its first element is '
                                    'NOT iterable: a.append([6, 7]) raises "zero-dimensional arrays cannot be concatenated" on a non-blank '
                                    'array (the arm written for the flat-row form is never taken)' % (call_name(c), V))
    once.flush()
    if not once.n_bad:
        ck.ok(rule + '.reinit-guard', mod, fn, '%s: %d paths re-run the constructor on the argument' % (q, n_re), 'each only for a blank array')
        ck.ok(rule + '.row-forms.wrap', mod, fn, '%s: %d paths wrap a flat row, %d join the rows of the argument' % (q, n_wrap, n_join),
              'a flat row is wrapped exactly when its first element is not iterable')



# -- reductions and the flat copy

_REDUCTIONS = ('all', 'any', 'max', 'min', 'sum', 'mean', 'flatten', 'argmax', 'argmin', 'std', 'var', 'prod')


def d2_reductions(ck, mod):
    """`a.max()`, `a.min()`, `a.all()`, `a.any()`, `a.flatten()` observe the content: each is the reduction OF THAT
    NAME over the flat data, which holds every element exactly once.  Another reduction in the same role (min for max,
    any for all) or a reduction of something else than the whole flat data is a different observation."""
    rule = 'C06.D2.pure-operators.reduction'
    n = 0
    for name in _REDUCTIONS:
        q = '%s.%s' % (CLS, name)
        fn = mod.functions.get(q)
        if fn is None:
            continue
        cx = Ctx(mod, fn)
        if len(cx.params) != 1:
            continue            # takes arguments (axis ...): not the whole-array reduction
        rets = [r for r in returns_of(fn) if r.value is not None]
        if len(rets) != 1:
            ck.missing(rule, '%s: expected a single return' % q)
            continue
        n += 1
        E = cx.vexpand(rets[0].value, rets[0])
        me_data = '%s._data' % cx.me
        # canonical form of np.<f>(x) is x.<f>() for the reductions the front end knows; accept both spellings
        got = None
        if isinstance(E, ast.Call) and all(k.arg == 'axis' and isinstance(k.value, ast.Constant) and k.value.value is None for k in E.keywords):
            if isinstance(E.func, ast.Attribute) and not E.args and u(E.func.value) == me_data:
                got = E.func.attr
            elif (call_name(E) or '').startswith('np.') and len(E.args) == 1 and u(E.args[0]) == me_data:
                got = call_name(E)[3:]
        got = {'amax': 'max', 'amin': 'min', 'nanmax': None, 'nanmin': None}.get(got, got)
        if got == name:
            ck.ok(rule, mod, rets[0], '%s: %s' % (q, u(rets[0])), 'the reduction of that name over the whole flat data')
        elif got in _REDUCTIONS:
            ck.bad(rule, mod, rets[0], q, 'reduction computed by %s()' % name,
                   '%s() returns %s: the `%s` of the flat data where the list-of-rows model gives the `%s` of all elements' % (name, u(E), got, name))
        elif name == 'flatten' and got in ('ravel', 'reshape', 'view'):
            ck.bad(rule, mod, rets[0], q, 'reduction computed by %s()' % name,
                   'flatten() returns %s, a VIEW of the flat data: a store into the result alters the ragged array behind the rows' % u(E))
        else:
            ck.missing(rule, '%s: return value not recognised as a reduction of the whole flat data: %s' % (q, u(E)[:100]))
    ck.floor(rule, n, 4, 'whole-array reductions of the class')


def check(ck):
    del _REPO[:]
    Cases._cache.clear()
    _REPO.append(ck.repo)
    mod = ck.repo.mod(RA)
    writers, pure = d1_writers(ck, mod)
    d2_pure(ck, mod, pure)
    d3_copy(ck, mod)
    from .C05 import d7_constructor_and_lists, row_container
    d7_constructor_and_lists(ck, mod, container=False)
    # the row container is rebuilt by every writer (and the constructor is re-run on it)
    nrc = row_container(ck, mod, 'C06.D7.row-container', [CLS + '.__init__', CLS + '.__setitem__', CLS + '.append'])
    ck.floor('C06.D7.row-container', nrc, 4, 'stores into the row container in the writers')
    d5_write_addressing(ck, mod)
    d6_append(ck, mod)
    d6_append_lengths(ck, mod)
    d1_derived_state(ck, mod)
    d6_flat_dtype(ck, mod, writers)
    d6_value_probe(ck, mod)
    d2_reflected_dispatch(ck, mod)
    d1_constructor_cases(ck, mod)
    d1_setitem_forms(ck, mod)
    d6_append_forms(ck, mod)
    d2_reductions(ck, mod)
    # added after the seeding rounds (DESIGN.md 11.2, G5): every instance slot read by
    # the constructor is stored first, for every combination of its branch conditions
    from . import extra
    n = extra.attrs_definite_in_constructor(ck, 'C06.D4.constructor-definite-attributes', mod, 'RaggedArray.__init__')
    ck.floor('C06.D4.constructor-definite-attributes', n, 4, 'reads of instance attributes in RaggedArray.__init__')
    slots_definite_at_exit(ck, 'C06.D4.constructor-definite-attributes.exit', mod, 'RaggedArray.__init__')
    d4_reshape_rows(ck, mod)
    return EXPLANATION

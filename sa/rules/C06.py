"""C06 Ragged writes: two-representation typestate (A11), pure operators,
copy on construction."""
import ast

from ..cfg import CFG, ENTRY, EXIT, Assume, header_exprs
from ..core import (AnalysisIncomplete, call_name, const_value, kwarg,
                    names_loaded, params, param_default, target_names, u,
                    walk_expr, walk_local)
from ..patterns import (assigns_to, calls_in, check_no_arg_mutation, finfo,
                        returns_of, shared)

RA = 'enspara/ra/ra.py'
CLS = 'RaggedArray'

EXPLANATION = (
    'Typestate analysis of the RaggedArray class on every path of every '
    'method: abstract state = subset of {DATA-AHEAD, ARRAY-AHEAD, '
    'LENGTHS-AHEAD}.  Events: stores into / rebinding of self._data, '
    'self._array, self.lengths; self.__init__(self._array) (rebuild from rows: '
    'legal only when _data is not ahead); self._array = np.array('
    'partition_list(self._data, self.lengths), ...) (rebuild from flat data: '
    'legal only when _array is not ahead, clears DATA/LENGTHS-AHEAD); '
    'recursive __setitem__ (summary CLEAN).  Obligation (D1): CLEAN at every '
    'exit (explicit return and fall-through) of every writer; the set of '
    'writers is computed, not assumed.  (D2) every operator/reduction/property '
    'contains no event and no store aliasing self or other, and re-wraps '
    'freshly computed flat data with the same lengths; (D3) with copy=True '
    'every definition of self._data in the constructor is copy-making with '
    'the copy flag flowing unmodified (default True) and self.lengths is '
    'always a fresh array.  Agreement with the list-of-rows model over whole '
    'operation histories is not decided (the rows-of-object vs reshaped-view '
    'representation depends on run-time lengths).')

DATA, ARRAY, LENS = 'DATA-AHEAD', 'ARRAY-AHEAD', 'LENGTHS-AHEAD'


def classify_event(stmt):
    """Return list of events for a statement header."""
    ev = []
    tgts = []
    if isinstance(stmt, ast.Assign):
        tgts = stmt.targets
    elif isinstance(stmt, (ast.AugAssign, ast.AnnAssign)):
        tgts = [stmt.target]
    for t in tgts:
        for tt in (t.elts if isinstance(t, (ast.Tuple, ast.List)) else [t]):
            txt = u(tt)
            if isinstance(tt, ast.Attribute) and u(tt.value) == 'self':
                if tt.attr == '_data':
                    ev.append(('rebind', '_data', stmt))
                elif tt.attr == '_array':
                    ev.append(('rebind', '_array', stmt))
                elif tt.attr == 'lengths':
                    ev.append(('rebind', 'lengths', stmt))
                else:
                    # any other attribute of the object is extra (cached/
                    # derived) state that the writers do not maintain
                    ev.append(('rebind', 'other:' + tt.attr, stmt))
            elif isinstance(tt, ast.Subscript):
                base = tt.value
                while isinstance(base, ast.Subscript):
                    base = base.value
                b = u(base)
                if b == 'self._data':
                    ev.append(('store', '_data', stmt))
                elif b == 'self._array':
                    ev.append(('store', '_array', stmt))
                elif b == 'self.lengths':
                    ev.append(('store', 'lengths', stmt))
    for e in header_exprs(stmt):
        for c in walk_expr(e):
            if isinstance(c, ast.Call):
                f = u(c.func)
                if f == 'self.__init__':
                    ev.append(('reinit', u(c), stmt))
                elif f == 'self.__setitem__':
                    ev.append(('recurse', u(c), stmt))
                elif f == 'self.append':
                    ev.append(('recurse', u(c), stmt))
                elif isinstance(c.func, ast.Attribute) and u(c.func.value) in ('self._data', 'self._array', 'self.lengths') \
                        and c.func.attr in ('fill', 'sort', 'resize', 'put', 'itemset', 'partition', 'append', 'extend'):
                    ev.append(('store', u(c.func.value).split('.')[1], stmt))
                for k in c.keywords:
                    if k.arg == 'out' and u(k.value) in ('self._data', 'self._array', 'self.lengths'):
                        ev.append(('store', u(k.value).split('.')[1], stmt))
    return ev


def is_rebuild_from_flat(stmt):
    """self._array = np.array(partition_list(self._data, self.lengths), ...)
    or a reshape of self._data."""
    if not (isinstance(stmt, ast.Assign) and u(stmt.targets[0]) == 'self._array'):
        return False
    v = stmt.value
    if isinstance(v, ast.Call) and call_name(v) == 'np.array' and v.args and isinstance(v.args[0], ast.Call) \
            and (call_name(v.args[0]) or '').endswith('partition_list'):
        a = v.args[0].args
        return len(a) == 2 and u(a[0]) == 'self._data' and u(a[1]) in ('self.lengths', 'lengths')
    if isinstance(v, ast.Call) and isinstance(v.func, ast.Attribute) and v.func.attr == 'reshape' and u(v.func.value) == 'self._data':
        return True
    return False


def typestate(ck, mod, qual, fn, is_ctor=False):
    rule = 'C06.D1.resync'
    cfg = CFG(fn)
    IN = {n: None for n in cfg.nodes}
    OUT = {n: None for n in cfg.nodes}
    OUT[ENTRY] = frozenset()
    work = [n for n in cfg.nodes if n != ENTRY]
    illegal = []
    events_seen = 0
    guard = 0
    while work and guard < 20000:
        guard += 1
        n = work.pop(0)
        st = None
        for p in cfg.pred.get(n, []):
            if OUT[p] is not None:
                st = OUT[p] if st is None else (st | OUT[p])
        if st is None:
            continue
        IN[n] = st
        new = set(st)
        if n not in (ENTRY, EXIT) and not isinstance(n, Assume):
            evs = classify_event(n)
            if is_rebuild_from_flat(n):
                if ARRAY in new:
                    illegal.append((n, 'the row view is rebuilt from the flat data while a store into self._array '
                                       'has not been folded back: that row store is lost'))
                new.discard(DATA)
                new.discard(LENS)
                new.discard(ARRAY)
                evs = [e for e in evs if not (e[0] == 'rebind' and e[1] == '_array')]
            for kind, what, stmt in evs:
                if kind == 'reinit':
                    arg = stmt.value.args[0] if isinstance(stmt, ast.Expr) and isinstance(stmt.value, ast.Call) and stmt.value.args else None
                    if arg is not None and u(arg) == 'self._array':
                        if DATA in new:
                            illegal.append((n, 'the object is rebuilt from its rows (self.__init__(self._array)) while a '
                                               'store into the flat data has not been propagated to the rows: it is lost'))
                        new.clear()
                    else:
                        new.clear()
                elif kind == 'recurse':
                    new.clear()
                elif kind in ('store', 'rebind'):
                    if what == '_data':
                        new.add(DATA)
                    elif what == '_array':
                        new.add(ARRAY)
                    elif what == 'lengths':
                        new.add(LENS)
        new = frozenset(new)
        if new != OUT[n]:
            OUT[n] = new
            for s in cfg.succ.get(n, []):
                if s not in work:
                    work.append(s)
    n_events = sum(len(classify_event(n)) for n in cfg.nodes if n not in (ENTRY, EXIT) and not isinstance(n, Assume))
    for n, why in illegal:
        ck.bad(rule + '.order', mod, n, qual, u(n)[:160], why)
    if not is_ctor:
        # CLEAN at every exit
        for p in cfg.pred.get(EXIT, []):
            st = OUT.get(p)
            if st is None:
                continue
            where = 'return at L%s' % getattr(p, 'lineno', '?') if isinstance(p, ast.Return) else 'fall-through after L%s' % getattr(p, 'lineno', '?')
            if isinstance(p, ast.Raise):
                continue
            if st:
                # find the last event statement that set the flag, for the report
                src = None
                for m in cfg.nodes:
                    if m in (ENTRY, EXIT) or isinstance(m, Assume):
                        continue
                    if classify_event(m) and cfg.reachable(m, p) or m is p:
                        if classify_event(m):
                            src = m
                ck.bad(rule, mod, src or p, qual, '%s ; exit: %s' % (u(src)[:100] if src is not None else '?', where),
                       'the method can exit in state %s: one representation (flat data / row view / lengths) was written '
                       'and the others were not re-synchronised on this path, so a later read through another path '
                       'returns stale data' % sorted(st))
            else:
                ck.ok(rule, mod, p if hasattr(p, 'lineno') else fn, '%s: %s' % (qual, where), 'CLEAN at this exit')
    return n_events


def d1_writers(ck, mod):
    cls = mod.classes.get(CLS)
    if cls is None:
        raise AnalysisIncomplete('class RaggedArray not found')
    writers = []
    pure = []
    for q, fn in mod.functions.items():
        if not q.startswith(CLS + '.') or '<locals>' in q:
            continue
        ck.analysed(mod, fn)
        evs = []
        for s in walk_local(fn):
            if isinstance(s, ast.stmt):
                evs += classify_event(s)
        if evs:
            writers.append((q, fn))
        else:
            pure.append((q, fn))
    names = sorted(q.split('.', 1)[1] for q, _ in writers)
    ck.check(set(names) == {'__init__', '__setitem__', 'append'}, 'C06.D1.writers', mod, cls, CLS,
             'methods containing a representation event: %s' % names,
             'the writers are exactly __init__, __setitem__ and append',
             'a method outside {__init__, __setitem__, append} writes a representation: %s' % (
                 sorted(set(names) - {'__init__', '__setitem__', 'append'})))
    total = 0
    for q, fn in writers:
        total += typestate(ck, mod, q, fn, is_ctor=q.endswith('__init__'))
    ck.floor('C06.D1.resync', total, 12, 'representation events')
    return writers, pure


def d2_pure(ck, mod, pure):
    rule = 'C06.D2.pure-operators'
    entries = [(RA, q) for q, fn in pure if not q.endswith(('__repr__', '__str__', '__len__'))]
    res, ea = shared(ck.repo)
    n = 0
    for rel, q in entries:
        fn = mod.func(q)
        muts = ea.mutated_params(rel, q)
        for p in params(fn):
            n += 1
            if p in muts and not (q.endswith('__getitem__') and p == 'self' and
                                  'stops[iis_to_flat] = lengths[iis_to_flat]' in (muts[p].get('via') or '') + muts[p].get('construct', '')):
                why = muts[p]
                ck.bad(rule, mod, why['node'], q, 'parameter %s <- %s' % (p, why['construct'][:120]),
                       'a read-only method (operator/reduction/property) stores into storage of `%s`: operators must '
                       'return new objects and never alter their operands' % p,
                       (why.get('via') or ''))
            else:
                ck.ok(rule, mod, fn, '%s(%s)' % (q, p), 'no store may alias %s' % p)
    # map_operator rewraps fresh data with the same lengths
    mo = mod.func(CLS + '.map_operator')
    r = [x for x in returns_of(mo) if isinstance(x.value, ast.Call)]
    ok = len(r) == 1 and (call_name(r[0].value) or '').endswith('RaggedArray') and \
        u(kwarg(r[0].value, 'array') or (r[0].value.args[0] if r[0].value.args else None)) == 'new_data' and \
        u(kwarg(r[0].value, 'lengths')) == 'self.lengths'
    nd = [s for s in assigns_to(mo, 'new_data') if isinstance(s, ast.Assign)]
    ok = ok and len(nd) == 1 and u(nd[0].value) == 'getattr(self._data, operator)(other)'
    ck.check(ok, rule + '.rewrap', mod, r[0] if r else mo, CLS + '.map_operator', '%s ; %s' % (u(nd[0]) if nd else '?', u(r[0]) if r else '?'),
             'element-wise result on the flat data, re-wrapped with the same row lengths in a NEW object',
             'map_operator must return RaggedArray(array=<new flat result>, lengths=self.lengths)')
    od = [s for s in assigns_to(mo, 'other') if isinstance(s, ast.Assign)]
    ok = len(od) == 1 and u(od[0].value) == 'other._data'
    ck.check(ok, rule + '.rewrap', mod, od[0] if od else mo, CLS + '.map_operator', u(od[0]) if od else 'other', 'ragged operand contributes its flat data', 'other must be replaced by other._data for ragged operands')
    # every dunder operator delegates to map_operator with its own name
    cnt = 0
    for q, fn in pure:
        name = q.split('.', 1)[1]
        if name.startswith('__') and name.endswith('__') and name not in ('__len__', '__repr__', '__str__', '__getitem__', '__invert__', '__init__', '__setitem__'):
            r = returns_of(fn)
            ok = len(r) == 1 and u(r[0].value) == "self.map_operator('%s', other)" % name
            cnt += 1
            ck.check(ok, rule + '.delegate', mod, r[0] if r else fn, q, u(r[0]) if r else name,
                     'delegates to map_operator under its own name',
                     "%s must return self.map_operator('%s', other): another operator name computes a different operation" % (name, name))
    ck.floor(rule + '.delegate', cnt, 23, 'operator methods')
    inv = mod.func(CLS + '.__invert__')
    r = returns_of(inv)
    ok = len(r) == 1 and u(r[0].value) == 'RaggedArray(new_data, lengths=self.lengths)'
    ck.check(ok, rule + '.rewrap', mod, r[0] if r else inv, CLS + '.__invert__', u(r[0]) if r else '?', 'new object with the same lengths', '__invert__ must wrap the inverted flat data with self.lengths')
    return n


def d3_copy(ck, mod):
    rule = 'C06.D3.copy-on-construction'
    fn = mod.func(CLS + '.__init__')
    d = param_default(fn, 'copy')
    ck.check(const_value(d) is True, rule + '.default', mod, fn, CLS + '.__init__', 'copy=%s' % u(d), 'copy defaults to True', 'the constructor\'s copy flag must default to True')
    # the flag is not reassigned
    re = [s for s in assigns_to(fn, 'copy')]
    ck.check(not re, rule + '.default', mod, re[0] if re else fn, CLS + '.__init__', u(re[0]) if re else 'copy never reassigned', 'flag flows unmodified', 'the copy flag is overwritten inside the constructor')
    n = 0
    for s in walk_local(fn):
        if isinstance(s, ast.Assign) and u(s.targets[0]) == 'self._data':
            n += 1
            v = s.value
            ok = False
            if isinstance(v, ast.Call):
                cn = call_name(v)
                if cn == 'np.concatenate':
                    ok = True
                elif cn == 'np.array':
                    c = kwarg(v, 'copy')
                    inner_fresh = v.args and isinstance(v.args[0], (ast.ListComp, ast.List))
                    ok = inner_fresh or (c is not None and u(c) == 'copy') or (c is None)
            ck.check(ok, rule + '.data', mod, s, CLS + '.__init__', u(s)[:140],
                     'flat data is built by a copying constructor honouring the copy flag',
                     'self._data must be np.concatenate(...) or np.array(array, copy=copy): np.asarray / a bare '
                     'reference keeps the caller\'s buffer although copy=True')
        if isinstance(s, ast.Assign) and u(s.targets[0]) == 'self.lengths':
            n += 1
            v = s.value
            ok = isinstance(v, ast.Call) and ((call_name(v) == 'np.array' and kwarg(v, 'copy') is None) or
                                              (isinstance(v.func, ast.Attribute) and v.func.attr == 'copy' and not v.args))
            ck.check(ok, rule + '.lengths', mod, s, CLS + '.__init__', u(s)[:140],
                     'lengths are stored as a fresh array',
                     'self.lengths must be a fresh np.array(...): np.asarray(lengths) keeps the caller\'s array, so '
                     'a later in-place edit of it changes lengths/starts of this object (and of every result that '
                     'shares it) while the rows keep the old partition')
    ck.floor(rule + '.data', n, 8, 'definitions of _data/lengths in the constructor')
    # _array is derived from self._data (never from the raw argument)
    for s in walk_local(fn):
        if isinstance(s, ast.Assign) and u(s.targets[0]) == 'self._array' and not (isinstance(s.value, ast.List) and not s.value.elts):
            ok = 'self._data' in u(s.value)
            ck.check(ok, rule + '.rows', mod, s, CLS + '.__init__', u(s)[:140], 'row view is derived from the object\'s own flat data',
                     'self._array must be built from self._data (view or partition), not from the caller\'s argument')
    # lengths never stored into anywhere in the class
    for q, f in mod.functions.items():
        if q.startswith(CLS + '.'):
            for s in walk_local(f):
                if isinstance(s, (ast.Assign, ast.AugAssign)):
                    tg = s.targets[0] if isinstance(s, ast.Assign) else s.target
                    if isinstance(tg, ast.Subscript) and u(tg.value) == 'self.lengths':
                        ck.bad(rule + '.lengths', mod, s, q, u(s), 'self.lengths is shared between operands/results and must only be rebound, never stored into')
                    if isinstance(s, ast.AugAssign) and u(tg) == 'self.lengths':
                        ck.bad(rule + '.lengths', mod, s, q, u(s), 'in-place update of self.lengths (shared between objects)')


def check(ck):
    mod = ck.repo.mod(RA)
    writers, pure = d1_writers(ck, mod)
    d2_pure(ck, mod, pure)
    d3_copy(ck, mod)
    from .C05 import d7_constructor_and_lists
    d7_constructor_and_lists(ck, mod)
    return EXPLANATION

"""C04 Builders: prior counts first, caller's matrix unchanged, row
orientation, zero-row guard, container discipline, stationary vector."""
import ast

from ..core import (AnalysisIncomplete, call_name, const_value, kwarg,
                    names_loaded, params, target_names, u, walk_expr,
                    walk_local)
from ..patterns import (Cmp, assigns_to, calls_in, check_no_arg_mutation,
                        conjuncts, finfo, returns_of, subscript_stores)
from .msm_common import BU, TM, LM, check_spectrum
from ..match import C as CAN, CS

EXPLANATION = (
    'Static decision of the structural necessary conditions of the builder '
    'contract: (D1) every builder applies prior counts first and every later '
    'use of the counts sees that definition; (D2) no store reaches the '
    'caller\'s matrix (alias/effects incl. scipy csr_matrix(C)/asfptype views '
    'and .data); (D3) row normalisation scales ROWS by 1/row-sum in both the '
    'dense (column-vector broadcast) and the sparse (LEFT diagonal product) '
    'branch, and the transpose builder derives populations from the same '
    'symmetrised matrix it normalises; (D4) reciprocal weights are taken only '
    'under the weights > 0 mask, into a zero-initialised vector; (D5) sparse '
    'input is densified with an ndarray (never bare np.matrix) and outputs are '
    're-wrapped in the input container; (D6) the stationary vector is the '
    'sum-normalised leading left eigenvector under a descending-real-part '
    'order applied to values and columns alike. Stochasticity/stationarity/'
    'detailed balance as numerical identities are not decided.')


def d1_prior_first(ck, mod):
    rule = 'C04.D1.prior-first'
    for b in ('mle', 'transpose', 'normalize'):
        fn = mod.func(b)
        ck.analysed(mod, fn)
        fi = finfo(mod, fn)
        C, pc = params(fn)[0], params(fn)[1]
        firsts = [s for s in fn.body if not (isinstance(s, ast.Expr) and isinstance(s.value, ast.Constant))]
        s0 = firsts[0] if firsts else None
        ok = isinstance(s0, ast.Assign) and u(s0.targets[0]) == C and isinstance(s0.value, ast.Call) and \
            call_name(s0.value) == '_apply_prior_counts' and [u(a) for a in s0.value.args] == [C, pc]
        ck.check(ok, rule, mod, s0 or fn, b, u(s0) if s0 is not None else b,
                 'prior counts are added before anything else',
                 '%s must start with %s = _apply_prior_counts(%s, %s): estimating first and adding '
                 'pseudocounts later (or never) changes every probability' % (b, C, C, pc))
        # no use of C sees the raw parameter
        raw = []
        for n in walk_local(fn):
            if isinstance(n, ast.Name) and n.id == C and isinstance(n.ctx, ast.Load):
                if fi.stmt(n) is s0:
                    continue
                if 'PARAM' in fi.defs_of_use(n):
                    raw.append(n)
        ck.check(not raw, rule, mod, raw[0] if raw else fn, b, 'uses of %s after the prior' % C,
                 'every later use of the counts includes the prior',
                 'a use of `%s` can still see the raw argument (without prior counts)' % C)
    fa = mod.func('_apply_prior_counts')
    ck.analysed(mod, fa)
    C, pc = params(fa)[:2]
    adds = [s for s in walk_local(fa) if isinstance(s, ast.Assign) and u(s.targets[0]) == C]
    ok = bool(adds) and all(isinstance(s.value, ast.BinOp) and isinstance(s.value.op, ast.Add) and
                            u(s.value.right) == pc for s in adds)
    ck.check(ok, rule + '.add', mod, adds[0] if adds else fa, '_apply_prior_counts', '; '.join(u(s) for s in adds),
             'C + prior_counts builds a new matrix (no in-place +=)',
             '_apply_prior_counts must rebind C = C + prior_counts (a new object)')
    ia = [s for s in walk_local(fa) if isinstance(s, ast.AugAssign)]
    ck.check(not ia, rule + '.add', mod, ia[0] if ia else fa, '_apply_prior_counts', u(ia[0]) if ia else 'no augmented assignment',
             'no augmented assignment on the caller\'s matrix', '`C += prior_counts` would modify the caller\'s matrix in place')
    g = [n for n in fa.body if isinstance(n, ast.If)]
    ck.check(bool(g) and u(g[0].test) == '%s is not None' % pc, rule + '.add', mod, g[0] if g else fa, '_apply_prior_counts',
             u(g[0].test) if g else 'guard', 'no prior -> counts returned unchanged', 'prior must be applied iff it is not None')


def d3_row_normalize(ck, mod):
    rule = 'C04.D3.row-orientation'
    fn = mod.func('_row_normalize')
    ck.analysed(mod, fn)
    fi = finfo(mod, fn)
    C = params(fn)[0]
    ifs = [n for n in fn.body if isinstance(n, ast.If)]
    if len(ifs) != 1 or not ifs[0].orelse:
        ck.missing(rule, 'sparse/dense branch in _row_normalize')
        return
    node = ifs[0]
    ok = isinstance(node.test, ast.Call) and (call_name(node.test) or '').split('.')[-1] in ('isspmatrix', 'issparse') \
        and u(node.test.args[0]) == C
    ck.check(ok, rule + '.dispatch', mod, node, '_row_normalize', u(node.test), 'branch on sparsity of the input',
             'branches must be selected by scipy.sparse.isspmatrix/issparse(C)')
    for label, body in (('sparse', node.body), ('dense', node.orelse)):
        bm = ast.Module(body=body, type_ignores=[])
        asg = {u(s.targets[0]): s for s in ast.walk(bm) if isinstance(s, ast.Assign) and isinstance(s.targets[0], ast.Name)}
        # weights = row sums
        w = asg.get('weights')
        okw = w is not None and 'sum(axis=1)' in u(w.value)
        ck.check(okw, rule + '.weights', mod, w or node, '_row_normalize', '%s: %s' % (label, u(w) if w else 'weights'),
                 'weights are ROW sums (axis=1)',
                 '%s branch: normalisation weights must be the row sums C.sum(axis=1); column sums make '
                 'columns, not rows, sum to one' % label)
        # zero-row guard
        st = [s for s in ast.walk(bm) if isinstance(s, ast.Assign) and isinstance(s.targets[0], ast.Subscript)
              and u(s.targets[0].value) == 'inv_weights']
        okg = len(st) == 1 and u(st[0].targets[0].slice) == CAN('weights > 0') and isinstance(st[0].value, ast.BinOp) \
            and isinstance(st[0].value.op, ast.Div) and const_value(st[0].value.left) in (1, 1.0) and \
            u(st[0].value.right) == CAN('weights[weights > 0]')
        ck.check(okg, 'C04.D4.zero-row', mod, st[0] if st else node, '_row_normalize', '%s: %s' % (label, u(st[0]) if st else '?'),
                 'reciprocal taken only where weights > 0, same mask on both sides',
                 '%s branch: 1/weights must be computed under the mask weights > 0 on both sides '
                 '(division by a zero row sum gives inf/NaN rows)' % label)
        init = [s for s in ast.walk(bm) if isinstance(s, ast.Assign) and u(s.targets[0]) == 'inv_weights'
                and isinstance(s.value, ast.Call) and call_name(s.value) == 'np.zeros']
        ck.check(len(init) == 1, 'C04.D4.zero-row', mod, init[0] if init else node, '_row_normalize',
                 '%s: %s' % (label, u(init[0]) if init else 'inv_weights = np.zeros(n)'),
                 'rows without counts get weight 0 (initialised vector)',
                 '%s branch: inv_weights must start as np.zeros(n_states) (np.empty would leave zero rows undefined)' % label)
        T = asg.get('T')
        if label == 'dense':
            okT = False
            if T is not None and isinstance(T.value, ast.BinOp) and isinstance(T.value.op, ast.Mult):
                a, b = u(T.value.left), u(T.value.right)
                col = ('inv_weights.reshape((n_states, 1))', 'inv_weights.reshape(n_states, 1)',
                       'inv_weights.reshape((-1, 1))', 'inv_weights.reshape(-1, 1)',
                       'inv_weights[:, None]', 'inv_weights[:, np.newaxis]')
                okT = (a == C and b in col) or (b == C and a in col)
            ck.check(okT, rule + '.dense', mod, T or node, '_row_normalize', u(T) if T else 'T',
                     'T[i, j] = C[i, j] * w[i]: weights broadcast as a COLUMN vector',
                     'dense branch must multiply C by inv_weights shaped (n, 1); a row-vector broadcast '
                     '(n,) / (1, n) scales columns by the weights of other rows')
        else:
            # first definition of T in the sparse branch
            Ts = [s for s in body if isinstance(s, ast.Assign) and u(s.targets[0]) == 'T']
            okT = False
            if Ts and isinstance(Ts[0].value, ast.Call) and isinstance(Ts[0].value.func, ast.Attribute) \
                    and Ts[0].value.func.attr == 'dot':
                left = Ts[0].value.func.value
                right = Ts[0].value.args[0]
                lv = u(left)
                dia = [s for s in body if isinstance(s, ast.Assign) and u(s.targets[0]) == lv
                       and 'dia_matrix' in u(s.value)]
                okT = bool(dia) and u(right) == 'C_csr'
            ck.check(okT, rule + '.sparse', mod, Ts[0] if Ts else node, '_row_normalize', u(Ts[0]) if Ts else 'T',
                     'T = D.dot(C): the diagonal weight matrix multiplies from the LEFT (scales rows)',
                     'sparse branch must compute diag(inv_weights).dot(C_csr); C.dot(D) scales columns')
            rec = [s for s in body if isinstance(s, ast.Assign) and u(s.targets[0]) == 'T' and u(s.value) == 'type(%s)(T)' % C]
            ck.check(len(rec) == 1, 'C04.D5.container', mod, rec[0] if rec else node, '_row_normalize',
                     u(rec[0]) if rec else 'T = type(C)(T)', 'result recast to the input container type',
                     'sparse branch must return T in the container type of the input')


def d3_transpose(ck, mod):
    rule = 'C04.D3.transpose'
    fn = mod.func('transpose')
    fi = finfo(mod, fn)
    C = params(fn)[0]
    sym = [s for s in assigns_to(fn, 'C_sym') if isinstance(s, ast.Assign)]
    ok = bool(sym) and u(sym[0].value) in ('%s + %s.T' % (C, C), '%s.T + %s' % (C, C))
    ck.check(ok, rule, mod, sym[0] if sym else fn, 'transpose', u(sym[0]) if sym else 'C_sym', 'C_sym = C + C^T',
             'the symmetrised counts must be C + C.T')
    pr = [s for s in assigns_to(fn, 'probs') if isinstance(s, ast.Assign) and isinstance(s.value, ast.Call)
          and call_name(s.value) == '_row_normalize']
    ck.check(len(pr) == 1 and u(pr[0].value.args[0]) == 'C_sym', rule, mod, pr[0] if pr else fn, 'transpose',
             u(pr[0]) if pr else 'probs', 'probabilities from the symmetrised counts', 'probs must be _row_normalize(C_sym)')
    eq = [s for s in assigns_to(fn, 'equilibrium') if isinstance(s, ast.Assign) and not (
        isinstance(s.value, ast.Constant) and s.value.value is None)]
    ok = len(eq) == 1 and 'C_sym.sum(axis=1) / C_sym.sum()' in u(eq[0].value)
    ck.check(ok, rule + '.populations', mod, eq[0] if eq else fn, 'transpose', u(eq[0]) if eq else 'equilibrium',
             'populations = row sums of the SAME symmetrised matrix / its total',
             'populations must be C_sym.sum(axis=1) / C_sym.sum() of the matrix that was normalised '
             '(row sums; detailed balance with the returned T depends on it)')
    r = returns_of(fn)
    ok = len(r) == 1 and isinstance(r[0].value, ast.Tuple) and [u(e) for e in r[0].value.elts] == ['C_sym / 2', 'probs', 'equilibrium']
    ck.check(ok, rule + '.return', mod, r[0] if r else fn, 'transpose', u(r[0]) if r else 'return',
             'returns (C_sym/2, T, pi)', 'transpose must return (C_sym / 2, probs, equilibrium)')
    rc = [n for n in walk_local(fn) if isinstance(n, ast.If) and 'type(' in u(n.test)]
    ok = bool(rc) and any(u(s) == 'probs = type(%s)(probs)' % C for s in rc[0].body) and \
        any(u(s) == 'C_sym = type(%s)(C_sym)' % C for s in rc[0].body)
    ck.check(ok, 'C04.D5.container', mod, rc[0] if rc else fn, 'transpose', u(rc[0].test) if rc else 'recast',
             'outputs recast to the input container type', 'transpose must recast probs and C_sym to type(C)')


def d5_mle(ck, mod):
    rule = 'C04.D5.container'
    fn = mod.func('mle')
    fi = finfo(mod, fn)
    C = params(fn)[0]
    # no bare todense() flowing on
    for m2 in (mod,):
        for q, f in m2.functions.items():
            for c in calls_in(f):
                if isinstance(c.func, ast.Attribute) and c.func.attr == 'todense':
                    par = m2.parent.get(c)
                    wrapped = isinstance(par, ast.Call) and call_name(par) in ('np.array', 'np.asarray')
                    ck.check(wrapped, rule + '.no-matrix', m2, c, q, u(par) if wrapped else u(m2.enclosing_stmt(c)),
                             '.todense() is immediately wrapped into an ndarray',
                             'a bare .todense() yields np.matrix (2-D sums, matrix product for *), which breaks '
                             'the element-wise arithmetic downstream; use .toarray() or np.array(x.todense())')
    dens = [s for s in walk_local(fn) if isinstance(s, ast.Assign) and u(s.targets[0]) == C and
            isinstance(s.value, ast.Call) and isinstance(s.value.func, ast.Attribute)
            and s.value.func.attr in ('toarray', 'todense')]
    ok = len(dens) == 1 and dens[0].value.func.attr == 'toarray'
    g = mod.parent.get(dens[0]) if dens else None
    ok = ok and isinstance(g, ast.If) and 'issparse' in u(g.test)
    ck.check(ok, rule + '.densify', mod, dens[0] if dens else fn, 'mle', u(dens[0]) if dens else 'C = C.toarray()',
             'sparse input densified to an ndarray before the iteration', 'mle must densify sparse input with .toarray() under issparse(C)')
    st = [s for s in walk_local(fn) if isinstance(s, ast.Assign) and u(s.targets[0]) == 'sparsetype']
    ok = len(st) == 2 and any(u(s.value) == 'np.array' for s in st) and any(u(s.value) == 'type(%s)' % C for s in st)
    ck.check(ok, rule + '.rewrap', mod, st[0] if st else fn, 'mle', '; '.join(u(s) for s in st),
             'container constructor remembered (np.array for dense, type(C) for sparse)',
             'mle must remember the input container type before densifying')
    if len(st) == 2 and dens:
        tc = [s for s in st if u(s.value) == 'type(%s)' % C]
        ok = bool(tc) and fi.cfg.dominates(tc[0], dens[0])
        ck.check(ok, rule + '.rewrap', mod, tc[0] if tc else fn, 'mle', 'sparsetype = type(C) before C = C.toarray()',
                 'type recorded before densification', 'sparsetype must be taken BEFORE C is densified')
    wraps = {u(s.targets[0]): u(s.value) for s in walk_local(fn) if isinstance(s, ast.Assign)
             and isinstance(s.value, ast.Call) and u(s.value.func) == 'sparsetype'}
    ck.check(wraps == {C: 'sparsetype(%s)' % C, 'T': 'sparsetype(T)'}, rule + '.rewrap', mod, fn, 'mle', str(wraps),
             'C and T are re-wrapped in the input container', 'mle must return sparsetype(C), sparsetype(T)')
    # unpack order of _prinz_mle_py: (T, pi)
    for s in walk_local(fn):
        if isinstance(s, ast.Assign) and isinstance(s.value, ast.Call) and call_name(s.value) in ('_prinz_mle_py', '_prinz_mle'):
            t = s.targets[0]
            ok = isinstance(t, ast.Tuple) and u(t.elts[0]) == 'T' and u(t.elts[1]) in ('equilibrium', '_') and \
                [u(a) for a in s.value.args] == [C]
            ck.check(ok, 'C04.D6.mle-unpack', mod, s, 'mle', u(s), '(T, pi) unpacked in order from the estimator on the densified counts',
                     'the estimator returns (T, pi); mle must unpack it in that order from the counts with priors')
    r = returns_of(fn)
    ok = len(r) == 1 and u(r[0].value) == '(%s, T, equilibrium)' % C
    ck.check(ok, 'C04.D6.mle-unpack', mod, r[0] if r else fn, 'mle', u(r[0]) if r else 'return', 'returns (C, T, pi)', 'mle must return (C, T, equilibrium)')
    fnn = mod.func('normalize')
    r = returns_of(fnn)
    ok = len(r) == 1 and u(r[0].value) == '(%s, probs, equilibrium)' % params(fnn)[0]
    pr = [s for s in assigns_to(fnn, 'probs') if isinstance(s, ast.Assign)]
    ok = ok and len(pr) == 1 and u(pr[0].value) == '_row_normalize(%s)' % params(fnn)[0]
    eq = [s for s in assigns_to(fnn, 'equilibrium') if isinstance(s, ast.Assign) and u(s.value) != 'None']
    ok = ok and len(eq) == 1 and u(eq[0].value) == 'eq_probs(probs)'
    ck.check(ok, 'C04.D6.normalize', mod, r[0] if r else fnn, 'normalize', '%s ; %s' % (u(pr[0]) if pr else '?', u(eq[0]) if eq else '?'),
             'T = row-normalised counts; pi = stationary vector of that T', 'normalize must return (C, _row_normalize(C), eq_probs(T))')


def check(ck):
    mod = ck.repo.mod(BU)
    d1_prior_first(ck, mod)
    d3_row_normalize(ck, mod)
    d3_transpose(ck, mod)
    d5_mle(ck, mod)
    check_spectrum(ck, 'C04.D6')
    check_no_arg_mutation(ck, 'C04.D2.inputs-unmodified', [
        (BU, 'mle'), (BU, 'transpose'), (BU, 'normalize'),
        (BU, '_apply_prior_counts'), (BU, '_row_normalize'),
        (BU, '_prinz_mle_py'), (BU, '_prinz_mle'), (TM, 'eq_probs'),
        (TM, 'eigenspectrum'), (LM, '_mle_prinz_dense')])
    return EXPLANATION

"""C04 Builders: prior counts first, caller's matrix unchanged, row
orientation, zero-row guard, container discipline, stationary vector.

The builders are loop-free, so the rules are decided on the SYMBOLIC VALUE
of every feasible return path (msm_common.SymExec): each local is replaced by
the expression over the parameters it holds on that path, and the branch
conditions of the path are kept.  Constructs are then located by role ("the
argument of the estimator call", "the diagonal operand of the product", "the
mask of the store into the zero vector") inside that value, never by the
names of locals or the position of statements, and compared with lists of
accepted forms (three-valued: accepted / a different pure function of the
same operands = violation / not recognised = analysis incomplete)."""
import ast

from ..core import base_name, call_name, const_value, params, u, walk_local
from ..patterns import calls_in, check_no_arg_mutation, finfo
from .msm_common import (BU, TM, LM, Once, _distinct, _sigs, abbreviate,
                         check_spectrum, closed_over, norm, paths_or_missing,
                         sclassify, smatch, sparsity_cond, strip_conversions)

EXPLANATION = (
    'Static decision of the structural necessary conditions of the builder '
    'contract: (D1) every builder applies prior counts first and every later '
    'use of the counts sees that definition; (D2) no store reaches the '
    'caller\'s matrix (alias/effects incl. scipy csr_matrix(C)/asfptype views '
    'and .data); (D3) row normalisation scales ROWS by 1/row-sum in both the '
    'dense (column-vector broadcast) and the sparse (LEFT diagonal product) '
    'branch, and the transpose builder derives populations from the same '
    'symmetrised matrix it normalises; (D4) reciprocal weights are taken only '
    'under the weights > 0 mask, into a zero-initialised vector, and inside the '
    'reversible estimator every division by a count deficit rowsum(C)[p] - C[p, q] '
    '(zero for a state with all its counts in one cell: one-state chain, two-state '
    'flip chain) is dominated by a test excluding zero; (D5) sparse '
    'input is densified with an ndarray (never bare np.matrix) and outputs are '
    're-wrapped in the input container; (D6) the stationary vector is the '
    'sum-normalised leading left eigenvector under a descending-real-part '
    'order applied to values and columns alike; (D5, scipy transfer table) the '
    'counts-with-prior are never the np.matrix of `sparse + ndarray`, no '
    'container-dependent operation (axis-less .sum(): bsr; `/ int`: lil, dok) is '
    'applied to a matrix still in the caller\'s container, and the sparse row '
    'sums are not formed in the float32 that asfptype() gives small integer '
    'dtypes; (D7, reversible estimator) the pair returned is (X / column of row sums of X, R / sum(R)) for a matrix X that starts '
    'symmetric by construction and whose off-diagonal cells are only stored into in mirrored pairs with one value, R starts as rowsum(X) '
    'and every store into a cell of row p comes with R[p] += new - old (old read before the store, the two cells of a pair are different '
    'cells), every value stored into X is >= 0 and finite under the sign abstraction with the invariants C >= 0, rowsum(C)[p] >= C[p, q], '
    'X >= 0, rowsum(X)[p] >= X[p, q] (roots of provably non-negative radicands, provably non-zero divisors), and no assert of the '
    'estimator contradicts those invariants or the row-stochasticity of T; (D6, dispatch) for dense and sparse T of every size class the '
    'call eq_probs makes into eigenspectrum, with its constant arguments substituted, reaches a solver that accepts T and never a raise. '
    'Stochasticity/stationarity/detailed balance as numerical identities, and that the pair update solves the Prinz quadratic '
    '(C12.D3.reference), are not decided here.')

PRIOR = 'PRIOR__'        # symbol for _apply_prior_counts(C, prior_counts)
ESTIMATORS = ('_prinz_mle_py', '_prinz_mle', '_mle_prinz_dense')


def _names(node, name):
    return [n for n in ast.walk(node) if isinstance(n, ast.Name) and n.id == name]


def _calls(node, *names):
    return [c for c in ast.walk(node) if isinstance(c, ast.Call) and (call_name(c) or '').split('.')[-1] in names]


def _is_none(node):
    return isinstance(node, ast.Constant) and node.value is None


def _asked(p, calc, sigs):
    """Are the populations asked for on this path?  True / False from the
    branch condition on `calc`; None if the path does not depend on it;
    'unknown' if it tests `calc` in a form the rule does not read."""
    want = p.pol([calc], sigs)
    if want is None and any(_names(e, calc) for e in p.exprs()[1:]):
        return 'unknown'
    return want


def _pops(o, rule, p, calc, sigs, e2, forms, scope, ok_text, bad_text, construct):
    """Third element of a builder result: the populations when asked for,
    None (or the populations) when not."""
    want = _asked(p, calc, sigs)
    if _is_none(e2) and want is False:
        return o.check(True, rule, e2, 'no populations when not asked', '', construct='%s=False: pi -> None' % calc)
    if _is_none(e2) and want == 'unknown':
        return o.missing(rule, 'the path tests `%s` in an unfamiliar form; cannot tell whether populations were asked for' % calc)
    v = sclassify(e2, forms, scope, sigs)
    return o.decide(v, rule, e2, ok_text, bad_text, construct=construct if v[0] == 'match' else None)


# ---------------------------------------------------------------------------
# container provenance of `counts + prior`
#
# scipy transfer facts used (scipy.sparse._base / _data, all *_matrix classes):
#   spmatrix + python/numpy scalar (non-zero)  raises NotImplementedError
#   spmatrix + ndarray                          is an np.matrix
#   spmatrix + spmatrix                         is an spmatrix
#   ndarray  + scalar / ndarray                 is an ndarray
# np.matrix is neither the container that was passed in nor the ndarray that
# "adding prior counts to a sparse matrix legitimately densifies it" promises:
# `*` is the matrix product on it, axis sums stay 2-D, x[i] is a 1 x n matrix
# (the Prinz iteration stores matrices into cells and raises ValueError).

_MATRIX_T = ('np.matrix', 'numpy.matrix')


def _is_matrix_test(e, of=None):
    """`e` is isinstance(<x>, np.matrix) (for x == `of`, if given)."""
    if not (isinstance(e, ast.Call) and call_name(e) == 'isinstance' and len(e.args) == 2 and not e.keywords):
        return False
    t = e.args[1]
    ts = t.elts if isinstance(t, ast.Tuple) else [t]
    if not all(u(x) in _MATRIX_T for x in ts):
        return False
    return of is None or u(e.args[0]) == u(of)


def _matrix_excluded(p, v):
    """Polarity of a path condition isinstance(<v>, np.matrix) (None: untested)."""
    for k, (pol, node) in p.conds.items():
        if k[0] != 'raises' and _is_matrix_test(node, v):
            return pol
    return None


def _sum_operands(v):
    if isinstance(v, ast.BinOp) and isinstance(v.op, ast.Add):
        return [v.left, v.right]
    if isinstance(v, ast.Call) and call_name(v) in ('np.add', 'numpy.add') and len(v.args) == 2 and not v.keywords:
        return list(v.args)
    return None


def _prior_value_kind(p, C):
    """Container of the value a path of _apply_prior_counts returns:
    'same' (the argument itself), 'ndarray' (base ndarray by construction, or
    a sum that the path has tested not to be an np.matrix), 'matrix?' (sum of
    the bare, possibly sparse, argument: np.matrix for sparse counts and an
    array-valued prior), None (not recognised)."""
    v = p.value
    if isinstance(v, ast.Name) and v.id == C:
        return 'same'
    if _ensures_ndarray(v):
        return 'ndarray'
    ops = _sum_operands(v)
    if ops is None:
        return None
    if any(_ensures_ndarray(x) for x in ops):
        return 'ndarray'
    if any(_counts_of(x, C) for x in ops):
        return 'ndarray' if _matrix_excluded(p, v) is False else 'matrix?'
    return None


def _prior_container(o, p, C, pc):
    """The counts-with-prior handed to the builders are an ndarray or a sparse
    matrix on every path - never the np.matrix scipy makes of
    `sparse matrix + ndarray`."""
    rule = 'C04.D5.container.prior-no-matrix'
    kind = _prior_value_kind(p, C)
    if kind is None:
        return                      # content of the sum is decided by C04.D1.prior-first.add
    o.check(kind != 'matrix?', rule, p.value,
            'the sum with the prior is an ndarray by construction (or tested not to be an np.matrix)',
            '_apply_prior_counts returns the bare sum of the (possibly sparse) counts and the prior: for a scipy sparse matrix and an '
            'array-valued prior (documented: "int or array, shape=(n_states, n_states)") scipy returns an np.matrix, which mle passes '
            'to the Prinz iteration (issparse is False: no densification; X[i, i] = <1x1 matrix> raises ValueError) and which '
            'normalize/transpose hand back as the counts; convert it (np.asarray) or densify the counts before adding',
            construct='prior given: counts + prior as ndarray' if kind != 'matrix?' else
            'prior given: bare sum of the possibly sparse counts and the prior (np.matrix for sparse + array)')


# ---------------------------------------------------------------------------
# D1: prior counts first

def builder_paths(ck, mod, b, sigs):
    """Return paths of builder `b` with `_apply_prior_counts(C, prior)`
    abbreviated to PRIOR__, after deciding D1 for that builder."""
    rule = 'C04.D1.prior-first'
    fn = mod.func(b)
    ck.analysed(mod, fn)
    C, pc = params(fn)[0], params(fn)[1]
    paths = paths_or_missing(ck, rule, mod, fn, b)
    if paths is None:
        return fn, None
    o = Once(ck, mod, fn, b)
    ptext = u(norm(ast.parse('_apply_prior_counts(%s, %s)' % (C, pc), mode='eval').body, sigs))
    aps = [p.abbrev({ptext: PRIOR}, sigs) for p in paths if p.kind == 'return']
    if not aps:
        ck.missing(rule, '%s has no return path' % b)
        return fn, None
    exprs = [e for p in aps for e in p.exprs()]
    has_prior = [p for p in aps if _names(p.value, PRIOR)]
    other = [c for e in exprs for c in _calls(e, '_apply_prior_counts')]
    uses_pc = any(_names(e, pc) for e in exprs)
    if len(has_prior) == len(aps):
        o.check(True, rule, None, 'the counts every result is computed from are _apply_prior_counts(%s, %s)' % (C, pc), '',
                construct='%s = _apply_prior_counts(%s, %s)' % (C, C, pc))
    elif other:
        o.check(False, rule, other[0], '',
                '%s must start with %s = _apply_prior_counts(%s, %s): estimating first and adding '
                'pseudocounts later (or never) changes every probability; here the prior is applied to %s'
                % (b, C, C, pc, u(other[0])[:120]))
    elif not uses_pc and not has_prior:
        o.check(False, rule, None, '', '%s never uses `%s`: prior counts are ignored (the builder must start with '
                '%s = _apply_prior_counts(%s, %s))' % (b, pc, C, C, pc), construct='%s: no use of %s' % (b, pc))
    elif has_prior:
        bad = [p for p in aps if not _names(p.value, PRIOR)][0]
        o.check(False, rule, bad.stmt, '', 'a return path of %s computes its result without the prior counts' % b)
    else:
        ck.missing(rule, '%s uses `%s` but not through _apply_prior_counts(%s, %s): prior handling not recognised' % (b, pc, C, pc))
    raw = sorted((n for e in exprs for n in _names(e, C)), key=lambda n: getattr(n, 'lineno', 10 ** 6))
    o.check(not raw, rule, raw[0] if raw else None, 'every use of the counts includes the prior',
            'a use of `%s` can still see the raw argument (without prior counts)' % C,
            construct=None if raw else 'uses of %s after the prior' % C)
    if len(has_prior) != len(aps):
        return fn, None      # the counts-with-prior cannot be identified: the structure rules have no anchor
    return fn, aps


def d1_apply_prior(ck, mod, sigs):
    rule = 'C04.D1.prior-first.add'
    fa = mod.func('_apply_prior_counts')
    F = '_apply_prior_counts'
    ck.analysed(mod, fa)
    C, pc = params(fa)[:2]
    o = Once(ck, mod, fa, F)
    paths = paths_or_missing(ck, rule, mod, fa, F)
    n_add = n_id = 0
    added = ['%s + %s' % (C, pc), '%s + %s' % (pc, C), 'np.add(%s, %s)' % (C, pc)]
    for d in ('np.array(%s.todense())', 'np.asarray(%s.todense())', '%s.toarray()', '%s.todense().A', '%s.A',
              'np.asarray(%s.toarray())', 'np.array(%s.toarray())'):
        added += ['%s + %s' % (d % C, pc), '%s + %s' % (pc, d % C)]
    # (wrapping the sum into an ndarray only turns the np.matrix of `sparse + array` into an ndarray)
    added += [w % a for a in list(added) for w in ('np.asarray(%s)', 'np.array(%s)')]
    for p in (paths or []):
        if p.kind != 'return':
            continue
        v = p.value
        none = p.pol(['%s is None' % pc], sigs)
        tests_pc = any(_names(e, pc) for e in p.exprs()[1:] if not _is_matrix_test(e))
        if none is None and tests_pc:
            g = [e for e in p.exprs()[1:] if _names(e, pc) and not _is_matrix_test(e)]
            if all(closed_over(e, {pc}) for e in g):
                # a different pure test of the prior alone (truthiness, == 0 ...)
                o.check(False, rule, g[0], '', 'prior must be applied iff it is not None: the guard `%s` is a different test of `%s` '
                        '(truthiness fails for array priors and skips a prior of 0)' % (u(g[0])[:60], pc), construct='guard: %s' % u(g[0])[:100])
            else:
                o.missing(rule, 'guard of _apply_prior_counts is not a test `%s is None`: %s' % (pc, [u(e)[:60] for e in g]))
            continue
        if none is True or (none is None and u(v) == C):
            n_id += 1
            ok = none is True
            if u(v) == C:
                o.check(ok, rule, p.stmt, 'no prior -> counts returned unchanged',
                        'prior must be applied iff it is not None: a path returns the counts unchanged without having tested `%s is None`' % pc,
                        construct='%s is None -> %s' % (pc, u(v)) if ok else 'return %s' % u(v))
            else:
                o.decide(sclassify(v, [C], {C, pc}, sigs), rule, v, '', 'without prior counts the counts must be returned unchanged',
                         construct='%s is None -> %s' % (pc, u(v)[:120]))
            continue
        n_add += 1
        o.decide(sclassify(v, added, {C, pc}, sigs), rule, v, 'C + prior_counts builds a new matrix',
                 '_apply_prior_counts must return C + prior_counts (a new object) whenever a prior is given',
                 construct='%s is not None -> %s' % (pc, u(v)[:120]))
        _prior_container(o, p, C, pc)
    if paths is not None:
        ck.floor(rule, n_add, 1, 'path adding the prior counts')
        ck.floor(rule, n_id, 1, 'path for prior_counts=None')
    # the sum must be a NEW object: no augmented assignment on (an alias of) the argument
    alias = {C}
    for s in walk_local(fa):
        if isinstance(s, ast.Assign) and isinstance(s.value, ast.Name) and s.value.id in alias:
            alias.update(t.id for t in s.targets if isinstance(t, ast.Name))
    ia = [s for s in walk_local(fa) if isinstance(s, ast.AugAssign) and base_name(s.target) in alias]
    ck.check(not ia, rule, mod, ia[0] if ia else fa, F, u(ia[0]) if ia else 'no augmented assignment',
             'no augmented assignment on the caller\'s matrix', '`C += prior_counts` would modify the caller\'s matrix in place')


# ---------------------------------------------------------------------------
# D3/D4/D5: _row_normalize

def _counts_of(node, C):
    """Is `node` the count matrix `C` up to value-preserving conversions
    (csr_matrix(C), .asfptype(), np.array(C), .astype(float) ...)?"""
    while True:
        node = strip_conversions(node)
        if isinstance(node, ast.Call) and (call_name(node) or '').split('.')[-1] in (
                'csr_matrix', 'csc_matrix', 'coo_matrix', 'lil_matrix', 'csr_array') and len(node.args) == 1 and \
                all(k.arg == 'dtype' for k in node.keywords):
            node = node.args[0]
        elif isinstance(node, ast.Call) and isinstance(node.func, ast.Attribute) and node.func.attr == 'astype' and \
                len(node.args) == 1 and u(node.args[0]) in ('float', 'np.float64', 'np.float_', "'float'", "'float64'"):
            node = node.func.value
        else:
            break
    return isinstance(node, ast.Name) and node.id == C


_TO_NDARRAY = ('np.array', 'np.asarray', 'np.ascontiguousarray', 'np.asfortranarray', 'numpy.array', 'numpy.asarray')


def _ensures_ndarray(node):
    """Some layer of the conversion chain around `node` guarantees a BASE-CLASS
    ndarray whatever array-like comes in: np.array / np.asarray (without
    subok=True), .toarray(), .A.  (.copy(), .astype(), np.asanyarray keep an
    np.matrix an np.matrix: `*` stays the matrix product, sums stay 2-D.)"""
    while True:
        if isinstance(node, ast.Call) and call_name(node) in _TO_NDARRAY:
            so = [k for k in node.keywords if k.arg == 'subok']
            return not so or (isinstance(so[0].value, ast.Constant) and so[0].value.value is False)
        if isinstance(node, ast.Call) and getattr(node, '_from_np_array', False):
            return True                  # np.array(name), spelled name.copy() by the canonical form
        if isinstance(node, ast.Call) and isinstance(node.func, ast.Attribute) and node.func.attr == 'toarray':
            return True
        if isinstance(node, ast.Attribute) and node.attr == 'A':
            return True
        if isinstance(node, ast.Call) and isinstance(node.func, ast.Attribute) and node.func.attr in ('copy', 'astype', 'view') and \
                not getattr(node, '_from_np_array', False):
            node = node.func.value
        elif isinstance(node, ast.Call) and call_name(node) in ('np.asanyarray', 'np.copy') and node.args:
            node = node.args[0]
        else:
            return False


def _matrix_may_reach(ck, mod, sigs):
    """Can an np.matrix reach `_row_normalize` although the callers only pass
    ndarrays and sparse matrices?  `sparse + dense array` is an np.matrix in
    scipy, so `C + prior_counts` in _apply_prior_counts yields one for sparse
    counts with an array-valued prior ("adding prior counts to a sparse matrix
    legitimately densifies it").  True: some return value of
    _apply_prior_counts is such a sum of the bare argument; False: every sum
    is taken of / wrapped into an ndarray; None: not recognised."""
    fa = mod.func('_apply_prior_counts')
    if fa is None:
        return None
    try:
        from .msm_common import symexec
        paths = symexec(fa, sigs)
    except Exception:
        return None
    C = params(fa)[0]
    verdict = False
    for p in paths:
        if p.kind != 'return':
            continue
        kind = _prior_value_kind(p, C)
        if kind is None:
            return None
        if kind == 'matrix?':
            verdict = True
    return verdict


DIAG_FORMS = ['scipy.sparse.dia_matrix((_IW, 0), _SH).tocsr()', 'scipy.sparse.dia_matrix((_IW, 0), _SH)',
              'scipy.sparse.dia_matrix((_IW, 0), _SH).tocsc()', 'scipy.sparse.dia_matrix((_IW, [0]), _SH).tocsr()',
              'scipy.sparse.diags(_IW)', 'scipy.sparse.diags(_IW, 0)', 'scipy.sparse.diags(_IW).tocsr()',
              'scipy.sparse.diags(_IW, 0).tocsr()', 'scipy.sparse.diags([_IW], [0])', 'scipy.sparse.diags([_IW], [0]).tocsr()',
              'scipy.sparse.spdiags(_IW, 0, _N1, _N2)', 'scipy.sparse.spdiags(_IW, 0, _N1, _N2).tocsr()']
COLUMN_FORMS = ['_IW[:, None]', '_IW.reshape(_N1, 1)', 'np.expand_dims(_IW, 1)', 'np.expand_dims(_IW, axis=1)',
                'np.expand_dims(_IW, -1)', '_IW[:, None].copy()']


def _dense_ndarray(o, sigs, C, A, node, what):
    """Dense branch: `A` (the counts up to conversions) is used in a way that is
    only right for a base ndarray."""
    rule = 'C04.D5.container.dense-ndarray'
    if _ensures_ndarray(A):
        return o.check(True, rule, node, 'the dense branch converts its input to a base ndarray before element-wise arithmetic', '',
                       construct='dense: counts as ndarray (%s)' % u(A)[:60])
    reach = _matrix_may_reach(o.ck, o.mod, sigs)
    if reach is False:
        return o.check(True, rule, node, '_apply_prior_counts never returns np.matrix: only ndarrays reach the dense branch', '',
                       construct='dense: counts are ndarray at the producer')
    if reach is None:
        return o.missing(rule, 'the dense branch of _row_normalize uses `%s` without np.array/np.asarray and the values returned by '
                         '_apply_prior_counts are not recognised: cannot tell whether np.matrix can reach it' % u(A)[:60])
    return o.check(False, rule, node, '',
                   'the dense branch must turn its input into a base ndarray (C = np.array(C)) first: sparse counts + array-valued '
                   'prior_counts is an np.matrix (scipy), for which %s only after the conversion; on np.matrix `*` is the MATRIX '
                   'product and axis sums stay 2-D, so T is no longer counts / row totals' % what,
                   construct='dense: `%s` used without ndarray conversion' % u(A)[:60])


_F64 = ('float', 'np.float64', 'np.float_', 'np.double', "'float'", "'float64'", "'d'", "'f8'")


def _sum_precision(node, C):
    """Floating type in which the row sums of the SPARSE counts are formed,
    read off the conversion chain between the parameter and `.sum(axis=1)`
    (outermost conversion first):
      'float64'  an explicit cast to double decides (.astype(np.float64), dtype=float)
      'fptype'   the counts go through .asfptype() and no cast to double follows:
                 scipy upcasts int8/uint8/int16/uint16/bool to float32 ONLY, so the
                 sums and 1/sum carry single precision
      'native'   no floating conversion: integer counts are summed exactly (scipy
                 widens the accumulator) and 1.0/sum is a double
      None       the chain does not end at the parameter."""
    seen_fp = False
    while True:
        if isinstance(node, ast.Call) and isinstance(node.func, ast.Attribute) and not node.args and not node.keywords and \
                node.func.attr in ('tocsr', 'tocsc', 'tocoo', 'tolil', 'copy'):
            node = node.func.value
        elif isinstance(node, ast.Call) and isinstance(node.func, ast.Attribute) and node.func.attr == 'asfptype' and \
                not node.args and not node.keywords:
            seen_fp = True
            node = node.func.value
        elif isinstance(node, ast.Call) and isinstance(node.func, ast.Attribute) and node.func.attr == 'astype' and \
                len(node.args) + len(node.keywords) >= 1:
            t = u((node.args + [k.value for k in node.keywords if k.arg == 'dtype'] + [None])[0]) if (
                node.args or any(k.arg == 'dtype' for k in node.keywords)) else None
            if t in _F64:
                return 'float64'    # (a later .asfptype() leaves a double a double)
            return None             # a cast to some other type: not modelled
        elif isinstance(node, ast.Call) and (call_name(node) or '').split('.')[-1] in (
                'csr_matrix', 'csc_matrix', 'coo_matrix', 'lil_matrix') and \
                len(node.args) + sum(1 for k in node.keywords if k.arg == 'arg1') == 1:
            dt = [k.value for k in node.keywords if k.arg == 'dtype']
            if any(k.arg not in ('arg1', 'dtype', 'copy') for k in node.keywords):
                return None
            if dt:
                return 'float64' if u(dt[0]) in _F64 else None
            node = (node.args + [k.value for k in node.keywords if k.arg == 'arg1'])[0]
        elif isinstance(node, ast.Name) and node.id == C:
            return 'fptype' if seen_fp else 'native'
        else:
            return None


def _dense_sum_precision(node, C):
    """Floating type in which the row sums of the DENSE counts are formed: 'float64' if some layer of the conversion chain
    between the parameter and `.sum(axis=1)` casts to double (np.array(C, dtype=np.float64), .astype(float), np.float64(C)),
    'native' if the chain reaches the parameter without such a cast, None if it is not recognised."""
    while True:
        if isinstance(node, ast.Call) and isinstance(node.func, ast.Attribute) and node.func.attr == 'astype' and \
                len(node.args) + len(node.keywords) >= 1:
            t = [u(x) for x in node.args[:1]] + [u(k.value) for k in node.keywords if k.arg == 'dtype']
            if t and t[0] in _F64:
                return 'float64'
            return None
        if isinstance(node, ast.Call) and isinstance(node.func, ast.Attribute) and node.func.attr in ('copy', 'toarray', 'todense') \
                and not node.args and not node.keywords:
            node = node.func.value
            continue
        cn = call_name(node) if isinstance(node, ast.Call) else None
        if cn in ('np.float64', 'np.double') and len(node.args) == 1 and not node.keywords:
            return 'float64'
        if cn in _TO_NDARRAY + ('np.asanyarray', 'np.asmatrix'):
            dt = [k.value for k in node.keywords if k.arg == 'dtype'] + list(node.args[1:2])
            if any(k.arg not in ('dtype', 'copy', 'order', 'subok', 'ndmin', 'object', 'a') for k in node.keywords):
                return None
            if dt:
                return 'float64' if u(dt[0]) in _F64 else None
            src = list(node.args[:1]) + [k.value for k in node.keywords if k.arg in ('object', 'a')]
            if len(src) != 1:
                return None
            node = src[0]
            continue
        if isinstance(node, ast.Attribute) and node.attr == 'A':
            node = node.value
            continue
        if isinstance(node, ast.Name) and node.id == C:
            return 'native'
        return None


def _inv_weights(o, sigs, C, label, IW, dense):
    """IW must be  _store(zeros[W > 0], 1 / W[W > 0])  with W the row sums of C."""
    rule4 = 'C04.D4.zero-row'
    rule3 = 'C04.D3.row-orientation.weights'
    guard_msg = ('%s branch: 1/weights must be computed under the mask weights > 0 on both sides, into a zero vector '
                 '(division by a zero row sum gives inf/NaN rows)' % label)
    b = smatch('_store(_Z[_MASK], _VAL)', IW, sigs)
    if b is None:
        o.decide(sclassify(IW, ['_store(np.zeros(_N1)[0 < _W], 1.0 / _W[0 < _W])'], {C}, sigs), rule4, IW, '', guard_msg)
        return
    Z, MASK, VAL = b['_Z'], b['_MASK'], b['_VAL']
    o.decide(sclassify(Z, ['np.zeros(_N1)', 'np.zeros(_N1, dtype=float)', 'np.zeros(_N1, float)', 'np.zeros(_N1, dtype=np.float64)',
                           'np.zeros(_N1, np.float64)', 'np.zeros_like(_W1, dtype=float)', 'np.zeros(_N1, dtype=np.double)'], {C}, sigs),
             rule4, Z, 'rows without counts get weight 0 (initialised vector)',
             '%s branch: inv_weights must start as np.zeros(n_states) (np.empty would leave zero rows undefined)' % label,
             construct='%s: inv_weights starts as %s' % (label, u(Z)[:100]))
    bm = smatch(['0 < _W', '_W != 0'], MASK, sigs)
    if bm is None:
        o.decide(sclassify(MASK, ['0 < _W'], {C}, sigs), rule4, MASK, '', guard_msg, construct='%s: mask %s' % (label, u(MASK)[:120]))
        return
    W = bm['_W']
    m = u(MASK)
    vforms = ['1.0 / _W[%s]' % m, '1 / _W[%s]' % m, 'np.reciprocal(_W[%s])' % m, '1.0 / _W[%s].astype(float)' % m,
              'np.divide(1.0, _W[%s])' % m, 'np.divide(1, _W[%s])' % m]
    o.decide(sclassify(VAL, vforms, {C}, sigs, binds={'_W': W}), rule4, VAL,
             'reciprocal taken only where weights > 0, same mask on both sides', guard_msg,
             construct='%s: inv_weights[m] = 1/weights[m], m = %s' % (label, 'weights > 0' if m.startswith('0 <') else 'weights != 0')
             if smatch(vforms, VAL, sigs, {'_W': W}) is not None else None)
    wforms = ['np.asarray(_A.sum(axis=1)).flatten()', 'np.asarray(_A.sum(axis=1)).ravel()', 'np.array(_A.sum(axis=1)).flatten()',
              'np.array(_A.sum(axis=1)).ravel()', 'np.asarray(_A.sum(axis=1)).reshape(-1)', '_A.sum(axis=1).A1',
              'np.asarray(_A.sum(1)).flatten()', 'np.asarray(_A.sum(1)).ravel()', 'np.asarray(_A.sum(axis=-1)).flatten()',
              'np.squeeze(np.asarray(_A.sum(axis=1)))', 'np.asarray(_A.sum(axis=1)).squeeze()']
    flat = list(wforms)
    if dense:
        wforms += ['_A.sum(axis=1)', '_A.sum(1)', '_A.sum(axis=-1)', 'np.asarray(_A.sum(axis=1))', '_A.sum(axis=1).flatten()']
    v = sclassify(W, wforms, {C}, sigs)
    if v[0] == 'match' and dense and smatch(flat, W, sigs) is None and _counts_of(v[1]['_A'], C):
        # 1-D only if the summed object is a base ndarray (np.matrix sums stay 2-D)
        _dense_ndarray(o, sigs, C, v[1]['_A'], W, 'the row sums `%s` are 1-D' % u(W)[:60])
    if v[0] == 'match' and dense and _counts_of(v[1]['_A'], C):
        # dtype provenance of the dense sums: ndarray.sum() accumulates float32 / float16 counts in THAT type, whereas the
        # sparse sibling casts to float64 first - only an explicit cast to double makes the two arms agree for every dtype
        prec = _dense_sum_precision(v[1]['_A'], C)
        rule6 = 'C04.D3.row-orientation.dense-precision'
        if prec is None:
            o.missing(rule6, 'conversion chain of the summed dense counts not recognised: %s' % u(v[1]['_A'])[:100])
        else:
            o.check(prec == 'float64', rule6, W, 'dense branch: the counts are cast to float64 before the row sums are taken',
                    'dense branch: the row sums are taken over the counts in the dtype they came in; float32 (float16) counts are '
                    'summed in single (half) precision, so rows of T sum to 1 only to ~1e-7 and T differs from the sparse result '
                    '(which casts to float64 first); convert explicitly: np.array(C, dtype=np.float64)',
                    construct='dense: row sums in float64' if prec == 'float64' else
                    'dense: row sums of the counts in their incoming dtype')
    if v[0] == 'match' and not dense and _counts_of(v[1]['_A'], C):
        # dtype provenance of the sums: the dense sibling sums the integers exactly and divides in double
        prec = _sum_precision(v[1]['_A'], C)
        rule5 = 'C04.D3.row-orientation.sparse-precision'
        if prec is None:
            o.missing(rule5, 'conversion chain of the summed sparse counts not recognised: %s' % u(v[1]['_A'])[:100])
        else:
            o.check(prec != 'fptype', rule5, W, 'sparse branch: row sums formed in double precision (or exactly, in integers)',
                    'sparse branch: the counts are converted with .asfptype() before the row sums are taken; scipy upcasts '
                    'int8/uint8/int16/uint16 (and bool) counts to float32 only, so weights and 1/weights carry single precision: '
                    'rows of T sum to 1 only to ~1e-8 and T differs from the dense result (which sums integers exactly and divides '
                    'in float64); cast explicitly: .astype(np.float64)',
                    construct='sparse: row sums in float64' if prec != 'fptype' else
                    'sparse: row sums of the counts converted with asfptype() (float32 for small integer dtypes)')
    if v[0] == 'match' and not _counts_of(v[1]['_A'], C):
        v = ('near' if closed_over(v[1]['_A'], {C}) else 'far', 1, 'row sums of %s' % C)
    o.decide(v, rule3, W, 'weights are ROW sums (axis=1) of the counts',
             '%s branch: normalisation weights must be the row sums C.sum(axis=1); column sums make '
             'columns, not rows, sum to one' % label, construct='%s: weights = row sums of the counts' % label if v[0] == 'match' else None)


def d3_row_normalize(ck, mod, sigs):
    rule = 'C04.D3.row-orientation'
    fn = mod.func('_row_normalize')
    F = '_row_normalize'
    ck.analysed(mod, fn)
    C = params(fn)[0]
    paths = paths_or_missing(ck, rule, mod, fn, F)
    if paths is None:
        return
    o = Once(ck, mod, fn, F)
    n = {True: 0, False: 0}
    for p in paths:
        if p.kind != 'return':
            continue
        sp = sparsity_cond(p, {C})
        if sp is None:
            o.missing(rule, 'sparse/dense branch in _row_normalize: a return path does not test issparse/isspmatrix(%s)' % C)
            continue
        n[sp] += 1
        o.check(True, rule + '.dispatch', None, 'branch on sparsity of the input', '', construct='isspmatrix/issparse(%s)' % C)
        v = p.value
        if sp:
            label = 'sparse'
            b = smatch('_recast(%s, _M)' % C, v, sigs)
            if b is None:
                o.decide(sclassify(v, ['_recast(%s, _M)' % C], {C}, sigs), 'C04.D5.container', v, '',
                         'sparse branch must return T in the container type of the input (type(C)(T))')
                M = v
            else:
                o.check(True, 'C04.D5.container', v, 'result recast to the input container type', '', construct='sparse: type(%s)(T)' % C)
                M = b['_M']
            M = strip_conversions(M)
            IW = None
            prod = smatch(['_L @ _R', '_L * _R', 'np.dot(_L, _R)'], M, sigs)
            if prod is not None:
                dl, dr = smatch(DIAG_FORMS, prod['_L'], sigs), smatch(DIAG_FORMS, prod['_R'], sigs)
                if dl is not None and _counts_of(prod['_R'], C):
                    IW = dl['_IW']
                    o.check(True, rule + '.sparse', M, 'T = D.dot(C): the diagonal weight matrix multiplies from the LEFT (scales rows)', '',
                            construct='sparse: diag(inv_weights) @ counts')
                elif dr is not None and _counts_of(prod['_L'], C):
                    IW = dr['_IW']
                    o.check(False, rule + '.sparse', M, '', 'sparse branch must compute diag(inv_weights).dot(C_csr); C.dot(D) scales columns')
            if IW is None:
                mult = smatch(['_A.multiply(%s)' % f for f in COLUMN_FORMS], M, sigs)
                if mult is not None and _counts_of(mult['_A'], C):
                    IW = mult['_IW']
                    o.check(True, rule + '.sparse', M, 'rows scaled elementwise by a column vector of inverse weights', '',
                            construct='sparse: counts.multiply(inv_weights[:, None])')
            if IW is None:
                o.decide(sclassify(M, ['scipy.sparse.dia_matrix((_IW, 0), _SH).tocsr() @ scipy.sparse.csr_matrix(%s).asfptype()' % C], {C}, sigs),
                         rule + '.sparse', M, '', 'sparse branch must compute diag(inv_weights).dot(C_csr) (a NEW matrix whose rows are '
                         'the rows of the counts scaled by 1/row-sum); C.dot(D) scales columns')
                continue
            _inv_weights(o, sigs, C, label, IW, False)
        else:
            label = 'dense'
            forms = []
            for cf in COLUMN_FORMS:
                forms += ['_A * %s' % cf, '%s * _A' % cf, 'np.multiply(_A, %s)' % cf, 'np.multiply(%s, _A)' % cf]
            forms += ['(_A.T * _IW).T', '(_IW * _A.T).T', 'np.diag(_IW) @ _A', 'np.dot(np.diag(_IW), _A)']
            M = v
            b = smatch(forms, M, sigs)
            if b is not None and not _counts_of(b['_A'], C):
                b2 = None
                # `x * y` is commutative: try the other reading
                for f in forms:
                    bb = smatch(f, M, sigs)
                    if bb is not None and _counts_of(bb['_A'], C):
                        b2 = bb
                        break
                b = b2
            if b is None:
                o.decide(sclassify(M, ['_A * _IW[:, None]'], {C}, sigs), rule + '.dense', M, '',
                         'dense branch must multiply C by inv_weights shaped (n, 1); a row-vector broadcast '
                         '(n,) / (1, n) scales columns by the weights of other rows')
                continue
            o.check(True, rule + '.dense', M, 'T[i, j] = C[i, j] * w[i]: weights broadcast as a COLUMN vector', '',
                    construct='dense: counts * inv_weights[:, None]')
            star = M.value if isinstance(M, ast.Attribute) and M.attr == 'T' else M
            if isinstance(star, ast.BinOp) and isinstance(star.op, ast.Mult):
                # `*` is element-wise (broadcast) only for base ndarrays
                _dense_ndarray(o, sigs, C, b['_A'], M, 'counts * inv_weights[:, None] is the element-wise (broadcast) product')
            _inv_weights(o, sigs, C, label, b['_IW'], True)
    ck.floor(rule + '.sparse', n[True], 1, 'sparse return path of _row_normalize')
    ck.floor(rule + '.dense', n[False], 1, 'dense return path of _row_normalize')


# ---------------------------------------------------------------------------
# D3/D5: transpose

# A test "do these two values live in the same container class?"
_TYPE_CMP = ['type(_A) is type(_B)', 'type(_A) == type(_B)', 'isinstance(_A, type(_B))', '_A.__class__ is _B.__class__',
             '_A.__class__ == _B.__class__', 'isinstance(_A, _B.__class__)', 'type(_A) is _B.__class__', '_A.__class__ is type(_B)']


def _container_class(e):
    """Container class of a symbolic value of `transpose`, as far as it is
    fixed by construction:
      'in'   the class of the builder's input (the counts with prior; type(C)(x))
      'sum'  the class scipy gives `C + C.T` (csr for coo/lil/dia input ...); the
             matrix _row_normalize returns is in the class of its ARGUMENT
             (decided by C04.D5.container in _row_normalize), so the normalised
             symmetrised counts are in this class too
      None   anything else (a transpose turns csr into csc, arithmetic with
             scalars may densify ...)."""
    while isinstance(e, ast.Call) and isinstance(e.func, ast.Attribute) and e.func.attr == 'copy' and not e.args and not e.keywords:
        e = e.func.value
    if isinstance(e, ast.Name):
        return 'in' if e.id == PRIOR else 'sum' if e.id in ('SYM__', 'PROBS__') else None
    if isinstance(e, ast.Call) and isinstance(e.func, ast.Name) and e.func.id == '_recast' and len(e.args) == 2:
        return _container_class(e.args[0])
    if isinstance(e, ast.Call) and isinstance(e.func, ast.Name) and e.func.id == '_row_normalize' and len(e.args) == 1 and not e.keywords:
        return _container_class(e.args[0])
    return None


def _type_tests(p, sigs):
    """Container-class comparisons among the conditions of path `p`:
    (same, vacuous, unread).  `same`: polarity of a test that compares the
    class of the INPUT with the class of the symmetrised / normalised matrix
    (None: no such test; 'both': contradictory tests); `vacuous`: [(polarity,
    node)] of tests between two values that are in the same class by
    construction - always true, they say nothing about the input's class;
    `unread`: tests whose operands the rule cannot place."""
    same, vacuous, unread = None, [], []
    for k, (pol, node) in p.conds.items():
        if k[0] == 'raises':
            continue
        b = smatch(_TYPE_CMP, node, sigs)
        if b is None:
            if 'type(' in u(node) or 'isinstance' in u(node) or '__class__' in u(node):
                unread.append(node)
            continue
        ca, cb = _container_class(b['_A']), _container_class(b['_B'])
        if ca is None or cb is None:
            unread.append(node)
        elif ca == cb:
            vacuous.append((pol, node))
        else:
            same = pol if same in (None, pol) else 'both'
    return same, vacuous, unread


def _show(e):
    """Symbolic value with the abbreviations of d3_transpose spelled out."""
    return u(e).replace('PROBS__', '_row_normalize(C + C.T)').replace('SYM__', '(C + C.T)').replace(PRIOR, 'C')


def _infeasible(p, sigs):
    """The path assumes that two values which are in the same container class
    by construction have different classes."""
    return any(pol is False for pol, _ in _type_tests(p, sigs)[1])


def _container(o, p, sigs, elt, inner, what):
    """`elt` must be `inner` when the input type already equals the type of
    the normalised matrix, and type(C)(inner) when it differs."""
    rule = 'C04.D5.container'
    same, vacuous, unread = _type_tests(p, sigs)
    if same == 'both':
        return None                     # contradictory type tests: not a feasible path
    sp = sparsity_cond(p, {PRIOR})
    msg = 'transpose must recast probs and C_sym to type(C) exactly when the types differ (C + C.T changes the sparse format)'
    if u(elt) == inner:
        if same is True or (same is None and sp is False):
            return o.check(True, rule, elt, 'same container type: returned as is', '', construct='%s: same type -> as is' % what)
        if same is None and sp is None and not unread and vacuous:
            g = vacuous[0][1]
            return o.check(False, rule, g, '', msg + '; the only type test in front of the recast, `%s`, compares two values that are in '
                           'the same container by construction (_row_normalize returns its result in the container of its argument, here '
                           'C + C.T): it never sees the type of the input, the recast is dead code and %s comes back in the container '
                           'of C + C.T (csr_matrix for coo/lil/dia input)' % (_show(g)[:100], what),
                           construct='%s: recast guarded by a type test that does not involve the input (%s)' % (what, _show(g)[:100]))
        if same is None and sp is None and not unread:
            return o.check(False, rule, elt, '', msg + '; %s is returned without ever being recast' % what)
        if same is False or sp is True:
            return o.check(False, rule, elt, '', msg + '; %s is returned as is on the path where the types differ' % what)
        return o.missing(rule, 'recast guard of transpose not recognised: %s' % [u(e)[:80] for e in p.exprs()[1:]])
    if u(elt) == '_recast(%s, %s)' % (PRIOR, inner):
        if same is False or (same is None and sp is True):
            return o.check(True, rule, elt, 'outputs recast to the input container type', '', construct='%s: type differs -> type(C)(...)' % what)
        if same is None and sp is None and (unread or vacuous):
            return o.missing(rule, 'recast guard of transpose not recognised: %s' % [u(e)[:80] for e in p.exprs()[1:]])
        return o.check(False, rule, elt, '', msg + '; %s is recast although the types agree (type(C)(x) is not a copy for ndarrays)' % what)
    # (SYM__ and PROBS__ are both functions of the counts: one in the slot of the other is a wrong operand in a located role)
    return o.decide(sclassify(elt, [inner, '_recast(%s, %s)' % (PRIOR, inner)], {PRIOR, inner, 'SYM__', 'PROBS__'}, sigs), rule, elt, '', msg)


# Operations whose result depends on WHICH of the eight containers holds the
# numbers (scipy.sparse transfer facts; ndarray, csr, csc, coo, dia behave alike):
#   X.sum() without axis   bsr_matrix: the (n_blocks, R, C) block array is wrapped into
#                          np.matrix -> ValueError as soon as there are >= 2 blocks
#                          larger than 1 x 1 (scipy picks 4x4 blocks for a full 8x8 matrix)
#   X / <integer literal>  lil_matrix, dok_matrix: the quotient keeps the integer dtype of
#                          X (result_type(X, 2) is X.dtype), i.e. FLOOR division; every
#                          other container returns float64.  X / 2.0, X * 0.5 are uniform.
# "The numbers are the same for dense input and every supported sparse format" needs
# every operation applied to a value that is still in the caller's container to be
# defined alike for all of them.
_CONTAINER_SYMS = (PRIOR, 'SYM__', 'PROBS__')
_CONTAINER_CALLS = ('_recast', '_apply_prior_counts', '_row_normalize')


def _in_input_container(e):
    """`e` is a matrix in the container type of the builder's input (or of a
    sum of such): the counts with prior, their transpose / symmetrisation, the
    normalised matrix, type(C)(...) of anything."""
    if isinstance(e, ast.Name):
        return e.id in _CONTAINER_SYMS
    if isinstance(e, ast.Attribute) and e.attr == 'T':
        return _in_input_container(e.value)
    if isinstance(e, ast.Call) and isinstance(e.func, ast.Attribute) and e.func.attr in ('transpose', 'copy') and not e.args:
        return _in_input_container(e.func.value)
    if isinstance(e, ast.Call) and isinstance(e.func, ast.Name) and e.func.id in _CONTAINER_CALLS:
        return True
    if isinstance(e, ast.BinOp) and isinstance(e.op, (ast.Add, ast.Sub)):
        return _in_input_container(e.left) and _in_input_container(e.right)
    return False


def _role(e):
    t = u(e)
    return ('the symmetrised counts' if 'SYM__' in t else 'the normalised matrix' if 'PROBS__' in t or '_row_normalize' in t
            else 'the counts')


def _uniform_ops(o, F, exprs):
    """No container-dependent operation on a value in the input's container
    inside the returned expressions."""
    rule = 'C04.D5.container.uniform-ops'
    n_bad = 0
    for e in exprs:
        for x in ast.walk(e):
            if isinstance(x, ast.Call) and isinstance(x.func, ast.Attribute) and x.func.attr == 'sum' and not x.args and \
                    not any(k.arg == 'axis' and not _is_none(k.value) for k in x.keywords) and _in_input_container(x.func.value):
                n_bad += 1
                o.check(False, rule + '.sum', x, '',
                        '%s: total of %s taken with the axis-less .sum() of the matrix while it is still in the caller\'s container: '
                        'bsr_matrix.sum() raises ValueError("shape too large to be a matrix") for two or more blocks larger than 1x1 '
                        '(e.g. any fully populated 8x8 count matrix); take the total from the row sums (row_sums.sum()) instead'
                        % (F, _role(x.func.value)),
                        construct='%s: axis-less .sum() of %s in the input container' % (F, _role(x.func.value)))
            if isinstance(x, ast.BinOp) and isinstance(x.op, ast.Div) and isinstance(x.right, ast.Constant) and \
                    isinstance(x.right.value, int) and not isinstance(x.right.value, bool) and _in_input_container(x.left):
                n_bad += 1
                o.check(False, rule + '.truediv', x, '',
                        '%s: %s are divided by the INTEGER literal %r while still in the caller\'s container: lil_matrix and dok_matrix '
                        'keep the integer dtype of the counts under `/ int` (floor division: every odd C_ij + C_ji loses its half, 0.5 '
                        'entries vanish) whereas ndarray and the other formats return float64; multiply by 0.5 or divide by %r.0'
                        % (F, _role(x.left), x.right.value, x.right.value),
                        construct='%s: %s / integer literal in the input container' % (F, _role(x.left)))
    if not n_bad:
        o.check(True, rule, None, 'every operation on a matrix in the caller\'s container is defined alike for all eight containers', '',
                construct='%s: operations on values in the input container' % F)


def d3_transpose(ck, mod, sigs):
    rule = 'C04.D3.transpose'
    fn, aps = builder_paths(ck, mod, 'transpose', sigs)
    if aps is None:
        return
    F = 'transpose'
    calc = params(fn)[2]
    o = Once(ck, mod, fn, F)
    n = 0
    for p0 in aps:
        v = p0.value
        if not (isinstance(v, ast.Tuple) and len(v.elts) == 3):
            o.missing(rule + '.return', 'transpose does not return a triple: %s' % u(v)[:120])
            continue
        rn = _distinct(c for e in p0.exprs() for c in _calls(e, '_row_normalize'))
        if len(rn) != 1 or not (rn[0].args or rn[0].keywords):
            o.missing(rule, 'one `_row_normalize(...)` call feeding the result of transpose (found %d)' % len(rn))
            continue
        S = (rn[0].args + [k.value for k in rn[0].keywords])[0]
        o.decide(sclassify(S, ['%s + %s.T' % (PRIOR, PRIOR), '%s.T + %s' % (PRIOR, PRIOR)], {PRIOR}, sigs), rule, S,
                 'probabilities from the symmetrised counts C + C^T', 'the matrix that is normalised must be the symmetrised counts C + C.T',
                 construct='_row_normalize(C + C.T)' if smatch(['%s + %s.T' % (PRIOR, PRIOR), '%s.T + %s' % (PRIOR, PRIOR)], S, sigs) is not None else None)
        p = p0.abbrev({u(rn[0]): 'PROBS__', u(S): 'SYM__'}, sigs)
        n += 1
        if _infeasible(p, sigs):
            continue        # e.g. type(C_sym) is not type(_row_normalize(C_sym)): cannot happen
        e0, e1, e2 = p.value.elts
        # probabilities
        _container(o, p, sigs, e1, 'PROBS__', 'probs')
        # symmetrised counts / 2
        b = smatch(['_S / 2', '_S / 2.0', '_S * 0.5', '0.5 * _S'], e0, sigs)
        if b is None:
            o.decide(sclassify(e0, ['SYM__ / 2'], {'SYM__', PRIOR, 'PROBS__'}, sigs), rule + '.return', e0, '',
                     'transpose must return (C_sym / 2, probs, equilibrium)')
        else:
            o.check(True, rule + '.return', e0, 'returns (C_sym/2, T, pi)', '', construct='return (C_sym / 2, probs, equilibrium)')
            _container(o, p, sigs, b['_S'], 'SYM__', 'C_sym')
        # populations: row sums of the SAME symmetrised matrix / its total
        pops = abbreviate(e2, {'_recast(%s, SYM__)' % PRIOR: 'SYM__'}, sigs)
        forms = []
        for w in ('np.array(%s)', 'np.asarray(%s)'):
            for f in ('.flatten()', '.ravel()', '.reshape(-1)'):
                forms.append(w % 'SYM__.sum(axis=1) / SYM__.sum()' + f)
                forms.append(w % 'SYM__.sum(axis=1)' + f + ' / SYM__.sum()')
                forms.append(w % 'SYM__.sum(1) / SYM__.sum()' + f)
                # SYM__ = C + C.T is symmetric: its column sums ARE its row sums
                forms.append(w % 'SYM__.sum(axis=0) / SYM__.sum()' + f)
        forms += ['(SYM__.sum(axis=1) / SYM__.sum()).A1', 'SYM__.sum(axis=1).A1 / SYM__.sum()']
        # ... with the total taken from the row sums themselves
        rows = [w % ('SYM__.sum(%s)' % a) + f for w in ('np.array(%s)', 'np.asarray(%s)', 'np.array(%s, dtype=float)', 'np.asarray(%s, dtype=float)')
                for a in ('axis=1', '1', 'axis=0') for f in ('.flatten()', '.ravel()', '.reshape(-1)')] + ['SYM__.sum(axis=1).A1']
        forms += ['%s / %s.sum()' % (r, r) for r in rows]
        _pops(o, rule + '.populations', p, calc, sigs, pops, forms, {'SYM__', PRIOR},
              'populations = row sums of the SAME symmetrised matrix / its total',
              'populations must be C_sym.sum(axis=1) / C_sym.sum() of the matrix that was normalised '
              '(row sums; detailed balance with the returned T depends on it)', 'populations = rowsum(C_sym) / sum(C_sym)')
        _uniform_ops(o, F, [e0, e1, pops])
    ck.floor(rule, n, 1, 'return path of transpose')


# ---------------------------------------------------------------------------
# D5/D6: mle, normalize, .todense()

def d5_todense(ck, mod):
    """A bare .todense() (np.matrix) must not flow into numeric code: the
    call - or every use of the temporary it is bound to - is the argument of
    np.array/np.asarray (or .A/.A1 is taken)."""
    rule = 'C04.D5.container.no-matrix'
    wrap = ('np.array', 'np.asarray', 'numpy.array', 'numpy.asarray', 'np.asanyarray')

    def wrapped(m2, x):
        par = m2.parent.get(x)
        if isinstance(par, ast.Call) and call_name(par) in wrap and (par.args[:1] == [x] or any(k.value is x for k in par.keywords)):
            return par
        if isinstance(par, ast.Attribute) and par.attr in ('A', 'A1'):
            return par
        return None
    for q, f in mod.functions.items():
        for c in calls_in(f):
            if not (isinstance(c.func, ast.Attribute) and c.func.attr == 'todense'):
                continue
            w = wrapped(mod, c)
            ok, shown = w is not None, u(w) if w is not None else u(mod.enclosing_stmt(c))
            st = mod.enclosing_stmt(c)
            if not ok and isinstance(st, ast.Assign) and st.value is c and len(st.targets) == 1 and isinstance(st.targets[0], ast.Name):
                fi = finfo(mod, f)
                t = st.targets[0].id
                uses = [x for x in walk_local(f) if isinstance(x, ast.Name) and x.id == t and isinstance(x.ctx, ast.Load)
                        and st in fi.defs_of_use(x)]
                ok = bool(uses) and all(wrapped(mod, x) is not None for x in uses)
            ck.check(ok, rule, mod, c, q, shown, '.todense() is immediately wrapped into an ndarray',
                     'a bare .todense() yields np.matrix (2-D sums, matrix product for *), which breaks '
                     'the element-wise arithmetic downstream; use .toarray() or np.array(x.todense())')


def _only_estimator_output(e):
    """`e` is a pure function of elements 0 / 1 of the estimator's result
    (T, pi) and of nothing else - in particular not of the counts.  (That the
    estimator returns exactly that pair is C04.D6.mle-result.)"""
    while isinstance(e, ast.Call) and isinstance(e.func, ast.Name) and e.func.id == '_recast' and len(e.args) == 2 and not e.keywords:
        e = e.args[1]               # type(<counts>)(x): the content is x
    uses = [x for x in ast.walk(e) if isinstance(x, ast.Name) and x.id == 'EST__']
    if not uses or not closed_over(e, {'EST__'}):
        return False
    subs = [x for x in ast.walk(e) if isinstance(x, ast.Subscript) and isinstance(x.value, ast.Name) and x.value.id == 'EST__'
            and _int_of(x.slice) in (0, 1)]
    return len(subs) == len(uses)


def d5_mle(ck, mod, sigs=None):
    """Densify / re-wrap / unpack rules of `mle` (also run by C12, which
    shares the F7 finding), including the bare-.todense() scan."""
    rule = 'C04.D5.container'
    sigs = sigs if sigs is not None else _sigs(ck)
    d5_todense(ck, mod)
    fn, aps = builder_paths(ck, mod, 'mle', sigs)
    if aps is None:
        return
    F = 'mle'
    calc = params(fn)[2]
    o = Once(ck, mod, fn, F)
    densified = ['%s.toarray()', 'np.asarray(%s.todense())', 'np.array(%s.todense())', '%s.todense().A', '%s.A',
                 '%s.toarray().astype(float)', 'np.asarray(%s.toarray())']
    densified = [d % PRIOR for d in densified]
    as_is = [PRIOR, 'np.asarray(%s)' % PRIOR, 'np.array(%s)' % PRIOR, 'np.asarray(%s, dtype=float)' % PRIOR, 'np.array(%s, dtype=float)' % PRIOR]
    n = 0
    for p0 in aps:
        v = p0.value
        if not (isinstance(v, ast.Tuple) and len(v.elts) == 3):
            o.missing('C04.D6.mle-unpack', 'mle does not return a triple: %s' % u(v)[:120])
            continue
        ests = _distinct(_calls(v, *ESTIMATORS))
        if len(ests) != 1 or not (ests[0].args or ests[0].keywords):
            o.missing('C04.D6.mle-unpack', 'one estimator call (_prinz_mle_py/_prinz_mle) feeding the result of mle (found %d)' % len(ests))
            continue
        n += 1
        E = ests[0]
        A = (E.args + [k.value for k in E.keywords])[0]
        sp = sparsity_cond(p0, {PRIOR})
        if sp is None:
            o.missing(rule + '.densify', 'mle does not branch on issparse(<counts with prior>): cannot tell which container reaches the estimator (%s)' % u(A)[:80])
            continue
        o.decide(sclassify(A, densified if sp else as_is, {PRIOR}, sigs), rule + '.densify', A,
                 'sparse input densified to an ndarray before the iteration' if sp else 'dense input reaches the estimator as it is',
                 'mle must densify sparse input with .toarray() under issparse(C) (np.matrix from .todense() or the sparse matrix itself '
                 'break the element-wise iteration)' if sp else 'on the dense path the estimator must get the counts (with prior) themselves',
                 construct='%s: estimator(%s)' % ('sparse' if sp else 'dense', u(A)))
        p = p0.abbrev({u(E): 'EST__'}, sigs)
        e0, e1, e2 = p.value.elts
        if sp:
            w0 = ['_recast(%s, %s)' % (PRIOR, d) for d in densified] + ['_recast(%s, %s)' % (PRIOR, PRIOR), PRIOR]
            w1 = ['_recast(%s, EST__[0])' % PRIOR]
        else:
            w0 = [w % d for d in as_is for w in ('np.array(%s)', 'np.asarray(%s)', '%s')]
            w1 = ['np.array(EST__[0])', 'np.asarray(EST__[0])', 'EST__[0]']
        label = 'sparse' if sp else 'dense'
        v0 = sclassify(e0, w0, {PRIOR}, sigs)
        if v0[0] == 'far' and _only_estimator_output(e0):
            # wrong operand in a located role: the counts slot carries (a pure function of) the estimator's T / pi alone
            v0 = ('near', v0[1], v0[2])
        o.decide(v0, rule + '.rewrap', e0,
                 'counts returned in the input container (type taken before densifying)',
                 'mle must return the counts re-wrapped in the input container: sparsetype(C) with sparsetype = type(C) '
                 'taken BEFORE densifying (np.array for dense input), on every return path',
                 construct='%s: C -> %s' % (label, u(e0)[:100]))
        if 'EST__[1]' in u(e1) and 'EST__[0]' not in u(e1):
            o.check(False, 'C04.D6.mle-unpack', e1, '', 'the estimator returns (T, pi); mle must unpack it in that order from the counts with priors')
        else:
            o.decide(sclassify(e1, w1, {PRIOR, 'EST__'}, sigs), rule + '.rewrap', e1,
                     'T re-wrapped in the input container',
                     'mle must return T re-wrapped in the input container (sparsetype(T)) on every return path',
                     construct='%s: T -> %s' % (label, u(e1)[:100]))
        _pops(o, 'C04.D6.mle-unpack', p, calc, sigs, e2, ['EST__[1]'], {PRIOR, 'EST__'},
              '(T, pi) unpacked in order from the estimator on the densified counts',
              'the estimator returns (T, pi); mle must return pi (element 1) as the populations when they are asked for',
              '%s: pi -> EST[1]' % label)
    ck.floor('C04.D6.mle-unpack', n, 1, 'return path of mle through the estimator')


# ---------------------------------------------------------------------------
# D4 (estimator): degenerate denominators
#
# The zero-row guard of _row_normalize has a counterpart inside the reversible
# estimator.  With C the non-negative counts and rs = C.sum(axis=1) > 0,
#     rs[p] - C[p, q]  >= 0,   and  == 0  iff state p has ALL its counts on q.
# A sum of such terms over distinct rows vanishes for admissible input: the
# one-state chain for (p, p), the two-state chain whose states only jump to
# each other for (i, j) + (j, i) - both strongly connected.  Dividing by (a
# constant multiple of) such a quantity therefore needs a test that excludes
# zero, dominating the division, on the very same quantity.  Decided per
# division: guarded / the quantity is never tested on the way = VIOLATION /
# tested in a form the rule does not read = analysis incomplete.  Denominators
# that depend on the iterate (X, its running row sums) need the invariant of
# the iteration and are not decided here.

_ROWSUM_WRAP = ('flatten', 'ravel', 'squeeze', 'copy')


def _est_counts(fi, e, P, st, depth=4):
    """`e`, evaluated at statement `st`, denotes the count matrix (parameter
    `P`) of the estimator, up to value-preserving conversions and rebinding
    (`C = C.copy().astype(float)`), and that matrix is never stored into."""
    e = strip_conversions(e)
    if not (isinstance(e, ast.Name) and depth > 0 and st is not None):
        return False
    try:
        defs = fi.rd.defs_at(st, e.id)
    except Exception:
        return False
    if not defs or 'UNBOUND' in defs or fi._mutated_in_place(e.id):
        return False
    for d in defs:
        if d == 'PARAM':
            if e.id != P:
                return False
            continue
        v = fi.def_value(d, e.id)
        if v is None or not _est_counts(fi, v, P, d, depth - 1):
            return False
    return True


def _est_rowsums(fi, e, P, st):
    """`e` (expanded) is the vector of row sums of the counts; returns True."""
    while True:
        if isinstance(e, ast.Call) and call_name(e) in _TO_NDARRAY + ('np.asanyarray', 'np.squeeze') and len(e.args) == 1 and \
                all(k.arg == 'dtype' for k in e.keywords):
            e = e.args[0]
        elif isinstance(e, ast.Call) and isinstance(e.func, ast.Attribute) and e.func.attr in _ROWSUM_WRAP and not e.args and not e.keywords:
            e = e.func.value
        elif isinstance(e, ast.Attribute) and e.attr in ('A1',):
            e = e.value
        elif isinstance(e, ast.Call) and isinstance(e.func, ast.Attribute) and e.func.attr == 'astype' and len(e.args) == 1 and \
                u(e.args[0]) in _F64:
            e = e.func.value
        else:
            break
    if not (isinstance(e, ast.Call) and isinstance(e.func, ast.Attribute) and e.func.attr == 'sum'):
        return False
    ax = [k.value for k in e.keywords if k.arg == 'axis'] + list(e.args[:1])
    if len(ax) != 1 or len(e.args) + len(e.keywords) != 1:
        return False
    a = ax[0]
    if isinstance(a, ast.UnaryOp) and isinstance(a.op, ast.USub) and isinstance(a.operand, ast.Constant):
        val = -a.operand.value if isinstance(a.operand.value, int) else None
    else:
        val = a.value if isinstance(a, ast.Constant) else None
    if val not in (1, -1) or isinstance(val, bool):
        return False
    return _est_counts(fi, e.func.value, P, st)


def _nonzero_const(e):
    if isinstance(e, ast.UnaryOp) and isinstance(e.op, (ast.USub, ast.UAdd)):
        e = e.operand
    return isinstance(e, ast.Constant) and isinstance(e.value, (int, float)) and not isinstance(e.value, bool) and e.value != 0


def _strip_factor(e):
    """Drop non-zero constant factors / divisors and float() casts: the result
    vanishes exactly when `e` does."""
    while True:
        if isinstance(e, ast.BinOp) and isinstance(e.op, ast.Mult) and _nonzero_const(e.left):
            e = e.right
        elif isinstance(e, ast.BinOp) and isinstance(e.op, (ast.Mult, ast.Div)) and _nonzero_const(e.right):
            e = e.left
        elif isinstance(e, ast.Call) and call_name(e) in ('float', 'np.float64', 'abs', 'np.abs', 'np.double') and len(e.args) == 1 and not e.keywords:
            e = e.args[0]
        elif isinstance(e, ast.UnaryOp) and isinstance(e.op, (ast.USub, ast.UAdd)):
            e = e.operand
        else:
            return e


def _signed_leaves(e, sign=1, out=None):
    out = [] if out is None else out
    if isinstance(e, ast.BinOp) and isinstance(e.op, (ast.Add, ast.Sub)):
        _signed_leaves(e.left, sign, out)
        _signed_leaves(e.right, sign if isinstance(e.op, ast.Add) else -sign, out)
    elif isinstance(e, ast.UnaryOp) and isinstance(e.op, (ast.USub, ast.UAdd)):
        _signed_leaves(e.operand, -sign if isinstance(e.op, ast.USub) else sign, out)
    else:
        out.append((sign, e))
    return out


def _count_deficit(fi, e, P, st):
    """Is the (expanded) expression `e`, up to a non-zero constant factor, a
    sum of terms rowsum(C)[p] - C[p, q] over distinct rows p?  Returns the
    canonical key (sorted tuple of (p, q) texts) or None."""
    e = _strip_factor(e)
    leaves = _signed_leaves(e)
    pos = [x for s, x in leaves if s > 0]
    neg = [x for s, x in leaves if s < 0]
    if not pos or len(pos) != len(neg):
        return None
    rows = []
    for x in pos:
        if not (isinstance(x, ast.Subscript) and not isinstance(x.slice, (ast.Tuple, ast.Slice)) and _est_rowsums(fi, x.value, P, st)):
            return None
        rows.append(u(x.slice))
    pairs = []
    for x in neg:
        if not (isinstance(x, ast.Subscript) and isinstance(x.slice, ast.Tuple) and len(x.slice.elts) == 2 and
                not any(isinstance(i, ast.Slice) for i in x.slice.elts) and _est_counts(fi, x.value, P, st)):
            return None
        p, q = u(x.slice.elts[0]), u(x.slice.elts[1])
        if p not in rows:
            return None
        rows.remove(p)
        pairs.append((p, q))
    pairs = sorted(set(pairs))          # (a + a: the same terms twice)
    if len({p for p, _ in pairs}) != len(pairs):
        return None          # two different entries of the same row: the sum need not be able to vanish
    return tuple(pairs)


def _zero_const(e):
    return isinstance(e, ast.Constant) and isinstance(e.value, (int, float)) and not isinstance(e.value, bool) and e.value == 0


def _guards_of(fi, mod, node):
    """[(test, polarity, site)] known to hold when `node` is evaluated: the
    conditional expressions / short-circuit operators around it inside its
    statement and the branch conditions that dominate its statement."""
    from ..cfg import Assume
    out = []
    ch, par = node, mod.parent.get(node)
    while par is not None and not isinstance(par, ast.stmt):
        if isinstance(par, ast.IfExp) and ch is not par.test:
            out.append((par.test, ch is par.body, None))
        if isinstance(par, ast.BoolOp) and ch in par.values:
            for v in par.values[:par.values.index(ch)]:
                out.append((v, isinstance(par.op, ast.And), None))
        ch, par = par, mod.parent.get(par)
    st = fi.stmt(node)
    for a in fi.cfg.nodes:
        if isinstance(a, Assume) and st is not None and fi.cfg.dominates(a, st):
            out.append((a.test, a.polarity, a.owner))
    return out, st


def _same_operands(fi, e, site, st):
    """The operands of the guard expression have the same reaching definitions
    at the guard and at the division (the temporaries were expanded already;
    the count matrix and its row sums are never stored into: see _est_counts)."""
    if site is None or site is st:
        return True
    for n in ast.walk(e):
        if isinstance(n, ast.Name) and isinstance(n.ctx, ast.Load):
            if fi.rd.defs_at(site, n.id) != fi.rd.defs_at(st, n.id):
                return False
    return True


def _guard_verdict(fi, mod, div, key, P):
    """'nonzero' / 'zero' (the division runs exactly when the quantity IS
    zero) / 'unread' (a test on the way mentions the quantity in a form the
    rule does not read) / None (never tested)."""
    from ..patterns import Cmp, conjuncts
    guards, st = _guards_of(fi, mod, div)
    verdict = None

    def is_q(x, site):
        try:
            ex = fi.expand(x)
        except Exception:
            return False
        return _count_deficit(fi, ex, P, st) == key and _same_operands(fi, ex, site, st)
    for test, pol, site in guards:
        cj = conjuncts(test, pol)
        read = False
        for c in (cj or []):
            if isinstance(c, Cmp):
                for g, other, op in ((c.lhs, c.rhs, c.op), (c.rhs, c.lhs, c.flipped().op)):
                    if not is_q(g, site):
                        continue
                    # g OP other
                    k = other.operand if isinstance(other, ast.UnaryOp) and isinstance(other.op, ast.USub) else other
                    if not (isinstance(k, ast.Constant) and isinstance(k.value, (int, float)) and not isinstance(k.value, bool)):
                        continue
                    kv = -k.value if k is not other else k.value
                    if (op is ast.NotEq and kv == 0) or (op is ast.Gt and kv >= 0) or (op is ast.GtE and kv > 0) or \
                            (op is ast.Lt and kv <= 0) or (op is ast.LtE and kv < 0):
                        return 'nonzero'
                    if op is ast.Eq and kv == 0:
                        verdict = 'zero'
                        read = True
                    elif op is ast.Eq and kv != 0:
                        return 'nonzero'
            elif isinstance(c, tuple) and c[0] == 'expr' and is_q(c[1], site):
                if c[2]:
                    return 'nonzero'        # truthiness of a number: != 0
                verdict = 'zero'
                read = True
        if not read and verdict is None and any(isinstance(x, ast.expr) and not isinstance(x, ast.Constant) and is_q(x, site)
                                                for x in ast.walk(test)):
            verdict = 'unread'
    return verdict


def d4_estimator(ck, rel, qual, required):
    rule = 'C04.D4.zero-denominator'
    from ..core import AnalysisIncomplete
    try:
        mod = ck.repo.mod(rel)
        fn = mod.func(qual)
    except AnalysisIncomplete as e:
        if required:
            ck.missing(rule, 'estimator %s not found (%s)' % (qual, e))
        return
    ck.analysed(mod, fn)
    fi = finfo(mod, fn)
    P = params(fn)[0]
    o = Once(ck, mod, fn, qual)
    n = 0
    for x in walk_local(fn):
        if isinstance(x, ast.BinOp) and isinstance(x.op, (ast.Div, ast.FloorDiv, ast.Mod)):
            den = x.right
        elif isinstance(x, ast.Call) and call_name(x) in ('np.divide', 'np.true_divide', 'numpy.divide') and len(x.args) >= 2:
            den = x.args[1]
        elif isinstance(x, ast.Call) and call_name(x) in ('np.reciprocal',) and len(x.args) == 1:
            den = x.args[0]
        else:
            continue
        try:
            key = _count_deficit(fi, fi.expand(den), P, fi.stmt(x))
        except Exception:
            key = None
        if key is None:
            continue
        n += 1
        what = ' + '.join('(rowsum[%s] - C[%s, %s])' % (p, p, q) for p, q in key)
        v = _guard_verdict(fi, mod, x, key, P)
        stmt_text = ' '.join(u(fi.stmt(x) or x).split())[:100]
        if v == 'unread':
            o.missing(rule, '%s: the divisor `%s` = %s (zero for a state whose counts all sit in one cell) is tested on the way to `%s`, '
                      'but not in a form the rule reads (== 0, != 0, > 0, truthiness)' % (qual, u(den)[:40], what, stmt_text))
            continue
        o.check(v == 'nonzero', rule, x, 'the degenerate case (all counts of the rows involved in one cell) is excluded before the division',
                '%s divides by `%s` = %s%s. For non-negative counts this is >= 0 and it IS zero for admissible input (a state '
                'whose outgoing counts all sit in that one cell: the one-state chain, the strongly connected two-state chain '
                '[[0, p], [q, 0]]), so the quotient is inf/nan, X, T and pi fill with nan and the builder raises or returns no model; '
                'the division needs a dominating test of that quantity against zero (`if a == 0: v = X[j, i]` in the Prinz update)'
                % (qual, u(den)[:40], what, ' on the branch where that quantity equals zero' if v == 'zero' else
                   ' and no test of that quantity against zero lies on the way'),
                construct='%s: division by %s %s' % (qual, what, 'guarded against zero' if v == 'nonzero' else 'without a zero guard'))
    if required:
        ck.floor(rule, n, 1, 'division by a count deficit rowsum(C)[p] - C[p, q] in %s' % qual)


# ---------------------------------------------------------------------------
# D7 (estimator): what the reversible iteration hands back
#
# "Prinz iteration returns X / rowsum(X) and rowsum(X) / sum(X), X symmetric."
# With X symmetric and non-negative, T = X / rowsum(X)[:, None] is row stochastic,
# pi = rowsum(X) / sum(X) satisfies pi_i T_ij = X_ij / sum(X) = pi_j T_ji (detailed
# balance) and hence pi T = pi.  The necessary structural conditions, each decided
# on roles (the matrix that is normalised in the return value, the vector whose
# normalisation is returned as populations), never on the names of locals:
#   result        the pair returned is (X / column of row sums of X, R / total of R)
#   symmetric     X starts as a matrix that is symmetric by construction and every
#                 store into an off-diagonal cell (p, q) is paired with a store of
#                 the same value into (q, p)
#   running sums  R starts as the row sums of X and every store into a cell of row p
#                 is accompanied by R[p] += new - old  (old read before the store)
#   admissible    no assert on the way rejects what the quantifier admits (positive
#                 row sums) or what the construction guarantees (rows of T sum to 1)
#   non-negative  every value stored into X is provably >= 0 and finite under the
#                 invariants  C >= 0, rowsum(C)[p] >= C[p, q], X >= 0,
#                 R[p] >= X[p, q]  (sign abstraction; a root is taken of a provably
#                 non-negative quantity, a divisor is provably non-zero).

def _int_of(e):
    v = const_value(e)
    return v if isinstance(v, int) and not isinstance(v, bool) else None


def _plain_index(i):
    return not isinstance(i, (ast.Slice, ast.Starred, ast.Tuple)) and not (isinstance(i, ast.Constant) and (i.value is None or i.value is Ellipsis))


def _cell(t, base=None):
    """(base name, p, q) for a plain two-index subscript B[p, q] of a Name."""
    if isinstance(t, ast.Subscript) and isinstance(t.value, ast.Name) and isinstance(t.slice, ast.Tuple) and len(t.slice.elts) == 2 \
            and all(_plain_index(i) for i in t.slice.elts) and (base is None or t.value.id == base):
        return t.value.id, u(t.slice.elts[0]), u(t.slice.elts[1])
    return None


def _elem(t, base=None):
    """(base name, p) for a plain one-index subscript B[p] of a Name."""
    if isinstance(t, ast.Subscript) and isinstance(t.value, ast.Name) and _plain_index(t.slice) and (base is None or t.value.id == base):
        return t.value.id, u(t.slice)
    return None


def _pm(pats, node, binds=None):
    from ..match import match
    for p in ([pats] if isinstance(pats, str) else pats):
        b = match(p, node, binds)
        if b is not None:
            return b
    return None


def _strip_scalar_index(e):
    """x[..., None] / x[None] / float(x) of a 0-d total: the same number."""
    while True:
        if isinstance(e, ast.Subscript):
            idx = e.slice.elts if isinstance(e.slice, ast.Tuple) else [e.slice]
            if idx and all(isinstance(i, ast.Constant) and (i.value is None or i.value is Ellipsis) for i in idx):
                e = e.value
                continue
        if isinstance(e, ast.Call) and call_name(e) in ('float', 'np.float64', 'np.double') and len(e.args) == 1 and not e.keywords:
            e = e.args[0]
            continue
        return e


_RS = ['_X.sum(axis=_A)', '_X.sum(_A)']
_COL_OF = ['%s.reshape(_N, 1)', '%s.reshape((_N, 1))', '%s[:, None]', 'np.expand_dims(%s, 1)', 'np.expand_dims(%s, axis=1)',
           'np.expand_dims(%s, -1)', 'np.expand_dims(%s, axis=-1)', '%s.reshape(_N, 1).astype(float)']
_T_FORMS = ['_X / ' + c % r for r in _RS for c in _COL_OF] + \
           ['np.divide(_X, %s)' % (c % r) for r in _RS for c in _COL_OF] + \
           ['_X / _X.sum(axis=_A, keepdims=True)', '_X / _X.sum(_A, keepdims=True)', 'np.divide(_X, _X.sum(axis=_A, keepdims=True))'] + \
           ['(_X.T / %s).T' % r for r in _RS] + ['_X * (1 / %s)' % (c % r) for r in _RS for c in _COL_OF] + \
           ['_X * (1.0 / %s)' % (c % r) for r in _RS for c in _COL_OF]
_T_BY_R = ['_X / ' + c % '_R' for c in _COL_OF] + ['(_X.T / _R).T']


_COLS = [c % r for r in _RS for c in _COL_OF] + ['_X.sum(axis=_A, keepdims=True)', '_X.sum(_A, keepdims=True)']
_VECS = _RS + ['np.asarray(%s)' % r for r in _RS] + ['%s.flatten()' % r for r in _RS] + ['%s.ravel()' % r for r in _RS]


_OTHER_REDUCTIONS = ('max', 'min', 'mean', 'prod', 'std', 'var', 'ptp', 'median', 'amax', 'amin', 'average', 'nanmax', 'nanmin', 'nanmean')
_COL_WRAP = [c % '_E' for c in _COL_OF]
_EXTENT_FORMS = ['len(_V)', '_V.shape[0]', '_V.shape[1]', '_V.shape[-1]', '_V.size', 'np.linalg.norm(_V)', 'float(len(_V))']


def _other_normaliser(den, name, matrix):
    """`den` is positively NOT the sums that normalise `name` (the matrix
    that is divided, matrix=True, or the vector of its row sums): it is a
    different reduction of that very operand - max / min / mean / prod / ...
    (along an axis, as a column or a scalar), its extent (len, shape, size),
    its Euclidean norm, or, for the matrix, its grand total (every row of
    X / X.sum() sums to rowsum / total, not to one).  The quotient is then a
    different function of the same operand in the located role."""
    d = _strip_scalar_index(den)
    if matrix:
        b = _pm(_COL_WRAP, d)
        if b is not None:
            d = b['_E']
    for w in ('np.asarray(_E)', 'np.array(_E)', '_E.flatten()', '_E.ravel()', '_E.astype(float)'):
        b = _pm(w, d)
        if b is not None:
            d = b['_E']
    if isinstance(d, ast.Call):
        cn = call_name(d) or ''
        recv = None
        if isinstance(d.func, ast.Attribute) and isinstance(d.func.value, ast.Name) and d.func.value.id == name and d.func.attr in _OTHER_REDUCTIONS:
            recv = d.args
        elif cn.split('.')[0] in ('np', 'numpy') and cn.split('.')[-1] in _OTHER_REDUCTIONS and len(cn.split('.')) == 2 and d.args and \
                isinstance(d.args[0], ast.Name) and d.args[0].id == name:
            recv = d.args[1:]
        if recv is not None and all(const_value(a) is not None or _is_none(a) for a in recv) and \
                all(k.arg in ('axis', 'keepdims') and isinstance(k.value, (ast.Constant, ast.UnaryOp)) for k in d.keywords):
            return True
    b = _pm(_EXTENT_FORMS, d)
    if b is not None and isinstance(b['_V'], ast.Name) and b['_V'].id == name:
        return True
    if matrix:
        b = _pm(['_V.sum()', '_V.sum(axis=None)'], _strip_scalar_index(den))
        if b is not None and isinstance(b['_V'], ast.Name) and b['_V'].id == name:
            return True
    return False


def _wrong_quotient(e, cols, scope, own=()):
    """`e` is positively a DIFFERENT quotient in the role of T (cols: the
    column-of-row-sums forms) or of pi (cols None): the reciprocal of the
    accepted form, a row-vector broadcast, sums taken of another matrix
    than the one that is divided, or the operand divided by a different
    reduction of itself (_other_normaliser).  Anything else is not
    recognised (False)."""
    if isinstance(e, ast.Call) and call_name(e) in ('np.divide', 'np.true_divide') and len(e.args) == 2 and not e.keywords:
        num, den = e.args
    elif isinstance(e, ast.BinOp) and isinstance(e.op, ast.Div):
        num, den = e.left, e.right
    else:
        return False
    if not closed_over(e, scope):
        return False
    if isinstance(num, ast.Name) and num.id in scope and _other_normaliser(den, num.id, cols is not None):
        return True
    if cols is not None:
        for a, b, swapped in ((num, den, False), (den, num, True)):
            if not isinstance(a, ast.Name):
                continue
            col = _pm(cols, b)
            row = _pm(_RS, b)
            if col is not None and isinstance(col['_X'], ast.Name):
                if swapped or col['_X'].id != a.id:
                    return True             # column of sums / X, or X / sums of another matrix
            elif row is not None and isinstance(row['_X'], ast.Name):
                return True                 # (n, n) / (n,): the sums are broadcast along the rows (scales columns)
        return False
    num, den = _strip_scalar_index(num), _strip_scalar_index(den)
    for a, b, swapped in ((num, den, False), (den, num, True)):
        vec = a if isinstance(a, ast.Name) else None
        rs = _pm(_VECS, a)
        tot = _pm(['_V.sum()', '_V.sum(axis=None)', '_V.sum(axis=0)', '_V.sum(0)'], b)
        if tot is None:
            continue
        if vec is not None and swapped and u(tot['_V']) == vec.id:
            return True                     # total / vector
        if rs is not None and isinstance(rs['_X'], ast.Name) and (swapped or (rs['_X'].id not in own and u(tot['_V']) in (u(a), rs['_X'].id))):
            return True                     # row sums of a matrix that is not the one normalised into T (the caller excluded X itself)
    return False


class _Estimator:
    """Roles of the reversible estimator, located from its return value."""

    def __init__(self, ck, mod, fn, qual):
        self.ck, self.mod, self.fn, self.qual = ck, mod, fn, qual
        self.fi = finfo(mod, fn)
        self.P = params(fn)[0]
        self.o = Once(ck, mod, fn, qual)
        self.X = self.R = None          # names: symmetric state matrix, running row sums
        self.R_aux = None               # row sums maintained in the sweep although the populations are recomputed
        self.ret = None
        self.T_name = self.pi_name = None
        self.two = sorted({c[0] for _, t in self._stores() for c in [_cell(t)] if c})
        self.one = sorted({c[0] for _, t in self._stores() for c in [_elem(t)] if c})

    def _stores(self):
        from ..patterns import subscript_stores
        return subscript_stores(self.fn)

    def stores(self, base):
        return [(s, t) for s, t in self._stores() if isinstance(t.value, ast.Name) and t.value.id == base]

    def loop_of(self, node):
        """Innermost for/while statement around `node` (None outside loops)."""
        p = self.mod.parent.get(node)
        while p is not None and p is not self.fn:
            if isinstance(p, (ast.For, ast.While)):
                return p
            p = self.mod.parent.get(p)
        return None

    def before(self, a, b):
        """Statement `a` can execute before `b` within one pass through their
        innermost common loop body (or, outside loops, on some path)."""
        if a is b:
            return False
        avoid = []
        p = self.loop_of(a)
        while p is not None:
            if self.fi._within(b, p):
                avoid.append(p)
            p = self.loop_of(p)
        return self.fi.cfg.reachable(a, b, avoiding=avoid)

    def same_in_pass(self, a, b):
        """Two uses of one name see the same binding within one pass through
        the loop body that holds them: same reaching definitions, one use
        dominates the other and no definition can execute in between."""
        fi = self.fi
        if not (isinstance(a, ast.Name) and isinstance(b, ast.Name)) or a.id != b.id:
            return False
        try:
            da, db = fi.defs_of_use(a), fi.defs_of_use(b)
        except Exception:
            return False
        if not da or da != db or 'UNBOUND' in da:
            return False
        sa, sb = fi.stmt(a), fi.stmt(b)
        if sa is sb:
            return True
        if fi.cfg.dominates(sb, sa):
            sa, sb = sb, sa
        elif not fi.cfg.dominates(sa, sb):
            return False
        for d in da:
            if d == 'PARAM':
                continue
            if d is sa or d is sb or (self.before(sa, d) and self.before(d, sb)):
                return False
        return True

    def _same_index(self, a, b):
        """The index names `a` (at its statement) and `b` denote one value in one
        pass: same binding by same_in_pass, or both are the target of ONE `for`
        statement whose body holds both uses and nothing else binds the name."""
        if self.same_in_pass(a, b):
            return True
        fi = self.fi
        if not (isinstance(a, ast.Name) and isinstance(b, ast.Name)) or a.id != b.id:
            return False
        try:
            da, db = fi.defs_of_use(a), fi.defs_of_use(b)
        except Exception:
            return False
        if da != db or len(da) != 1:
            return False
        L = next(iter(da))
        return isinstance(L, ast.For) and isinstance(L.target, ast.Name) and L.target.id == a.id and \
            fi._within(fi.stmt(a), L) and fi._within(fi.stmt(b), L)

    def proxies(self):
        """Scalar locals that hold ONE element of the running sums while an
        inner loop runs (register promotion of R[p]):
        {name: (index text, load statement, write-back statement, [update statements])}.
        S is such a proxy iff
          * its bindings are one load  S = R[p]  and otherwise plain (augmented)
            assignments to S - the updates, whose FORM is judged like that of a
            store into R[p] by C04.D3.mle-running-sums;
          * the load dominates every update and the one write-back  R[p] = S,  with
            p the same binding at both;
          * no update reaches the return, or the load again, without passing
            the write-back (the updates are not lost);
          * while S is live (load .. write-back) R is touched only as R[q] with
            q provably different from p, and S is read only there.
        Then S equals what R[p] would hold without the promotion at every
        statement between the load and the write-back."""
        R = self.R
        if R is None:
            return {}
        cache = self.__dict__.setdefault('_proxy_cache', {})
        if R in cache:
            return cache[R]
        out = cache[R] = {}
        from ..cfg import header_exprs, stmt_defs
        fi, cfg, par = self.fi, self.fi.cfg, self.mod.parent
        nodes = [n for n in cfg.nodes if isinstance(n, ast.AST)]
        loads = {}
        for n in nodes:
            if isinstance(n, ast.Assign) and len(n.targets) == 1 and isinstance(n.targets[0], ast.Name) and \
                    _elem(n.value, R) is not None and isinstance(n.value.slice, ast.Name):
                loads.setdefault(n.targets[0].id, []).append(n)
        for S, lds in sorted(loads.items()):
            if len(lds) != 1 or S in (self.X, R, self.P) or S in self.two or S in self.one:
                continue
            ld = lds[0]
            pn = ld.value.slice
            updates = [n for n in nodes if n is not ld and S in stmt_defs(n)]
            if not updates or self.ret is None:
                continue                # a pure hoist is a temporary: the expansion reads through it
            if not all((isinstance(d, ast.AugAssign) and isinstance(d.target, ast.Name)) or
                       (isinstance(d, ast.Assign) and len(d.targets) == 1 and isinstance(d.targets[0], ast.Name)) for d in updates):
                continue
            wbs = [s for s, t in self.stores(R) if isinstance(s, ast.Assign) and len(s.targets) == 1 and isinstance(s.value, ast.Name)
                   and s.value.id == S and _elem(t, R) is not None and isinstance(t.slice, ast.Name) and t.slice.id == pn.id]
            if len(wbs) != 1:
                continue
            wb = wbs[0]
            if not self._same_index(pn, wb.targets[0].slice):
                continue
            if not all(cfg.dominates(ld, x) for x in updates + [wb]):
                continue
            if any(cfg.reachable(d, self.ret, avoiding=[wb]) or cfg.reachable(d, ld, avoiding=[wb]) for d in updates):
                continue
            live = [n for n in nodes if n is not ld and n is not wb and cfg.reachable(ld, n, avoiding=[wb])]
            ok = True
            for n in live:
                for e in header_exprs(n):
                    for x in ast.walk(e):
                        if not (isinstance(x, ast.Name) and x.id == R):
                            continue
                        sub = par.get(x)
                        if not (isinstance(sub, ast.Subscript) and sub.value is x and isinstance(sub.slice, ast.Name) and
                                _distinct_indices(self, sub.slice.id, pn.id, n) is True):
                            ok = False
            liveset = {id(n) for n in live} | {id(wb)}
            for n in nodes:
                if id(n) in liveset:
                    continue
                for e in header_exprs(n):
                    if any(isinstance(x, ast.Name) and x.id == S and isinstance(x.ctx, ast.Load) for x in ast.walk(e)):
                        ok = False
                if isinstance(n, ast.AugAssign) and isinstance(n.target, ast.Name) and n.target.id == S:
                    ok = False
            if ok:
                out[S] = (pn.id, ld, wb, updates)
        return out


def _d7_result(est):
    """Locate X and R from the returned pair and decide its form."""
    rule = 'C04.D6.mle-result'
    o, fi = est.o, est.fi
    from ..patterns import returns_of
    rets = [r for r in returns_of(est.fn)]
    n = 0
    state = set(est.two) | set(est.one)
    for r in rets:
        v = r.value
        if not (isinstance(v, ast.Tuple) and len(v.elts) == 2):
            o.missing(rule, '%s does not return a pair (T, pi): %s' % (est.qual, u(v)[:100] if v is not None else 'None'))
            continue
        n += 1
        Te, pe = fi.expand(v.elts[0]), fi.expand(v.elts[1])
        # --- T
        b = _pm(_T_FORMS, Te)
        byR = None
        if b is None:
            byR = _pm(_T_BY_R, Te)
        if b is not None and isinstance(b['_X'], ast.Name) and _int_of(b['_A']) in (1, -1, 0, -2):
            est.X = b['_X'].id
            ax = _int_of(b['_A'])
            o.check(True, rule, v.elts[0], 'T = X / rowsum(X) as a column%s' % (
                '' if ax in (1, -1) else ' (column sums: equal to the row sums because X is symmetric, see C04.D3.mle-symmetric)'), '',
                construct='%s: T = X / rowsum(X)[:, None]' % est.qual)
        elif byR is not None and isinstance(byR['_X'], ast.Name) and isinstance(byR['_R'], ast.Name):
            est.X, est.R = byR['_X'].id, byR['_R'].id
            o.check(True, rule, v.elts[0], 'T = X / R[:, None] with R the maintained row sums of X (see C04.D3.mle-running-sums)', '',
                    construct='%s: T = X / rowsum(X)[:, None]' % est.qual)
        else:
            involved = {x.id for x in ast.walk(Te) if isinstance(x, ast.Name)} & set(est.two)
            verdict = ('near', 1, '_X / _X.sum(axis=1)[:, None]') if _wrong_quotient(Te, _COLS, state | {est.P}) else ('far', 9, None)
            o.decide(verdict, rule, v.elts[0], '',
                     'the first result of %s must be the symmetric matrix divided by the COLUMN vector of its own row sums, '
                     'X / X.sum(axis=1)[:, None] (rows then sum to one); here it is `%s`' % (est.qual, u(Te)[:120]),
                     construct='%s: T = X / rowsum(X)[:, None]' % est.qual if verdict[0] == 'near' else None)
            if len(involved) == 1:
                est.X = sorted(involved)[0]
        # --- pi
        num = den = None
        if isinstance(pe, ast.BinOp) and isinstance(pe.op, ast.Div):
            num, den = pe.left, _strip_scalar_index(pe.right)
        elif isinstance(pe, ast.Call) and call_name(pe) in ('np.divide', 'np.true_divide') and len(pe.args) == 2 and not pe.keywords:
            num, den = pe.args[0], _strip_scalar_index(pe.args[1])
        ok = False
        if num is not None:
            num = _strip_scalar_index(num)
            total_of = _pm(['_V.sum()', '_V.sum(axis=None)', '_V.sum(axis=0)', '_V.sum(0)'], den)
            if isinstance(num, ast.Name) and total_of is not None and isinstance(total_of['_V'], ast.Name):
                tv = total_of['_V'].id
                axis_less = _pm(['_V.sum()', '_V.sum(axis=None)'], den) is not None
                if tv == num.id or (axis_less and est.X is not None and tv == est.X):
                    ok = True
                    if est.R is not None and est.R != num.id:
                        o.missing(rule, 'T is normalised by `%s` but the populations come from `%s`' % (est.R, num.id))
                    est.R = num.id
            fresh = _pm(_RS, num)
            if not ok and fresh is not None and isinstance(fresh['_X'], ast.Name) and _int_of(fresh['_A']) in (1, -1, 0, -2) and \
                    total_of is not None and u(total_of['_V']) in (u(num), fresh['_X'].id) and (est.X is None or fresh['_X'].id == est.X):
                ok = True           # populations recomputed from X itself: no running sums involved
        if ok:
            o.check(True, rule, v.elts[1], 'pi = R / sum(R) with R the row sums of X', '', construct='%s: pi = rowsum(X) / sum(X)' % est.qual)
        else:
            involved = {x.id for x in ast.walk(pe) if isinstance(x, ast.Name)} & (state | {est.P})
            verdict = ('near', 1, '_R / _R.sum()') if _wrong_quotient(pe, None, state | {est.P}, own=est.two) else ('far', 9, None)
            o.decide(verdict, rule, v.elts[1], '',
                     'the second result of %s must be the row sums of the symmetric matrix divided by their total, R / R.sum() '
                     '(the stationary vector of T = X / rowsum(X)); here it is `%s`' % (est.qual, u(pe)[:120]),
                     construct='%s: pi = rowsum(X) / sum(X)' % est.qual if verdict[0] == 'near' else None)
            one = involved & set(est.one)
            if est.R is None and len(one) == 1:
                est.R = sorted(one)[0]
        est.ret = r
        est.T_name = v.elts[0].id if isinstance(v.elts[0], ast.Name) else None
        est.pi_name = v.elts[1].id if isinstance(v.elts[1], ast.Name) else None
    est.ck.floor(rule, n, 1, 'return of a pair (T, pi) in %s' % est.qual)
    if est.R is None and est.X is not None and est.ret is not None:
        # populations recomputed from X: a vector that is still maintained as row sums of X inside the sweep
        for cand in est.one:
            vals = [fi.def_value(d, cand) if d not in ('PARAM', 'UNBOUND') else None for d in fi.rd.defs_at(est.ret, cand)]
            if vals and all(v is not None for v in vals):
                bs = [_pm(_RS, fi.expand(v)) for v in vals]
                if all(b is not None and isinstance(b['_X'], ast.Name) and b['_X'].id == est.X for b in bs):
                    est.R_aux = cand
                    break


_SYM_FORMS = ['_A + _A.T', '_A.T + _A', '_A + _A.transpose()', '_A.transpose() + _A', 'np.add(_A, _A.T)', 'np.add(_A.T, _A)',
              '_A + np.transpose(_A)', 'np.transpose(_A) + _A', '_A + _A.T.copy()', '_A.T.copy() + _A', '_A @ _A.T', '_A.T @ _A',
              'np.maximum(_A, _A.T)', 'np.minimum(_A, _A.T)']
_SYM_FORMS += [w % f for f in list(_SYM_FORMS) for w in ('(%s) / _K', '(%s) * _K', '_K * (%s)')]


def _symmetric_value(est, e, st, depth=4):
    """Is the value of `e` (evaluated at statement `st`) a matrix that is
    symmetric by construction?  True / False (a pure function of the counts
    that is not of a symmetric form) / None (not recognised)."""
    fi = est.fi
    e = strip_conversions(e)
    if isinstance(e, ast.Name):
        if depth <= 0 or st is None:
            return None
        try:
            defs = fi.rd.defs_at(st, e.id)
        except Exception:
            return None
        if not defs or 'UNBOUND' in defs:
            return None
        out = []
        for d in defs:
            if d == 'PARAM':
                out.append(False if e.id == est.P else None)
                continue
            v = fi.def_value(d, e.id)
            out.append(None if v is None else _symmetric_value(est, fi.expand(v), d, depth - 1))
        return True if all(x is True for x in out) else False if any(x is False for x in out) and not any(x is None for x in out) else None
    b = _pm(_SYM_FORMS, e)
    if b is not None and ('_K' not in b or isinstance(b['_K'], ast.Constant)):
        return True
    if isinstance(e, ast.Call) and call_name(e) in ('np.zeros_like', 'np.eye', 'np.identity'):
        return True
    if _pm(['_A - _A.T', '_A.T - _A'], e) is not None:
        return False
    transposes = any((isinstance(x, ast.Attribute) and x.attr in ('T', 'transpose', 'swapaxes', 'mT')) or
                     (isinstance(x, ast.Call) and (call_name(x) or '').split('.')[-1] in ('transpose', 'swapaxes', 'maximum', 'minimum', 'einsum', 'dot', 'matmul'))
                     or (isinstance(x, ast.BinOp) and isinstance(x.op, ast.MatMult)) for x in ast.walk(e))
    if not transposes and closed_over(e, {est.P}) and any(isinstance(x, ast.Name) and x.id == est.P for x in ast.walk(e)):
        return False            # an element-wise function of the counts alone: as asymmetric as they are
    return None


def _same_stored_value(est, s1, t1, s2, t2):
    """Do the two cell stores put the same number into their cells?
    True / None (cannot tell)."""
    fi = est.fi
    if s1 is s2:
        return True                 # X[p, q] = X[q, p] = v
    if not (isinstance(s1, ast.Assign) and isinstance(s2, ast.Assign)):
        if isinstance(s1, ast.AugAssign) and isinstance(s2, ast.AugAssign) and type(s1.op) is type(s2.op):
            v1, v2 = s1.value, s2.value
        else:
            return None
    else:
        v1, v2 = s1.value, s2.value
    if isinstance(v1, ast.Name) and isinstance(v2, ast.Name):
        return True if est.same_in_pass(v1, v2) else None
    for (sa, ta, va), (sb, tb, vb) in (((s1, t1, v1), (s2, t2, v2)), ((s2, t2, v2), (s1, t1, v1))):
        # the second store copies the cell the first one just wrote
        if isinstance(sa, ast.Assign) and isinstance(sb, ast.Assign) and u(vb) == u(ta) and fi.cfg.dominates(sa, sb):
            return True
    try:
        x1, x2 = fi.expand(v1), fi.expand(v2)
    except Exception:
        return None
    state = set(est.two) | set(est.one)
    if u(x1) == u(x2) and not any(isinstance(n, ast.Name) and n.id in state for n in ast.walk(x1)):
        return True
    return None


def _same_region(est, a, b):
    cfg = est.fi.cfg
    return a is b or (cfg.dominates(a, b) and cfg.postdominates(b, a)) or (cfg.dominates(b, a) and cfg.postdominates(a, b))


def _d7_symmetric(est):
    rule = 'C04.D3.mle-symmetric'
    o, fi, X = est.o, est.fi, est.X
    q = est.qual
    for d in sorted(fi.rd.defs_at(est.ret, X), key=lambda d: getattr(d, 'lineno', 0)):
        if d == 'UNBOUND':
            continue
        v = fi.def_value(d, X) if d != 'PARAM' else None
        sv = False if d == 'PARAM' else (None if v is None else _symmetric_value(est, fi.expand(v), d))
        if sv is None:
            o.missing(rule, 'the matrix `%s` that %s normalises is bound in a form the rule does not recognise as symmetric: %s'
                      % (X, q, u(d)[:100] if d != 'PARAM' else 'parameter'))
            continue
        o.check(sv, rule, d if d != 'PARAM' else None, 'the iterate starts as a matrix that is symmetric by construction (C + C.T)',
                '%s normalises `%s`, which is bound to `%s`: not symmetric for asymmetric counts. Detailed balance of (T, pi) = '
                '(X / rowsum(X), rowsum(X) / sum(X)) needs X symmetric, and the update formulas read X[p, q] for X[q, p] and rely on '
                'rowsum(X)[q] >= X[p, q] (with X = C + C the product (R[i] - X[i, j]) * (R[j] - X[i, j]) turns negative and the '
                'estimator fails its own assertion for e.g. [[1, 10], [1, 1]])' % (q, X, u(v)[:80] if v is not None else 'the parameter'),
                construct='%s: the iterate starts symmetric' % q if sv else '%s: iterate bound to a non-symmetric function of the counts' % q)
    cells, odd = [], 0
    for s, t in est.stores(X):
        c = _cell(t, X)
        if c is None:
            odd += 1
            o.missing(rule, 'store into the symmetric matrix `%s` that is not a single cell: %s' % (X, u(s)[:100]))
            continue
        cells.append((s, t, c[1], c[2]))
    n = 0
    for s, t, p, r in cells:
        if p == r:
            continue
        n += 1
        mirrors = [(s2, t2) for s2, t2, p2, r2 in cells if p2 == r and r2 == p]
        near = [m for m in mirrors if _same_region(est, s, m[0])]
        if not mirrors and not odd:
            o.check(False, rule, s, '',
                    '%s stores into the off-diagonal cell %s[%s, %s] but never into its mirror %s[%s, %s]: the matrix is no longer '
                    'symmetric, so T = X / rowsum(X) and pi = rowsum(X) / sum(X) violate detailed balance and pi is not stationary under T'
                    % (q, X, p, r, X, r, p), construct='%s: off-diagonal store without its mirror store' % q)
            continue
        if not near:
            o.missing(rule, 'mirror store of %s (the cell [%s, %s]) is not in the same straight-line region' % (u(s)[:60], r, p))
            continue
        same = [m for m in near if _same_stored_value(est, s, t, m[0], m[1])]
        if same:
            o.check(True, rule, s, 'each off-diagonal store is paired with the store of the same value into the mirror cell', '',
                    construct='%s: paired stores into [p, q] and [q, p]' % q)
        else:
            o.missing(rule, 'cannot show that %s and its mirror store %s put the same value into the two cells' % (u(s)[:60], u(near[0][0])[:60]))
    return cells


def _leaf_kind(est, leaf):
    """('read', p, q) a cell of X read now; ('saved', p, q, site) a name that
    holds a cell of X read at `site` (X may have been stored into since);
    ('value', node) anything else."""
    fi, X = est.fi, est.X
    c = _cell(leaf, X)
    if c is not None:
        return ('read', c[1], c[2])
    if isinstance(leaf, ast.Name):
        tv = fi.temp_value(leaf)
        c = _cell(tv, X) if tv is not None else None
        if c is not None:
            return ('read', c[1], c[2])
        try:
            defs = fi.defs_of_use(leaf)
        except Exception:
            defs = set()
        if len(defs) == 1:
            site = next(iter(defs))
            if site not in ('PARAM', 'UNBOUND'):
                dv = fi.def_value(site, leaf.id)
                c = _cell(dv, X) if dv is not None else None
                if c is not None:
                    return ('saved', c[1], c[2], site)
    return ('value', leaf)


def _value_equal(est, leaf, stored):
    fi = est.fi
    if isinstance(leaf, ast.Name) and isinstance(stored, ast.Name):
        return est.same_in_pass(leaf, stored)
    try:
        return u(fi.expand(leaf)) == u(fi.expand(stored))
    except Exception:
        return False


def _distinct_indices(est, a, b, at):
    """Can the loop indices named `a` and `b` be equal at statement `at`?
    True: provably different; False: the range of one starts AT the other;
    None: not recognised."""
    par = est.mod.parent
    from ..cfg import Assume
    from ..patterns import Cmp, conjuncts
    for g in est.fi.cfg.nodes:
        if isinstance(g, Assume) and est.fi.cfg.dominates(g, at):
            for c in (conjuncts(g.test, g.polarity) or []):
                if isinstance(c, Cmp) and {u(c.lhs), u(c.rhs)} == {a, b} and c.op in (ast.NotEq, ast.Lt, ast.Gt):
                    return True
    verdict = None
    p = par.get(at)
    while p is not None and p is not est.fn:
        if isinstance(p, ast.For):
            tn = [x.id for x in ast.walk(p.target) if isinstance(x, ast.Name)]
            it = p.iter
            if isinstance(p.target, ast.Tuple) and set(tn) == {a, b} and isinstance(it, ast.Call) and \
                    (call_name(it) or '').split('.')[-1] == 'combinations' and len(it.args) == 2 and _int_of(it.args[1]) == 2:
                return True
            for x, y in ((a, b), (b, a)):
                if tn == [x] and isinstance(it, ast.Call) and call_name(it) == 'range' and not it.keywords:
                    args = it.args
                    if len(args) >= 3 and (_int_of(args[2]) or 0) < 1:
                        continue
                    lo = args[0] if len(args) >= 2 else None
                    hi = args[1] if len(args) >= 2 else args[0]
                    if u(hi) == y:
                        return True                         # x < y
                    if lo is not None:
                        if u(lo) == y:
                            verdict = False                 # x starts at y
                        elif isinstance(lo, ast.BinOp) and isinstance(lo.op, ast.Add):
                            for l, r in ((lo.left, lo.right), (lo.right, lo.left)):
                                if u(l) == y and (_int_of(r) or 0) >= 1:
                                    return True             # x >= y + k, k >= 1
        p = par.get(p)
    return verdict


def _d7_running(est, cells):
    rule = 'C04.D3.mle-running-sums'
    o, fi, X, R, q = est.o, est.fi, est.X, est.R, est.qual
    if R is None:
        return
    state = set(est.two) | set(est.one)
    odd_defs = 0
    rederive = []
    for d in sorted(fi.rd.defs_at(est.ret, R), key=lambda d: getattr(d, 'lineno', 0)):
        if d == 'UNBOUND':
            continue
        v = fi.def_value(d, R) if d != 'PARAM' else None
        if v is None:
            odd_defs += 1
            o.missing(rule, 'the vector `%s` that %s returns (normalised) as populations is bound in a form the rule does not read: %s'
                      % (R, q, u(d)[:100] if d != 'PARAM' else 'parameter'))
            continue
        e = fi.expand(v)
        while True:
            e2 = strip_conversions(e)
            if isinstance(e2, ast.Call) and isinstance(e2.func, ast.Attribute) and e2.func.attr in _ROWSUM_WRAP and not e2.args and not e2.keywords:
                e2 = e2.func.value
            elif isinstance(e2, ast.Attribute) and e2.attr == 'A1':
                e2 = e2.value
            if e2 is e:
                break
            e = e2
        b = _pm(_RS, e)
        if b is not None and isinstance(b['_X'], ast.Name) and b['_X'].id == X and _int_of(b['_A']) in (1, -1, 0, -2):
            rederive.append(d)
            o.check(True, rule, d, 'the running sums start as the row sums of the symmetric matrix', '',
                    construct='%s: running sums (re)derived as rowsum(X)' % q)
        elif b is not None and isinstance(b['_X'], ast.Name) and b['_X'].id != X and closed_over(e, state | {est.P}):
            o.check(False, rule, d, '',
                    'the vector `%s` that %s returns (normalised) as populations is bound to `%s`, not to the row sums of the matrix `%s` '
                    'that is normalised into T: pi = R / sum(R) is stationary under T = X / rowsum(X) only for R = rowsum(X)'
                    % (R, q, u(e)[:80], X), construct='%s: running sums not derived from the symmetric matrix' % q)
        else:
            odd_defs += 1
            o.missing(rule, 'definition of the running sums `%s` not recognised: %s' % (R, u(d)[:100]))
    # --- every store into a cell of row p comes with R[p] += new - old
    acc, unrec = [], 0              # acc: (row, {cells}, stmt)
    xs = [(s, p, r) for s, _, p, r in cells]

    def stores_of(cellset):
        return [s for s, p, r in xs if (p, r) in cellset]
    # a scalar that holds R[p] while the inner loop runs (loaded before, written back after): its updates ARE the updates of R[p]
    prox = est.proxies()
    writebacks = {id(pr[2]) for pr in prox.values()}
    items = []
    for s, t in est.stores(R):
        if id(s) in writebacks:
            o.check(True, rule, s, 'write-back of the scalar that carries R[p] through the inner loop (loaded from R[p] before it, '
                    'R[p] itself untouched meanwhile)', '', construct='%s: running sum of a row carried in a scalar and written back' % q)
            continue
        items.append((s, _elem(t, R), None))
    for S, pr in sorted(prox.items()):
        items += [(d, (R, pr[0]), S) for d in pr[3]]
    for s, el, S in items:
        leaves = None
        if el is not None:
            if isinstance(s, ast.AugAssign) and isinstance(s.op, (ast.Add, ast.Sub)):
                leaves = _signed_leaves(s.value, 1 if isinstance(s.op, ast.Add) else -1)
            elif isinstance(s, ast.Assign) and len(s.targets) == 1:
                leaves = _signed_leaves(s.value)
                own = [k for k, (sg, x) in enumerate(leaves) if sg > 0 and (
                    (_elem(x, R) is not None and _elem(x, R)[1] == el[1]) or (S is not None and isinstance(x, ast.Name) and x.id == S))]
                if len(own) == 1:
                    leaves.pop(own[0])
                else:
                    leaves = None
        plus = [x for sg, x in (leaves or []) if sg > 0]
        minus = [x for sg, x in (leaves or []) if sg < 0]
        if leaves is None or len(plus) != 1 or len(minus) != 1:
            unrec += 1
            o.missing(rule, 'update of the running sums not of the form %s[p] += new - old: %s' % (R, u(s)[:100]))
            continue
        row = el[1]
        kp, km = _leaf_kind(est, plus[0]), _leaf_kind(est, minus[0])
        verdict = None              # True ok / False reversed / None unrecognised
        cellset = None
        if {kp[0], km[0]} == {'value', 'read'}:
            rd, val, vleaf = (km, kp, plus[0]) if km[0] == 'read' else (kp, km, minus[0])
            cellset = {(rd[1], rd[2]), (rd[2], rd[1])}
            later = [sx for sx in stores_of(cellset) if est.before(s, sx) and not est.before(sx, s)]
            earlier = [sx for sx in stores_of(cellset) if est.before(sx, s)]
            hit = [sx for sx in later if isinstance(sx, ast.Assign) and _value_equal(est, vleaf, sx.value)]
            if hit and not earlier and row in (rd[1], rd[2]):
                verdict = km[0] == 'read'
        elif {kp[0], km[0]} == {'read', 'saved'}:
            rd, sv = (kp, km) if kp[0] == 'read' else (km, kp)
            cellset = {(rd[1], rd[2]), (rd[2], rd[1])}
            if (sv[1], sv[2]) in cellset and row in (rd[1], rd[2]):
                site = sv[3]
                earlier = [sx for sx in stores_of(cellset) if est.before(sx, s)]
                if earlier and all(est.before(site, sx) and not est.before(sx, site) for sx in earlier) and fi.cfg.dominates(site, s):
                    verdict = kp[0] == 'read'
        elif {kp[0], km[0]} == {'value', 'saved'}:
            # old value saved first, cell stored, then R[p] += new - saved
            sv, vleaf = (km, plus[0]) if km[0] == 'saved' else (kp, minus[0])
            cellset = {(sv[1], sv[2]), (sv[2], sv[1])}
            site = sv[3]
            sx_all = [sx for sx in stores_of(cellset) if est.before(sx, s) or est.before(s, sx)]
            hit = [sx for sx in sx_all if isinstance(sx, ast.Assign) and _value_equal(est, vleaf, sx.value)]
            if hit and row in (sv[1], sv[2]) and all(est.before(site, sx) and not est.before(sx, site) for sx in sx_all) and \
                    fi.cfg.dominates(site, s):
                verdict = km[0] == 'saved'
        if verdict is None:
            unrec += 1
            o.missing(rule, 'cannot relate the update %s to a store into a cell of row %s of `%s`' % (u(s)[:80], row, X))
            continue
        if verdict:
            acc.append((row, cellset, s))
            o.check(True, rule, s, 'R[p] += new - old for the cell of row p that is stored into', '',
                    construct='%s: running sum of a row adjusted by new - old' % q)
        else:
            o.check(False, rule, s, '',
                    '%s adjusts the running row sum %s[%s] by (old - new) instead of (new - old) for the cell it stores into: '
                    'from then on %s != rowsum(%s), the later updates of the sweep read wrong row sums (the quadratic coefficients '
                    'change sign and the estimator fails its assertion or stores nan) and the returned populations %s / sum(%s) are not '
                    'the stationary vector of T = X / rowsum(X)' % (q, R, row, R, X, R, R),
                    construct='%s: running sum of a row adjusted by old - new' % q)
            acc.append((row, cellset, s))
    # any other rebinding of R inside the function (R += vec, R = f(...)) is an update the rule does not read
    odd_defs += sum(1 for a in walk_local(est.fn) if isinstance(a, (ast.AugAssign, ast.AnnAssign)) and isinstance(a.target, ast.Name) and a.target.id == R)
    unrec += odd_defs
    for s, p, r in xs:
        if any(row == p and (p, r) in cs for row, cs, _ in acc):
            continue
        if any(est.before(s, d) and fi.cfg.postdominates(d, s) for d in rederive):
            continue                # the row sums are re-derived from X before anything reads them
        if unrec:
            o.missing(rule, 'no recognised update of %s[%s] for the store %s' % (R, p, u(s)[:80]))
            continue
        o.check(False, rule, s, '',
                '%s stores a new value into %s[%s, %s] but does not adjust the running row sum %s[%s] by (new - old): %s != rowsum(%s) '
                'afterwards, so the rest of the sweep works with stale row sums and the populations %s / sum(%s) that are returned are not '
                'rowsum(X) / sum(X) - exact only at a fixed point of the iteration (not when max_iter is reached or the last sweep still '
                'moved X)' % (q, X, p, r, R, p, R, X, R, R),
                construct='%s: store into a cell of the symmetric matrix without the matching running-sum update' % q)
    # --- the two cells of a pair are two different cells
    seen = set()
    for s, p, r in xs:
        if p == r or (r, p) in seen or (p, r) in seen:
            continue
        seen.add((p, r))
        if not (p.isidentifier() and r.isidentifier()):
            continue
        dv = _distinct_indices(est, p, r, s)
        if dv is None:
            o.missing(rule, 'cannot show that the indices %s and %s of the paired store %s differ' % (p, r, u(s)[:60]))
            continue
        o.check(dv, rule, s, 'the pair loop visits q != p only: the two cells of a pair are different cells',
                'the loop over one of the indices %s, %s starts AT the other, so the pair update also runs for %s == %s: one diagonal cell is '
                'then stored once but both %s[%s] and %s[%s] (the same element) are adjusted by new - old, i.e. the row sum moves by twice the '
                'change of the cell and %s != rowsum(%s) until the next re-derivation' % (p, r, r, p, R, p, R, r, R, X),
                construct='%s: pair loop excludes the diagonal' % q if dv else '%s: pair loop includes q == p' % q)


# --- sign abstraction ---------------------------------------------------------
_NEG, _ZERO, _POS = 1, 2, 4
_ANY, _NONNEG, _NONPOS = 7, 6, 3


def _sneg(m):
    return (_POS if m & _NEG else 0) | (_ZERO if m & _ZERO else 0) | (_NEG if m & _POS else 0)


def _smul(a, b):
    out = 0
    for x in (_NEG, _ZERO, _POS):
        for y in (_NEG, _ZERO, _POS):
            if a & x and b & y:
                out |= _ZERO if _ZERO in (x, y) else (_POS if x == y else _NEG)
    return out


def _sadd(a, b):
    if a == _ZERO:
        return b
    if b == _ZERO:
        return a
    if not (a & _NEG or b & _NEG):
        return _POS if (a == _POS or b == _POS) else _NONNEG
    if not (a & _POS or b & _POS):
        return _NEG if (a == _NEG or b == _NEG) else _NONPOS
    return _ANY


def _sname(m):
    return {_POS: '> 0', _NONNEG: '>= 0', _ZERO: '== 0', _NONPOS: '<= 0', _NEG: '< 0', _NEG | _POS: '!= 0'}.get(m, 'of unknown sign')


_SQRT = ('np.sqrt', 'math.sqrt', 'numpy.sqrt', 'sqrt')


class _Signs:
    """Signs of scalar expressions of the estimator at one statement, under
    the invariants of the iteration and the branch conditions that dominate
    the statement.  `issues` collects ('bad' | 'unknown', text)."""

    def __init__(self, est, st, depth=3):
        self.est, self.st, self.depth = est, st, depth
        self.fi = est.fi
        self.issues = []
        self.facts, self.mentions = self._facts()

    # -- branch conditions
    def _stable(self, g, e):
        fi = self.fi
        for n in ast.walk(e):
            if isinstance(n, ast.Name) and isinstance(n.ctx, ast.Load):
                if fi.rd.defs_at(g, n.id) != fi.rd.defs_at(self.st, n.id):
                    return False
                for ms in fi._mutated_in_place(n.id):
                    if ms is self.st:
                        continue
                    if fi.cfg.reachable(g, ms) and fi.cfg.reachable(ms, self.st, avoiding=[g]):
                        return False
        return True

    def _facts(self):
        from ..cfg import Assume
        from ..patterns import Cmp, conjuncts
        fi = self.fi
        facts, mentions = {}, []
        for g in fi.cfg.nodes:
            if not (isinstance(g, Assume) and self.st is not None and fi.cfg.dominates(g, self.st)):
                continue
            cj = conjuncts(g.test, g.polarity)
            read = set()
            for c in (cj or []):
                if isinstance(c, Cmp):
                    for x, other, op in ((c.lhs, c.rhs, c.op), (c.rhs, c.lhs, c.flipped().op)):
                        k = const_value(other)
                        if not isinstance(k, (int, float)) or isinstance(k, bool) or isinstance(x, ast.Constant):
                            continue
                        m = _ANY
                        if k == 0:
                            m = {ast.Lt: _NEG, ast.LtE: _NONPOS, ast.Gt: _POS, ast.GtE: _NONNEG, ast.Eq: _ZERO, ast.NotEq: _NEG | _POS}.get(op, _ANY)
                        elif k > 0:
                            m = {ast.Gt: _POS, ast.GtE: _POS, ast.Eq: _POS}.get(op, _ANY)
                        else:
                            m = {ast.Lt: _NEG, ast.LtE: _NEG, ast.Eq: _NEG}.get(op, _ANY)
                        try:
                            ex = fi.expand(x)
                        except Exception:
                            continue
                        if m != _ANY and self._stable(g, ex):
                            facts[u(ex)] = facts.get(u(ex), _ANY) & m
                            read.add(id(c))
                        else:
                            mentions.append(u(ex))
                elif isinstance(c, tuple) and c[0] == 'expr' and not isinstance(c[1], ast.Call):
                    try:
                        ex = fi.expand(c[1])
                    except Exception:
                        continue
                    if self._stable(g, ex):
                        facts[u(ex)] = facts.get(u(ex), _ANY) & ((_NEG | _POS) if c[2] else _ZERO)
                        read.add(id(c))
                    else:
                        mentions.append(u(ex))
            if cj is None or any(id(c) not in read for c in cj):
                try:
                    mentions.append(u(fi.expand(g.test)))
                except Exception:
                    mentions.append(u(g.test))
        return facts, mentions

    # -- leaves with a role
    def _tag(self, e):
        """('X', p, q) / ('C', p, q) / ('R', p) / ('Crs', p) for an element of
        the iterate, the counts, the running sums, the row sums of the counts."""
        est, fi = self.est, self.fi
        if isinstance(e, ast.Name):
            pr = est.proxies().get(e.id)    # the scalar that carries R[p] through the inner loop (read only while it does)
            return ('R', pr[0]) if pr is not None else None
        if isinstance(e, ast.Subscript):
            if isinstance(e.slice, ast.Tuple) and len(e.slice.elts) == 2 and all(_plain_index(i) for i in e.slice.elts):
                p, q = u(e.slice.elts[0]), u(e.slice.elts[1])
                if isinstance(e.value, ast.Name) and e.value.id == est.X:
                    return ('X', p, q)
                if _est_counts(fi, e.value, est.P, self.st):
                    return ('C', p, q)
            elif _plain_index(e.slice):
                p = u(e.slice)
                if isinstance(e.value, ast.Name) and e.value.id in (est.R, est.R_aux):
                    return ('R', p)
                if _est_rowsums(fi, e.value, est.P, self.st):
                    return ('Crs', p)
                if self._is_rowsum_of_X(e.value):
                    return ('R', p)
        return None

    def _is_rowsum_of_X(self, e):
        b = _pm(_RS, e)
        return b is not None and isinstance(b['_X'], ast.Name) and b['_X'].id == self.est.X and _int_of(b['_A']) in (1, -1, 0, -2)

    def zero_witness(self, e):
        """A factor of `e` that is zero for admissible input: a raw count, a
        sum of raw counts, a cell of the iterate (no counts between a pair of
        states of a strongly connected chain with >= 3 states is admissible)."""
        e = _strip_factor(e)
        t = self._tag(e)
        if t is not None and t[0] in ('C', 'X'):
            return u(e)
        if isinstance(e, ast.BinOp) and isinstance(e.op, ast.Mult):
            return self.zero_witness(e.left) or self.zero_witness(e.right)
        if isinstance(e, ast.BinOp) and isinstance(e.op, ast.Add):
            lv = _signed_leaves(e)
            if all(sg > 0 and (self._tag(x) or ('',))[0] in ('C', 'X') for sg, x in lv):
                return u(e)
        return None

    # -- the abstraction
    def sign(self, e):
        m = self._sign(e)
        f = self.facts.get(u(e))
        return m & f if f is not None else m

    def _leaves(self, e, sg, out, root=True):
        """Signed summands; a sub-sum that a branch condition speaks about stays one summand."""
        if isinstance(e, ast.BinOp) and isinstance(e.op, (ast.Add, ast.Sub)) and (root or u(e) not in self.facts):
            self._leaves(e.left, sg, out, False)
            self._leaves(e.right, sg if isinstance(e.op, ast.Add) else -sg, out, False)
        elif isinstance(e, ast.UnaryOp) and isinstance(e.op, (ast.USub, ast.UAdd)) and (root or u(e) not in self.facts):
            self._leaves(e.operand, -sg if isinstance(e.op, ast.USub) else sg, out, False)
        else:
            out.append((sg, e))
        return out

    def _root_dominates(self, e):
        """sqrt(t**2 + Q) +- t  with Q >= 0  is >= 0."""
        if not (isinstance(e, ast.BinOp) and isinstance(e.op, (ast.Add, ast.Sub))):
            return False
        for root, other in ((e.left, e.right), (e.right, e.left)):
            if root is e.right and isinstance(e.op, ast.Sub):
                continue                    # t - sqrt(...)
            if not (isinstance(root, ast.Call) and call_name(root) in _SQRT and len(root.args) == 1):
                continue
            t = other.operand if isinstance(other, ast.UnaryOp) and isinstance(other.op, (ast.USub, ast.UAdd)) else other
            lv = self._leaves(root.args[0], 1, [])
            sq = [x for sg, x in lv if sg > 0 and (
                (isinstance(x, ast.BinOp) and isinstance(x.op, ast.Pow) and _int_of(x.right) == 2 and u(x.left) == u(t)) or
                (isinstance(x, ast.BinOp) and isinstance(x.op, ast.Mult) and u(x.left) == u(t) and u(x.right) == u(t)))]
            if len(sq) != 1:
                continue
            rest = [(sg, x) for sg, x in lv if x is not sq[0]]
            if all(not ((self.sign(x) if sg > 0 else _sneg(self.sign(x))) & _NEG) for sg, x in rest):
                return True
        return False

    def _sum(self, e):
        if self._root_dominates(e):
            return (self._sum_leaves(e) & _NONNEG) or _NONNEG
        return self._sum_leaves(e)

    def _sum_leaves(self, e):
        lv = self._leaves(e, 1, [])
        tags = [(sg, x, self._tag(x)) for sg, x in lv]
        used, parts = set(), []
        for k, (sg, x, t) in enumerate(tags):
            if k in used or t is None or t[0] not in ('X', 'C'):
                continue
            # an element of row p is dominated by the row sum of row p (the iterate is symmetric: X[q, p] too)
            for k2, (sg2, x2, t2) in enumerate(tags):
                if k2 in used or k2 == k or t2 is None or sg2 != -sg:
                    continue
                if (t[0] == 'X' and t2[0] == 'R' and t2[1] in (t[1], t[2])) or (t[0] == 'C' and t2[0] == 'Crs' and t2[1] == t[1]):
                    used.update((k, k2))
                    parts.append(_NONNEG if sg2 > 0 else _NONPOS)
                    break
        for k, (sg, x, t) in enumerate(tags):
            if k not in used:
                m = self.sign(x)
                parts.append(m if sg > 0 else _sneg(m))
        out = _ZERO
        for m in parts:
            out = _sadd(out, m)
        return out

    def _divisor(self, den):
        d = self.sign(den)
        if d & _ZERO:
            w = self.zero_witness(den)
            t = u(den)
            mentioned = any(t in mt or (w is not None and w in mt) for mt in self.mentions)
            if w is not None and not mentioned:
                self.issues.append(('bad', 'divides by `%s`, which is zero whenever %s is (no counts there: admissible) and is not tested against zero '
                                    'on the way: the quotient is inf/nan' % (t[:60], w[:40])))
            else:
                self.issues.append(('unknown', 'divisor `%s` is not provably non-zero' % t[:60]))
            d &= ~_ZERO
            d = d or (_NEG | _POS)
        return d

    def _sign(self, e):
        est, fi = self.est, self.fi
        if isinstance(e, ast.Constant):
            v = e.value
            if isinstance(v, (int, float)) and not isinstance(v, bool):
                return _POS if v > 0 else _NEG if v < 0 else _ZERO
            return _ANY
        t = self._tag(e)
        if t is not None:
            return _POS if t[0] == 'Crs' else _NONNEG
        if isinstance(e, ast.Name):
            if e.id in (est.X, est.R, est.R_aux):
                return _NONNEG
            return self._name(e)
        if _est_rowsums(fi, e, est.P, self.st):
            return _POS
        if self._is_rowsum_of_X(e) or _est_counts(fi, e, est.P, self.st):
            return _NONNEG
        if isinstance(e, ast.UnaryOp) and isinstance(e.op, (ast.USub, ast.UAdd)):
            m = self.sign(e.operand)
            return _sneg(m) if isinstance(e.op, ast.USub) else m
        if isinstance(e, ast.BinOp):
            if isinstance(e.op, (ast.Add, ast.Sub)):
                return self._sum(e)
            if isinstance(e.op, ast.Mult):
                if u(e.left) == u(e.right):
                    return _NONNEG if self.sign(e.left) & _ZERO else _POS      # t * t
                return _smul(self.sign(e.left), self.sign(e.right))
            if isinstance(e.op, ast.Div):
                return _smul(self.sign(e.left), self._divisor(e.right))
            if isinstance(e.op, ast.Pow):
                k = const_value(e.right)
                b = self.sign(e.left)
                if isinstance(k, int) and not isinstance(k, bool) and k > 0 and k % 2 == 0:
                    return _POS if not b & _ZERO else _NONNEG
                if k == 0.5:
                    return self._sqrt(e.left)
                return b if not b & _NEG else _ANY
            return _ANY
        if isinstance(e, ast.Call):
            cn = call_name(e) or ''
            if cn in _SQRT and len(e.args) == 1:
                return self._sqrt(e.args[0])
            if cn in ('abs', 'np.abs', 'np.fabs', 'np.absolute') and len(e.args) == 1:
                return _NONNEG if self.sign(e.args[0]) & _ZERO else _POS
            if cn in ('float', 'np.float64', 'np.double') and len(e.args) == 1 and not e.keywords:
                return self.sign(e.args[0])
            if cn in ('np.divide', 'np.true_divide') and len(e.args) == 2 and not e.keywords:
                return _smul(self.sign(e.args[0]), self._divisor(e.args[1]))
            return _ANY
        if isinstance(e, ast.IfExp):
            return self.sign(e.body) | self.sign(e.orelse)
        return _ANY

    def _sqrt(self, a):
        m = self.sign(a)
        if m & _NEG:
            if not m & _POS:
                self.issues.append(('bad', 'takes the square root of `%s`, which is %s for every admissible input (nan as soon as it is non-zero)'
                                    % (u(a)[:70], _sname(m))))
            else:
                self.issues.append(('unknown', 'radicand `%s` is not provably non-negative' % u(a)[:70]))
        return _POS if m == _POS else _NONNEG

    def _name(self, n):
        """A name that is not a temporary: union over its reaching definitions,
        each evaluated where it is made."""
        fi = self.fi
        if self.depth <= 0:
            return _ANY
        try:
            defs = fi.rd.defs_at(self.st, n.id) if n not in fi.stmt_of else fi.defs_of_use(n)
        except Exception:
            return _ANY
        if not defs or 'UNBOUND' in defs or 'PARAM' in defs:
            return _ANY
        out = 0
        for d in defs:
            v = fi.def_value(d, n.id)
            if v is None:
                return _ANY
            sub = _Signs(self.est, d, self.depth - 1)
            try:
                out |= sub.sign(fi.expand(v))
            except RecursionError:
                return _ANY
            self.issues += sub.issues
        return out or _ANY


def _d7_nonneg(est, cells):
    """Every value stored into the symmetric matrix is >= 0 and finite."""
    rule = 'C04.D4.mle-nonneg'
    o, fi, X, q = est.o, est.fi, est.X, est.qual
    n = 0
    for s, t, p, r in cells:
        if not isinstance(s, ast.Assign):
            o.missing(rule, 'store into the symmetric matrix in a form the sign analysis does not read: %s' % u(s)[:80])
            continue
        n += 1
        sg = _Signs(est, s)
        try:
            v = s.value
            m = sg.sign(v if isinstance(v, ast.Name) and fi.temp_value(v) is None else fi.expand(v))
        except RecursionError:
            o.missing(rule, 'expression too deep: %s' % u(s)[:80])
            continue
        where = 'diagonal' if p == r else 'off-diagonal'
        bad = [txt for k, txt in sg.issues if k == 'bad']
        unknown = [txt for k, txt in sg.issues if k == 'unknown']
        if bad:
            o.check(False, rule, s, '', 'the value %s stores into the %s cell %s[%s, %s] %s; X then holds nan/inf, T = X / rowsum(X) is not a '
                    'stochastic matrix and the estimator fails its final assertion instead of returning a model' % (q, where, X, p, r, bad[0]),
                    construct='%s: value stored into a %s cell of the symmetric matrix: %s' % (q, where, bad[0].split(',')[0][:80]))
        elif unknown:
            o.missing(rule, 'value stored by %s: %s' % (u(s)[:60], unknown[0]))
        elif not m & _NEG:
            o.check(True, rule, s, 'the stored value is provably >= 0 and finite under C >= 0, rowsum(C)[p] >= C[p, q], X >= 0, rowsum(X)[p] >= X[p, q]',
                    '', construct='%s: value stored into a %s cell is >= 0' % (q, where))
        elif not m & _POS:
            o.check(False, rule, s, '', 'the value %s stores into the %s cell %s[%s, %s] is %s under the invariants of the iteration '
                    '(C >= 0, rowsum(C)[p] >= C[p, q], X >= 0, rowsum(X)[p] >= X[p, q]): X gets negative entries, so rows of '
                    'T = X / rowsum(X) are no probability distributions (and the coefficients of the next pair update change sign)'
                    % (q, where, X, p, r, _sname(m)), construct='%s: value stored into a %s cell is <= 0' % (q, where))
        else:
            o.missing(rule, 'cannot bound the sign of the value stored by %s' % u(s)[:80])
    est.ck.floor(rule, n, 1, 'store into a cell of the symmetric matrix in %s' % q)


def _cmp_cases(ml, op, mr):
    """Truth of `l op r` per pair of signs: list of ((sl, sr), 'T' | 'F' | 'M')."""
    order = {_NEG: -1, _ZERO: 0, _POS: 1}
    out = []
    for x in (_NEG, _ZERO, _POS):
        for y in (_NEG, _ZERO, _POS):
            if not (ml & x and mr & y):
                continue
            a, b = order[x], order[y]
            if a != b:
                lt = a < b
                v = {ast.Lt: lt, ast.LtE: lt, ast.Gt: not lt, ast.GtE: not lt, ast.Eq: False, ast.NotEq: True}.get(op)
            elif a == 0:
                v = {ast.Lt: False, ast.LtE: True, ast.Gt: False, ast.GtE: True, ast.Eq: True, ast.NotEq: False}.get(op)
            else:
                v = None
            out.append(((x, y), 'M' if v is None else 'T' if v else 'F'))
    return out


def _d7_asserts(est):
    """No assert of the estimator rejects what the quantifier admits or what
    the construction of the result guarantees."""
    rule = 'C04.D4.mle-asserts'
    from ..patterns import Cmp, conjuncts
    o, fi, q = est.o, est.fi, est.qual
    n = 0
    for s in walk_local(est.fn):
        if not isinstance(s, ast.Assert):
            continue
        for c in (conjuncts(s.test, True) or []):
            if isinstance(c, tuple) and c[0] == 'expr' and c[2]:
                e = c[1]
                inner = None
                if isinstance(e, ast.Call) and isinstance(e.func, ast.Attribute) and e.func.attr == 'all' and not e.args and not e.keywords:
                    inner = e.func.value
                elif isinstance(e, ast.Call) and call_name(e) in ('np.all', 'all') and len(e.args) == 1 and not e.keywords:
                    inner = e.args[0]
                if isinstance(inner, ast.Compare) and len(inner.ops) == 1:
                    c = Cmp(inner.left, type(inner.ops[0]), inner.comparators[0])
                elif isinstance(e, ast.Call) and call_name(e) in ('np.allclose', 'np.isclose') and len(e.args) >= 2 and const_value(e.args[1]) == 1:
                    a = e.args[0]
                    b = _pm(['_M.sum(axis=_A)', '_M.sum(_A)', '_M.sum()'], a)
                    if b is None or not isinstance(b['_M'], ast.Name):
                        continue
                    if b['_M'].id == est.T_name or (est.ret is not None and u(fi.expand(b['_M'])) == u(fi.expand(est.ret.value.elts[0]))):
                        n += 1
                        ax = _int_of(b['_A']) if '_A' in b else None
                        o.check(ax in (1, -1), rule, s, 'the final check asks for ROW sums of T equal to one, which T = X / rowsum(X) guarantees',
                                '%s asserts that the sums of T over axis %s are one; T = X / rowsum(X)[:, None] has ROW sums one, its column sums '
                                'are one only for doubly stochastic T, so the estimator raises AssertionError for (almost) every admissible count '
                                'matrix instead of returning the model' % (q, 'None (all entries)' if ax is None else ax),
                                construct='%s: final assertion on the row sums of T' % q if ax in (1, -1) else
                                '%s: final assertion on sums of T that are not its row sums' % q)
                    continue
                else:
                    continue
            if not isinstance(c, Cmp) or c.op not in (ast.Lt, ast.LtE, ast.Gt, ast.GtE, ast.Eq, ast.NotEq):
                continue
            sg = _Signs(est, s)
            try:
                el, er = fi.expand(c.lhs), fi.expand(c.rhs)
                ml, mr = sg.sign(el), sg.sign(er)
            except RecursionError:
                continue
            if ml == _ANY or mr == _ANY:
                continue            # an operand the abstraction says nothing about: not decided
            n += 1
            cases = _cmp_cases(ml, c.op, mr)
            truth = {k: v for k, v in cases}
            nonzero = [v for (x, y), v in cases if not (x == _ZERO and y == _ZERO)]
            text = '%s %s %s' % (u(c.lhs)[:50], c.rel, u(c.rhs)[:50])
            if all(v == 'T' for _, v in cases):
                o.check(True, rule, s, 'the assertion follows from the invariants of the iteration (left side %s, right side %s)'
                        % (_sname(ml), _sname(mr)), '', construct='%s: assertion implied by the invariants' % q)
            elif nonzero and all(v == 'F' for v in nonzero):
                o.check(False, rule, s, '', '%s asserts `%s`, but under the quantifier and the invariants of the iteration (non-negative counts, '
                        'positive row sums, X >= 0, rowsum(X)[p] >= X[p, q]) the left side is %s and the right side is %s: the assertion fails '
                        'for every admissible count matrix%s and the builder raises AssertionError instead of returning a model'
                        % (q, text, _sname(ml), _sname(mr), ' (except when both sides vanish)' if truth.get((_ZERO, _ZERO)) == 'T' else ''),
                        construct='%s: assertion contradicts the invariants (left %s, right %s)' % (q, _sname(ml), _sname(mr)))
            elif truth.get((_ZERO, _ZERO)) == 'F' and all(v == 'T' for v in nonzero):
                wl, wr = sg.zero_witness(el), sg.zero_witness(er)
                common = wl is not None and wr is not None and wl == wr
                if common:
                    o.check(False, rule, s, '', '%s asserts `%s` with a STRICT comparison although both sides carry the factor %s, which is zero '
                            'whenever the two states of the pair have no counts between them (admissible: any strongly connected chain with >= 3 '
                            'states that is not fully connected): both sides are then 0 and `0 %s 0` fails, so the builder raises AssertionError'
                            % (q, text, wl[:40], c.rel), construct='%s: strict assertion between two quantities that vanish together' % q)
    return n


def d7_estimator(ck, rel, qual):
    from ..core import AnalysisIncomplete
    try:
        mod = ck.repo.mod(rel)
        fn = mod.func(qual)
    except AnalysisIncomplete as e:
        ck.missing('C04.D6.mle-result', 'estimator %s not found (%s)' % (qual, e))
        return
    ck.analysed(mod, fn)
    est = _Estimator(ck, mod, fn, qual)
    _d7_result(est)
    if est.X is None or est.ret is None:
        return
    cells = _d7_symmetric(est)
    if est.R is None and est.R_aux is not None:
        est.R = est.R_aux           # maintained row sums the update formulas read, although pi is recomputed from X
    _d7_running(est, cells)
    _d7_nonneg(est, cells)
    _d7_asserts(est)


# ---------------------------------------------------------------------------
# D6 (dispatch): the call eq_probs makes reaches a solver that can take T
#
# normalize() hands the row-normalised matrix - an ndarray or any of the sparse
# containers, of any size - to eq_probs, which calls eigenspectrum with CONSTANT
# n_eigs / left.  With those constants substituted every branch condition of
# eigenspectrum is a function of two things only: is T sparse, and how the number
# of states N compares with the integer thresholds in the code.  That is a finite
# abstract domain ({sparse, dense} x the intervals between the thresholds); for
# every point of it the path the call takes is determined, and it must
#   * not end in `raise` (argument validation that rejects eq_probs' own arguments),
#   * apply sparse-only methods (.toarray/.tocsr/...) only to a sparse T,
#   * hand the dense LAPACK solver a dense matrix,
#   * ask ARPACK for fewer than N - 1 eigenpairs of a sparse matrix.

_SPARSE_ONLY = ('toarray', 'todense', 'tocsr', 'tocsc', 'tocoo', 'tolil', 'todok', 'asfptype', 'tobsr', 'todia')


def _input_container(e, T):
    """`e` is the parameter T up to transposition (still in the caller's container)."""
    while True:
        if isinstance(e, ast.Attribute) and e.attr == 'T':
            e = e.value
        elif isinstance(e, ast.Call) and isinstance(e.func, ast.Attribute) and e.func.attr in ('transpose', 'copy') and not e.args and not e.keywords:
            e = e.func.value
        else:
            break
    return isinstance(e, ast.Name) and e.id == T


class _Subst(ast.NodeTransformer):
    def __init__(self, table):
        self.table = table

    def visit_Name(self, n):
        if n.id in self.table and isinstance(n.ctx, ast.Load):
            return ast.copy_location(ast.Constant(value=self.table[n.id]), n)
        return n


def _lin_value(e, T, N):
    from .msm_common import linear
    g = linear(e, T)
    if g is None or any(k not in (1, 'N') for k in g):
        return None
    return g.get(1, 0) + g.get('N', 0) * N


def _eval_cond(e, T, sp, N):
    """Three-valued truth of a branch condition of eigenspectrum for a T that is
    sparse (sp) / dense and has N states; the constant arguments were substituted."""
    from .msm_common import _never_sparse
    if isinstance(e, ast.BoolOp):
        vs = [_eval_cond(v, T, sp, N) for v in e.values]
        if isinstance(e.op, ast.And):
            return False if any(v is False for v in vs) else None if any(v is None for v in vs) else True
        return True if any(v is True for v in vs) else None if any(v is None for v in vs) else False
    if isinstance(e, ast.UnaryOp) and isinstance(e.op, ast.Not):
        v = _eval_cond(e.operand, T, sp, N)
        return None if v is None else not v
    if isinstance(e, ast.Constant):
        return bool(e.value)
    if isinstance(e, ast.Compare) and len(e.ops) == 1:
        l, r, op = e.left, e.comparators[0], e.ops[0]
        if isinstance(op, (ast.Is, ast.IsNot)):
            if isinstance(l, ast.Constant) and isinstance(r, ast.Constant):
                same = l.value is r.value or (type(l.value) is type(r.value) and l.value == r.value and isinstance(l.value, (int, bool, type(None))))
                return same if isinstance(op, ast.Is) else not same
            return None
        if any(isinstance(x, ast.Constant) and x.value is None for x in (l, r)):
            return None             # ordering against None raises TypeError: not modelled
        a, b = _lin_value(l, T, N), _lin_value(r, T, N)
        if a is None or b is None:
            return None
        return {ast.Lt: a < b, ast.LtE: a <= b, ast.Gt: a > b, ast.GtE: a >= b, ast.Eq: a == b, ast.NotEq: a != b}.get(type(op))
    if isinstance(e, ast.Call) and (call_name(e) or '').split('.')[-1] in ('issparse', 'isspmatrix') and len(e.args) == 1 and not e.keywords:
        a = e.args[0]
        if _never_sparse(a):
            return False
        if _input_container(a, T):
            return sp
        inner = strip_conversions(a)
        if inner is not a and _input_container(inner, T) and isinstance(a, ast.Call) and isinstance(a.func, ast.Attribute) and \
                a.func.attr in ('tocsr', 'tocsc', 'tocoo', 'tolil', 'asfptype'):
            return True if sp else None
        return None
    if isinstance(e, ast.Call) and call_name(e) == 'isinstance' and len(e.args) == 2 and _input_container(e.args[0], T):
        t = u(e.args[1])
        if t in ('np.ndarray', 'numpy.ndarray'):
            return not sp
        if t in ('scipy.sparse.spmatrix', 'sparse.spmatrix', 'spmatrix'):
            return sp
    return None


def _thresholds(nodes, T):
    from .msm_common import linear
    out = set()
    for e in nodes:
        for c in ast.walk(e):
            if isinstance(c, ast.Compare) and len(c.ops) == 1:
                a, b = linear(c.left, T), linear(c.comparators[0], T)
                if a is None or b is None:
                    continue
                d = {k: a.get(k, 0) - b.get(k, 0) for k in set(a) | set(b)}
                if set(k for k, v in d.items() if v) <= {1, 'N'} and abs(d.get('N', 0)) == 1:
                    out.add(abs(d.get(1, 0)))
    return out


def d6_dispatch(ck, sigs):
    rule = 'C04.D6.spectrum.eq-probs-dispatch'
    from ..core import kwarg, param_default
    mod = ck.repo.mod(TM)
    fn, fe = mod.func('eigenspectrum'), mod.func('eq_probs')
    F = 'eigenspectrum'
    o = Once(ck, mod, fn, F)
    ps = params(fn)
    T = ps[0]
    calls = [c for c in walk_local(fe) if isinstance(c, ast.Call) and (call_name(c) or '').split('.')[-1] == 'eigenspectrum']
    if len(calls) != 1 or any(isinstance(a, ast.Starred) for a in calls[0].args) or any(k.arg is None for k in calls[0].keywords):
        return o.missing(rule, 'one eigenspectrum(...) call in eq_probs with explicit arguments (found %d)' % len(calls))
    call = calls[0]
    consts = {}
    for i, name in enumerate(ps[1:3], 1):
        a = call.args[i] if len(call.args) > i else kwarg(call, name)
        if a is None:
            a = param_default(fn, name)
        if not isinstance(a, ast.Constant):
            return o.missing(rule, 'eq_probs passes `%s` for %s of eigenspectrum: not a constant' % (u(a)[:40] if a is not None else '?', name))
        consts[name] = a.value
    paths = paths_or_missing(ck, rule, mod, fn, F)
    if paths is None:
        return
    sub = _Subst(consts)
    import copy as _copy
    P = []
    for p in paths:
        conds = [(pol, sub.visit(_copy.deepcopy(node))) for k, (pol, node) in p.conds.items() if k[0] != 'raises']
        P.append((p, conds, sub.visit(_copy.deepcopy(p.value))))
    th = _thresholds([n for _, conds, _ in P for _, n in conds], T)
    Ns = sorted({n for c in th | {1, 3, 5} for n in range(c - 2, c + 3) if n >= 1})
    shown = 'eigenspectrum(T, %s)' % ', '.join('%s=%r' % kv for kv in consts.items())
    n_ok = 0
    for sp in (False, True):
        for N in Ns:
            what = '%s T with %d state%s' % ('a sparse' if sp else 'a dense (ndarray)', N, '' if N == 1 else 's')
            for p, conds, value in P:
                vals = [(_eval_cond(node, T, sp, N), pol) for pol, node in conds]
                if any(v is not None and v != pol for v, pol in vals):
                    continue
                sure = all(v is not None for v, _ in vals)
                problem = None
                if p.kind == 'raise':
                    problem = ('raise', 'ends in `raise %s`: the validation of eigenspectrum rejects the very arguments eq_probs passes, so '
                               'normalize(C) raises whenever populations are asked for' % u(p.value)[:60])
                else:
                    for x in [n for e in [value] + [n for _, n in conds] for n in ast.walk(e)]:
                        if isinstance(x, ast.Call) and isinstance(x.func, ast.Attribute) and x.func.attr in _SPARSE_ONLY and \
                                _input_container(x.func.value, T) and not sp:
                            problem = ('sparse-only', 'calls `.%s()` on T itself, a method only sparse matrices have: AttributeError for an ndarray'
                                       % x.func.attr)
                            break
                        if isinstance(x, ast.Call) and (call_name(x) or '').split('.')[-1] in ('eig', 'eigvals') and \
                                'sparse' not in (call_name(x) or '') and x.args and _input_container(x.args[0], T) and sp:
                            problem = ('dense-solver', 'hands the sparse matrix itself to the dense solver %s, which cannot take a scipy sparse matrix'
                                       % call_name(x))
                            break
                        if isinstance(x, ast.Call) and (call_name(x) or '').split('.')[-1] == 'eigs' and sp:
                            A = (x.args + [k.value for k in x.keywords if k.arg == 'A'])[:1]
                            kk = x.args[1] if len(x.args) > 1 else kwarg(x, 'k')
                            if A and kk is not None and _input_container(strip_conversions(A[0]), T):
                                kv = _lin_value(kk, T, N)
                                if kv is not None and kv >= N - 1:
                                    problem = ('arpack-k', 'asks ARPACK for k = %d eigenpairs of a sparse %d x %d matrix: scipy.sparse.linalg.eigs '
                                               'raises TypeError for k >= N - 1' % (kv, N, N))
                                    break
                if problem is None:
                    n_ok += sure
                    continue
                if not sure:
                    o.missing(rule, 'for %s a path of %s that may be taken %s, but some of its conditions are not decided: %s'
                              % (what, shown, problem[1][:80], [u(n)[:50] for (v, _), (_, n) in zip(vals, conds) if v is None][:3]))
                    continue
                cs = ' and '.join(('' if pol else 'not ') + '(%s)' % u(n)[:60] for pol, n in conds)
                o.check(False, rule, p.stmt, '', 'for %s the call %s that eq_probs makes takes the path [%s], which %s; the stationary vector '
                        'of normalize() must be delivered for dense input and every sparse container of every size'
                        % (what, shown, cs[:300], problem[1]),
                        construct='eq_probs -> eigenspectrum, %s input: %s' % ('sparse' if sp else 'dense', problem[0]))
    if n_ok:
        o.check(True, rule, None, 'for dense and sparse T of every size class (N around %s) the call %s reaches a solver that accepts T and '
                'never a raise' % (sorted(th), shown), '', construct='eq_probs -> eigenspectrum: dispatch over container x size')
    ck.floor(rule, n_ok, 1, 'decided (container, size) points of the eq_probs call')


def d6_normalize(ck, mod, sigs):
    rule = 'C04.D6.normalize'
    fn, aps = builder_paths(ck, mod, 'normalize', sigs)
    if aps is None:
        return
    F = 'normalize'
    calc = params(fn)[2]
    o = Once(ck, mod, fn, F)
    n = 0
    for p0 in aps:
        v = p0.value
        if not (isinstance(v, ast.Tuple) and len(v.elts) == 3):
            o.missing(rule, 'normalize does not return a triple: %s' % u(v)[:120])
            continue
        n += 1
        rn = _distinct(c for c in _calls(v, '_row_normalize') if (c.args + [k.value for k in c.keywords])[:1]
                       and u((c.args + [k.value for k in c.keywords])[0]) == PRIOR)
        p = p0.abbrev({u(rn[0]): 'PROBS__'}, sigs) if rn else p0
        e0, e1, e2 = p.value.elts
        bad = 'normalize must return (C, _row_normalize(C), eq_probs(T))'
        # (the normalised matrix is itself a function of the counts: returning it in the counts slot is a wrong operand, not an unknown one)
        o.decide(sclassify(e0, [PRIOR], {PRIOR, 'PROBS__'} if rn else {PRIOR}, sigs), rule, e0, 'counts (with prior) returned', bad,
                 construct='C -> %s' % u(e0)[:80])
        o.decide(sclassify(e1, ['PROBS__'], {PRIOR, 'PROBS__'}, sigs) if rn else sclassify(e1, ['_row_normalize(%s)' % PRIOR], {PRIOR}, sigs),
                 rule, e1, 'T = row-normalised counts', bad, construct='T -> %s' % u(e1)[:80])
        _pops(o, rule, p, calc, sigs, e2, ['eq_probs(PROBS__)'], {PRIOR, 'PROBS__'}, 'pi = stationary vector of that T', bad,
              'pi -> eq_probs(T)')
    ck.floor(rule, n, 1, 'return path of normalize')


def _guarded(ck, rule, f, *args):
    """A rule that breaks down on an unforeseen shape must not hide what the
    other rules found, and is never a violation: it becomes incomplete."""
    try:
        return f(ck, *args)
    except (AttributeError, KeyError, IndexError, TypeError, ValueError, RecursionError) as e:
        ck.missing(rule, 'construct outside the shapes the rule models (%r)' % (e,))


def check(ck):
    mod = ck.repo.mod(BU)
    sigs = _sigs(ck)
    _guarded(ck, 'C04.D1.prior-first.add', d1_apply_prior, mod, sigs)
    _guarded(ck, 'C04.D3.row-orientation', d3_row_normalize, mod, sigs)
    _guarded(ck, 'C04.D3.transpose', d3_transpose, mod, sigs)
    _guarded(ck, 'C04.D5.container', d5_mle, mod, sigs)
    _guarded(ck, 'C04.D6.normalize', d6_normalize, mod, sigs)
    _guarded(ck, 'C04.D4.zero-denominator', d4_estimator, BU, '_prinz_mle_py', True)
    _guarded(ck, 'C04.D4.zero-denominator', d4_estimator, LM, '_mle_prinz_dense', False)
    _guarded(ck, 'C04.D6.mle-result', d7_estimator, BU, '_prinz_mle_py')
    _guarded(ck, 'C04.D6.spectrum', check_spectrum, 'C04.D6')
    _guarded(ck, 'C04.D6.spectrum.eq-probs-dispatch', d6_dispatch, sigs)
    check_no_arg_mutation(ck, 'C04.D2.inputs-unmodified', [
        (BU, 'mle'), (BU, 'transpose'), (BU, 'normalize'),
        (BU, '_apply_prior_counts'), (BU, '_row_normalize'),
        (BU, '_prinz_mle_py'), (BU, '_prinz_mle'), (TM, 'eq_probs'),
        (TM, 'eigenspectrum'), (LM, '_mle_prinz_dense')])
    return EXPLANATION

"""C04 Builders: prior counts first, caller's matrix unchanged, row
orientation, zero-row guard, container discipline, stationary vector.

The builders are loop-free, so the rules are decided on the SYMBOLIC VALUE
of every feasible return path (msm_common.SymExec): each local is replaced by
the expression over the parameters it holds on that path, and the branch
conditions of the path are kept.  Constructs are then located by role ("the
argument of the estimator call", "the diagonal operand of the product", "the
mask of the store into the zero vector") inside that value, never by the
names of locals or the position of statements, and compared with lists of
accepted forms (three-valued: accepted / a different pure function of the
same operands = violation / not recognised = analysis incomplete)."""
import ast

from ..core import base_name, call_name, params, u, walk_local
from ..patterns import calls_in, check_no_arg_mutation, finfo
from .msm_common import (BU, TM, LM, Once, _distinct, _sigs, abbreviate,
                         check_spectrum, closed_over, norm, paths_or_missing,
                         sclassify, smatch, sparsity_cond, strip_conversions)

EXPLANATION = (
    'Static decision of the structural necessary conditions of the builder '
    'contract: (D1) every builder applies prior counts first and every later '
    'use of the counts sees that definition; (D2) no store reaches the '
    'caller\'s matrix (alias/effects incl. scipy csr_matrix(C)/asfptype views '
    'and .data); (D3) row normalisation scales ROWS by 1/row-sum in both the '
    'dense (column-vector broadcast) and the sparse (LEFT diagonal product) '
    'branch, and the transpose builder derives populations from the same '
    'symmetrised matrix it normalises; (D4) reciprocal weights are taken only '
    'under the weights > 0 mask, into a zero-initialised vector, and inside the '
    'reversible estimator every division by a count deficit rowsum(C)[p] - C[p, q] '
    '(zero for a state with all its counts in one cell: one-state chain, two-state '
    'flip chain) is dominated by a test excluding zero; (D5) sparse '
    'input is densified with an ndarray (never bare np.matrix) and outputs are '
    're-wrapped in the input container; (D6) the stationary vector is the '
    'sum-normalised leading left eigenvector under a descending-real-part '
    'order applied to values and columns alike; (D5, scipy transfer table) the '
    'counts-with-prior are never the np.matrix of `sparse + ndarray`, no '
    'container-dependent operation (axis-less .sum(): bsr; `/ int`: lil, dok) is '
    'applied to a matrix still in the caller\'s container, and the sparse row '
    'sums are not formed in the float32 that asfptype() gives small integer '
    'dtypes. Stochasticity/stationarity/'
    'detailed balance as numerical identities are not decided.')

PRIOR = 'PRIOR__'        # symbol for _apply_prior_counts(C, prior_counts)
ESTIMATORS = ('_prinz_mle_py', '_prinz_mle', '_mle_prinz_dense')


def _names(node, name):
    return [n for n in ast.walk(node) if isinstance(n, ast.Name) and n.id == name]


def _calls(node, *names):
    return [c for c in ast.walk(node) if isinstance(c, ast.Call) and (call_name(c) or '').split('.')[-1] in names]


def _is_none(node):
    return isinstance(node, ast.Constant) and node.value is None


def _asked(p, calc, sigs):
    """Are the populations asked for on this path?  True / False from the
    branch condition on `calc`; None if the path does not depend on it;
    'unknown' if it tests `calc` in a form the rule does not read."""
    want = p.pol([calc], sigs)
    if want is None and any(_names(e, calc) for e in p.exprs()[1:]):
        return 'unknown'
    return want


def _pops(o, rule, p, calc, sigs, e2, forms, scope, ok_text, bad_text, construct):
    """Third element of a builder result: the populations when asked for,
    None (or the populations) when not."""
    want = _asked(p, calc, sigs)
    if _is_none(e2) and want is False:
        return o.check(True, rule, e2, 'no populations when not asked', '', construct='%s=False: pi -> None' % calc)
    if _is_none(e2) and want == 'unknown':
        return o.missing(rule, 'the path tests `%s` in an unfamiliar form; cannot tell whether populations were asked for' % calc)
    v = sclassify(e2, forms, scope, sigs)
    return o.decide(v, rule, e2, ok_text, bad_text, construct=construct if v[0] == 'match' else None)


# ---------------------------------------------------------------------------
# container provenance of `counts + prior`
#
# scipy transfer facts used (scipy.sparse._base / _data, all *_matrix classes):
#   spmatrix + python/numpy scalar (non-zero)  raises NotImplementedError
#   spmatrix + ndarray                          is an np.matrix
#   spmatrix + spmatrix                         is an spmatrix
#   ndarray  + scalar / ndarray                 is an ndarray
# np.matrix is neither the container that was passed in nor the ndarray that
# "adding prior counts to a sparse matrix legitimately densifies it" promises:
# `*` is the matrix product on it, axis sums stay 2-D, x[i] is a 1 x n matrix
# (the Prinz iteration stores matrices into cells and raises ValueError).

_MATRIX_T = ('np.matrix', 'numpy.matrix')


def _is_matrix_test(e, of=None):
    """`e` is isinstance(<x>, np.matrix) (for x == `of`, if given)."""
    if not (isinstance(e, ast.Call) and call_name(e) == 'isinstance' and len(e.args) == 2 and not e.keywords):
        return False
    t = e.args[1]
    ts = t.elts if isinstance(t, ast.Tuple) else [t]
    if not all(u(x) in _MATRIX_T for x in ts):
        return False
    return of is None or u(e.args[0]) == u(of)


def _matrix_excluded(p, v):
    """Polarity of a path condition isinstance(<v>, np.matrix) (None: untested)."""
    for k, (pol, node) in p.conds.items():
        if k[0] != 'raises' and _is_matrix_test(node, v):
            return pol
    return None


def _sum_operands(v):
    if isinstance(v, ast.BinOp) and isinstance(v.op, ast.Add):
        return [v.left, v.right]
    if isinstance(v, ast.Call) and call_name(v) in ('np.add', 'numpy.add') and len(v.args) == 2 and not v.keywords:
        return list(v.args)
    return None


def _prior_value_kind(p, C):
    """Container of the value a path of _apply_prior_counts returns:
    'same' (the argument itself), 'ndarray' (base ndarray by construction, or
    a sum that the path has tested not to be an np.matrix), 'matrix?' (sum of
    the bare, possibly sparse, argument: np.matrix for sparse counts and an
    array-valued prior), None (not recognised)."""
    v = p.value
    if isinstance(v, ast.Name) and v.id == C:
        return 'same'
    if _ensures_ndarray(v):
        return 'ndarray'
    ops = _sum_operands(v)
    if ops is None:
        return None
    if any(_ensures_ndarray(x) for x in ops):
        return 'ndarray'
    if any(_counts_of(x, C) for x in ops):
        return 'ndarray' if _matrix_excluded(p, v) is False else 'matrix?'
    return None


def _prior_container(o, p, C, pc):
    """The counts-with-prior handed to the builders are an ndarray or a sparse
    matrix on every path - never the np.matrix scipy makes of
    `sparse matrix + ndarray`."""
    rule = 'C04.D5.container.prior-no-matrix'
    kind = _prior_value_kind(p, C)
    if kind is None:
        return                      # content of the sum is decided by C04.D1.prior-first.add
    o.check(kind != 'matrix?', rule, p.value,
            'the sum with the prior is an ndarray by construction (or tested not to be an np.matrix)',
            '_apply_prior_counts returns the bare sum of the (possibly sparse) counts and the prior: for a scipy sparse matrix and an '
            'array-valued prior (documented: "int or array, shape=(n_states, n_states)") scipy returns an np.matrix, which mle passes '
            'to the Prinz iteration (issparse is False: no densification; X[i, i] = <1x1 matrix> raises ValueError) and which '
            'normalize/transpose hand back as the counts; convert it (np.asarray) or densify the counts before adding',
            construct='prior given: counts + prior as ndarray' if kind != 'matrix?' else
            'prior given: bare sum of the possibly sparse counts and the prior (np.matrix for sparse + array)')


# ---------------------------------------------------------------------------
# D1: prior counts first

def builder_paths(ck, mod, b, sigs):
    """Return paths of builder `b` with `_apply_prior_counts(C, prior)`
    abbreviated to PRIOR__, after deciding D1 for that builder."""
    rule = 'C04.D1.prior-first'
    fn = mod.func(b)
    ck.analysed(mod, fn)
    C, pc = params(fn)[0], params(fn)[1]
    paths = paths_or_missing(ck, rule, mod, fn, b)
    if paths is None:
        return fn, None
    o = Once(ck, mod, fn, b)
    ptext = u(norm(ast.parse('_apply_prior_counts(%s, %s)' % (C, pc), mode='eval').body, sigs))
    aps = [p.abbrev({ptext: PRIOR}, sigs) for p in paths if p.kind == 'return']
    if not aps:
        ck.missing(rule, '%s has no return path' % b)
        return fn, None
    exprs = [e for p in aps for e in p.exprs()]
    has_prior = [p for p in aps if _names(p.value, PRIOR)]
    other = [c for e in exprs for c in _calls(e, '_apply_prior_counts')]
    uses_pc = any(_names(e, pc) for e in exprs)
    if len(has_prior) == len(aps):
        o.check(True, rule, None, 'the counts every result is computed from are _apply_prior_counts(%s, %s)' % (C, pc), '',
                construct='%s = _apply_prior_counts(%s, %s)' % (C, C, pc))
    elif other:
        o.check(False, rule, other[0], '',
                '%s must start with %s = _apply_prior_counts(%s, %s): estimating first and adding '
                'pseudocounts later (or never) changes every probability; here the prior is applied to %s'
                % (b, C, C, pc, u(other[0])[:120]))
    elif not uses_pc and not has_prior:
        o.check(False, rule, None, '', '%s never uses `%s`: prior counts are ignored (the builder must start with '
                '%s = _apply_prior_counts(%s, %s))' % (b, pc, C, C, pc), construct='%s: no use of %s' % (b, pc))
    elif has_prior:
        bad = [p for p in aps if not _names(p.value, PRIOR)][0]
        o.check(False, rule, bad.stmt, '', 'a return path of %s computes its result without the prior counts' % b)
    else:
        ck.missing(rule, '%s uses `%s` but not through _apply_prior_counts(%s, %s): prior handling not recognised' % (b, pc, C, pc))
    raw = sorted((n for e in exprs for n in _names(e, C)), key=lambda n: getattr(n, 'lineno', 10 ** 6))
    o.check(not raw, rule, raw[0] if raw else None, 'every use of the counts includes the prior',
            'a use of `%s` can still see the raw argument (without prior counts)' % C,
            construct=None if raw else 'uses of %s after the prior' % C)
    if len(has_prior) != len(aps):
        return fn, None      # the counts-with-prior cannot be identified: the structure rules have no anchor
    return fn, aps


def d1_apply_prior(ck, mod, sigs):
    rule = 'C04.D1.prior-first.add'
    fa = mod.func('_apply_prior_counts')
    F = '_apply_prior_counts'
    ck.analysed(mod, fa)
    C, pc = params(fa)[:2]
    o = Once(ck, mod, fa, F)
    paths = paths_or_missing(ck, rule, mod, fa, F)
    n_add = n_id = 0
    added = ['%s + %s' % (C, pc), '%s + %s' % (pc, C), 'np.add(%s, %s)' % (C, pc)]
    for d in ('np.array(%s.todense())', 'np.asarray(%s.todense())', '%s.toarray()', '%s.todense().A', '%s.A',
              'np.asarray(%s.toarray())', 'np.array(%s.toarray())'):
        added += ['%s + %s' % (d % C, pc), '%s + %s' % (pc, d % C)]
    # (wrapping the sum into an ndarray only turns the np.matrix of `sparse + array` into an ndarray)
    added += [w % a for a in list(added) for w in ('np.asarray(%s)', 'np.array(%s)')]
    for p in (paths or []):
        if p.kind != 'return':
            continue
        v = p.value
        none = p.pol(['%s is None' % pc], sigs)
        tests_pc = any(_names(e, pc) for e in p.exprs()[1:] if not _is_matrix_test(e))
        if none is None and tests_pc:
            g = [e for e in p.exprs()[1:] if _names(e, pc) and not _is_matrix_test(e)]
            if all(closed_over(e, {pc}) for e in g):
                # a different pure test of the prior alone (truthiness, == 0 ...)
                o.check(False, rule, g[0], '', 'prior must be applied iff it is not None: the guard `%s` is a different test of `%s` '
                        '(truthiness fails for array priors and skips a prior of 0)' % (u(g[0])[:60], pc), construct='guard: %s' % u(g[0])[:100])
            else:
                o.missing(rule, 'guard of _apply_prior_counts is not a test `%s is None`: %s' % (pc, [u(e)[:60] for e in g]))
            continue
        if none is True or (none is None and u(v) == C):
            n_id += 1
            ok = none is True
            if u(v) == C:
                o.check(ok, rule, p.stmt, 'no prior -> counts returned unchanged',
                        'prior must be applied iff it is not None: a path returns the counts unchanged without having tested `%s is None`' % pc,
                        construct='%s is None -> %s' % (pc, u(v)) if ok else 'return %s' % u(v))
            else:
                o.decide(sclassify(v, [C], {C, pc}, sigs), rule, v, '', 'without prior counts the counts must be returned unchanged',
                         construct='%s is None -> %s' % (pc, u(v)[:120]))
            continue
        n_add += 1
        o.decide(sclassify(v, added, {C, pc}, sigs), rule, v, 'C + prior_counts builds a new matrix',
                 '_apply_prior_counts must return C + prior_counts (a new object) whenever a prior is given',
                 construct='%s is not None -> %s' % (pc, u(v)[:120]))
        _prior_container(o, p, C, pc)
    if paths is not None:
        ck.floor(rule, n_add, 1, 'path adding the prior counts')
        ck.floor(rule, n_id, 1, 'path for prior_counts=None')
    # the sum must be a NEW object: no augmented assignment on (an alias of) the argument
    alias = {C}
    for s in walk_local(fa):
        if isinstance(s, ast.Assign) and isinstance(s.value, ast.Name) and s.value.id in alias:
            alias.update(t.id for t in s.targets if isinstance(t, ast.Name))
    ia = [s for s in walk_local(fa) if isinstance(s, ast.AugAssign) and base_name(s.target) in alias]
    ck.check(not ia, rule, mod, ia[0] if ia else fa, F, u(ia[0]) if ia else 'no augmented assignment',
             'no augmented assignment on the caller\'s matrix', '`C += prior_counts` would modify the caller\'s matrix in place')


# ---------------------------------------------------------------------------
# D3/D4/D5: _row_normalize

def _counts_of(node, C):
    """Is `node` the count matrix `C` up to value-preserving conversions
    (csr_matrix(C), .asfptype(), np.array(C), .astype(float) ...)?"""
    while True:
        node = strip_conversions(node)
        if isinstance(node, ast.Call) and (call_name(node) or '').split('.')[-1] in (
                'csr_matrix', 'csc_matrix', 'coo_matrix', 'lil_matrix', 'csr_array') and len(node.args) == 1 and \
                all(k.arg == 'dtype' for k in node.keywords):
            node = node.args[0]
        elif isinstance(node, ast.Call) and isinstance(node.func, ast.Attribute) and node.func.attr == 'astype' and \
                len(node.args) == 1 and u(node.args[0]) in ('float', 'np.float64', 'np.float_', "'float'", "'float64'"):
            node = node.func.value
        else:
            break
    return isinstance(node, ast.Name) and node.id == C


_TO_NDARRAY = ('np.array', 'np.asarray', 'np.ascontiguousarray', 'np.asfortranarray', 'numpy.array', 'numpy.asarray')


def _ensures_ndarray(node):
    """Some layer of the conversion chain around `node` guarantees a BASE-CLASS
    ndarray whatever array-like comes in: np.array / np.asarray (without
    subok=True), .toarray(), .A.  (.copy(), .astype(), np.asanyarray keep an
    np.matrix an np.matrix: `*` stays the matrix product, sums stay 2-D.)"""
    while True:
        if isinstance(node, ast.Call) and call_name(node) in _TO_NDARRAY:
            so = [k for k in node.keywords if k.arg == 'subok']
            return not so or (isinstance(so[0].value, ast.Constant) and so[0].value.value is False)
        if isinstance(node, ast.Call) and getattr(node, '_from_np_array', False):
            return True                  # np.array(name), spelled name.copy() by the canonical form
        if isinstance(node, ast.Call) and isinstance(node.func, ast.Attribute) and node.func.attr == 'toarray':
            return True
        if isinstance(node, ast.Attribute) and node.attr == 'A':
            return True
        if isinstance(node, ast.Call) and isinstance(node.func, ast.Attribute) and node.func.attr in ('copy', 'astype', 'view') and \
                not getattr(node, '_from_np_array', False):
            node = node.func.value
        elif isinstance(node, ast.Call) and call_name(node) in ('np.asanyarray', 'np.copy') and node.args:
            node = node.args[0]
        else:
            return False


def _matrix_may_reach(ck, mod, sigs):
    """Can an np.matrix reach `_row_normalize` although the callers only pass
    ndarrays and sparse matrices?  `sparse + dense array` is an np.matrix in
    scipy, so `C + prior_counts` in _apply_prior_counts yields one for sparse
    counts with an array-valued prior ("adding prior counts to a sparse matrix
    legitimately densifies it").  True: some return value of
    _apply_prior_counts is such a sum of the bare argument; False: every sum
    is taken of / wrapped into an ndarray; None: not recognised."""
    fa = mod.func('_apply_prior_counts')
    if fa is None:
        return None
    try:
        from .msm_common import symexec
        paths = symexec(fa, sigs)
    except Exception:
        return None
    C = params(fa)[0]
    verdict = False
    for p in paths:
        if p.kind != 'return':
            continue
        kind = _prior_value_kind(p, C)
        if kind is None:
            return None
        if kind == 'matrix?':
            verdict = True
    return verdict


DIAG_FORMS = ['scipy.sparse.dia_matrix((_IW, 0), _SH).tocsr()', 'scipy.sparse.dia_matrix((_IW, 0), _SH)',
              'scipy.sparse.dia_matrix((_IW, 0), _SH).tocsc()', 'scipy.sparse.dia_matrix((_IW, [0]), _SH).tocsr()',
              'scipy.sparse.diags(_IW)', 'scipy.sparse.diags(_IW, 0)', 'scipy.sparse.diags(_IW).tocsr()',
              'scipy.sparse.diags(_IW, 0).tocsr()', 'scipy.sparse.diags([_IW], [0])', 'scipy.sparse.diags([_IW], [0]).tocsr()',
              'scipy.sparse.spdiags(_IW, 0, _N1, _N2)', 'scipy.sparse.spdiags(_IW, 0, _N1, _N2).tocsr()']
COLUMN_FORMS = ['_IW[:, None]', '_IW.reshape(_N1, 1)', 'np.expand_dims(_IW, 1)', 'np.expand_dims(_IW, axis=1)',
                'np.expand_dims(_IW, -1)', '_IW[:, None].copy()']


def _dense_ndarray(o, sigs, C, A, node, what):
    """Dense branch: `A` (the counts up to conversions) is used in a way that is
    only right for a base ndarray."""
    rule = 'C04.D5.container.dense-ndarray'
    if _ensures_ndarray(A):
        return o.check(True, rule, node, 'the dense branch converts its input to a base ndarray before element-wise arithmetic', '',
                       construct='dense: counts as ndarray (%s)' % u(A)[:60])
    reach = _matrix_may_reach(o.ck, o.mod, sigs)
    if reach is False:
        return o.check(True, rule, node, '_apply_prior_counts never returns np.matrix: only ndarrays reach the dense branch', '',
                       construct='dense: counts are ndarray at the producer')
    if reach is None:
        return o.missing(rule, 'the dense branch of _row_normalize uses `%s` without np.array/np.asarray and the values returned by '
                         '_apply_prior_counts are not recognised: cannot tell whether np.matrix can reach it' % u(A)[:60])
    return o.check(False, rule, node, '',
                   'the dense branch must turn its input into a base ndarray (C = np.array(C)) first: sparse counts + array-valued '
                   'prior_counts is an np.matrix (scipy), for which %s only after the conversion; on np.matrix `*` is the MATRIX '
                   'product and axis sums stay 2-D, so T is no longer counts / row totals' % what,
                   construct='dense: `%s` used without ndarray conversion' % u(A)[:60])


_F64 = ('float', 'np.float64', 'np.float_', 'np.double', "'float'", "'float64'", "'d'", "'f8'")


def _sum_precision(node, C):
    """Floating type in which the row sums of the SPARSE counts are formed,
    read off the conversion chain between the parameter and `.sum(axis=1)`
    (outermost conversion first):
      'float64'  an explicit cast to double decides (.astype(np.float64), dtype=float)
      'fptype'   the counts go through .asfptype() and no cast to double follows:
                 scipy upcasts int8/uint8/int16/uint16/bool to float32 ONLY, so the
                 sums and 1/sum carry single precision
      'native'   no floating conversion: integer counts are summed exactly (scipy
                 widens the accumulator) and 1.0/sum is a double
      None       the chain does not end at the parameter."""
    seen_fp = False
    while True:
        if isinstance(node, ast.Call) and isinstance(node.func, ast.Attribute) and not node.args and not node.keywords and \
                node.func.attr in ('tocsr', 'tocsc', 'tocoo', 'tolil', 'copy'):
            node = node.func.value
        elif isinstance(node, ast.Call) and isinstance(node.func, ast.Attribute) and node.func.attr == 'asfptype' and \
                not node.args and not node.keywords:
            seen_fp = True
            node = node.func.value
        elif isinstance(node, ast.Call) and isinstance(node.func, ast.Attribute) and node.func.attr == 'astype' and \
                len(node.args) + len(node.keywords) >= 1:
            t = u((node.args + [k.value for k in node.keywords if k.arg == 'dtype'] + [None])[0]) if (
                node.args or any(k.arg == 'dtype' for k in node.keywords)) else None
            if t in _F64:
                return 'float64'    # (a later .asfptype() leaves a double a double)
            return None             # a cast to some other type: not modelled
        elif isinstance(node, ast.Call) and (call_name(node) or '').split('.')[-1] in (
                'csr_matrix', 'csc_matrix', 'coo_matrix', 'lil_matrix') and \
                len(node.args) + sum(1 for k in node.keywords if k.arg == 'arg1') == 1:
            dt = [k.value for k in node.keywords if k.arg == 'dtype']
            if any(k.arg not in ('arg1', 'dtype', 'copy') for k in node.keywords):
                return None
            if dt:
                return 'float64' if u(dt[0]) in _F64 else None
            node = (node.args + [k.value for k in node.keywords if k.arg == 'arg1'])[0]
        elif isinstance(node, ast.Name) and node.id == C:
            return 'fptype' if seen_fp else 'native'
        else:
            return None


def _inv_weights(o, sigs, C, label, IW, dense):
    """IW must be  _store(zeros[W > 0], 1 / W[W > 0])  with W the row sums of C."""
    rule4 = 'C04.D4.zero-row'
    rule3 = 'C04.D3.row-orientation.weights'
    guard_msg = ('%s branch: 1/weights must be computed under the mask weights > 0 on both sides, into a zero vector '
                 '(division by a zero row sum gives inf/NaN rows)' % label)
    b = smatch('_store(_Z[_MASK], _VAL)', IW, sigs)
    if b is None:
        o.decide(sclassify(IW, ['_store(np.zeros(_N1)[0 < _W], 1.0 / _W[0 < _W])'], {C}, sigs), rule4, IW, '', guard_msg)
        return
    Z, MASK, VAL = b['_Z'], b['_MASK'], b['_VAL']
    o.decide(sclassify(Z, ['np.zeros(_N1)', 'np.zeros(_N1, dtype=float)', 'np.zeros(_N1, float)', 'np.zeros(_N1, dtype=np.float64)',
                           'np.zeros(_N1, np.float64)', 'np.zeros_like(_W1, dtype=float)', 'np.zeros(_N1, dtype=np.double)'], {C}, sigs),
             rule4, Z, 'rows without counts get weight 0 (initialised vector)',
             '%s branch: inv_weights must start as np.zeros(n_states) (np.empty would leave zero rows undefined)' % label,
             construct='%s: inv_weights starts as %s' % (label, u(Z)[:100]))
    bm = smatch(['0 < _W', '_W != 0'], MASK, sigs)
    if bm is None:
        o.decide(sclassify(MASK, ['0 < _W'], {C}, sigs), rule4, MASK, '', guard_msg, construct='%s: mask %s' % (label, u(MASK)[:120]))
        return
    W = bm['_W']
    m = u(MASK)
    vforms = ['1.0 / _W[%s]' % m, '1 / _W[%s]' % m, 'np.reciprocal(_W[%s])' % m, '1.0 / _W[%s].astype(float)' % m,
              'np.divide(1.0, _W[%s])' % m, 'np.divide(1, _W[%s])' % m]
    o.decide(sclassify(VAL, vforms, {C}, sigs, binds={'_W': W}), rule4, VAL,
             'reciprocal taken only where weights > 0, same mask on both sides', guard_msg,
             construct='%s: inv_weights[m] = 1/weights[m], m = %s' % (label, 'weights > 0' if m.startswith('0 <') else 'weights != 0')
             if smatch(vforms, VAL, sigs, {'_W': W}) is not None else None)
    wforms = ['np.asarray(_A.sum(axis=1)).flatten()', 'np.asarray(_A.sum(axis=1)).ravel()', 'np.array(_A.sum(axis=1)).flatten()',
              'np.array(_A.sum(axis=1)).ravel()', 'np.asarray(_A.sum(axis=1)).reshape(-1)', '_A.sum(axis=1).A1',
              'np.asarray(_A.sum(1)).flatten()', 'np.asarray(_A.sum(1)).ravel()', 'np.asarray(_A.sum(axis=-1)).flatten()',
              'np.squeeze(np.asarray(_A.sum(axis=1)))', 'np.asarray(_A.sum(axis=1)).squeeze()']
    flat = list(wforms)
    if dense:
        wforms += ['_A.sum(axis=1)', '_A.sum(1)', '_A.sum(axis=-1)', 'np.asarray(_A.sum(axis=1))', '_A.sum(axis=1).flatten()']
    v = sclassify(W, wforms, {C}, sigs)
    if v[0] == 'match' and dense and smatch(flat, W, sigs) is None and _counts_of(v[1]['_A'], C):
        # 1-D only if the summed object is a base ndarray (np.matrix sums stay 2-D)
        _dense_ndarray(o, sigs, C, v[1]['_A'], W, 'the row sums `%s` are 1-D' % u(W)[:60])
    if v[0] == 'match' and not dense and _counts_of(v[1]['_A'], C):
        # dtype provenance of the sums: the dense sibling sums the integers exactly and divides in double
        prec = _sum_precision(v[1]['_A'], C)
        rule5 = 'C04.D3.row-orientation.sparse-precision'
        if prec is None:
            o.missing(rule5, 'conversion chain of the summed sparse counts not recognised: %s' % u(v[1]['_A'])[:100])
        else:
            o.check(prec != 'fptype', rule5, W, 'sparse branch: row sums formed in double precision (or exactly, in integers)',
                    'sparse branch: the counts are converted with .asfptype() before the row sums are taken; scipy upcasts '
                    'int8/uint8/int16/uint16 (and bool) counts to float32 only, so weights and 1/weights carry single precision: '
                    'rows of T sum to 1 only to ~1e-8 and T differs from the dense result (which sums integers exactly and divides '
                    'in float64); cast explicitly: .astype(np.float64)',
                    construct='sparse: row sums in float64' if prec != 'fptype' else
                    'sparse: row sums of the counts converted with asfptype() (float32 for small integer dtypes)')
    if v[0] == 'match' and not _counts_of(v[1]['_A'], C):
        v = ('near' if closed_over(v[1]['_A'], {C}) else 'far', 1, 'row sums of %s' % C)
    o.decide(v, rule3, W, 'weights are ROW sums (axis=1) of the counts',
             '%s branch: normalisation weights must be the row sums C.sum(axis=1); column sums make '
             'columns, not rows, sum to one' % label, construct='%s: weights = row sums of the counts' % label if v[0] == 'match' else None)


def d3_row_normalize(ck, mod, sigs):
    rule = 'C04.D3.row-orientation'
    fn = mod.func('_row_normalize')
    F = '_row_normalize'
    ck.analysed(mod, fn)
    C = params(fn)[0]
    paths = paths_or_missing(ck, rule, mod, fn, F)
    if paths is None:
        return
    o = Once(ck, mod, fn, F)
    n = {True: 0, False: 0}
    for p in paths:
        if p.kind != 'return':
            continue
        sp = sparsity_cond(p, {C})
        if sp is None:
            o.missing(rule, 'sparse/dense branch in _row_normalize: a return path does not test issparse/isspmatrix(%s)' % C)
            continue
        n[sp] += 1
        o.check(True, rule + '.dispatch', None, 'branch on sparsity of the input', '', construct='isspmatrix/issparse(%s)' % C)
        v = p.value
        if sp:
            label = 'sparse'
            b = smatch('_recast(%s, _M)' % C, v, sigs)
            if b is None:
                o.decide(sclassify(v, ['_recast(%s, _M)' % C], {C}, sigs), 'C04.D5.container', v, '',
                         'sparse branch must return T in the container type of the input (type(C)(T))')
                M = v
            else:
                o.check(True, 'C04.D5.container', v, 'result recast to the input container type', '', construct='sparse: type(%s)(T)' % C)
                M = b['_M']
            M = strip_conversions(M)
            IW = None
            prod = smatch(['_L @ _R', '_L * _R', 'np.dot(_L, _R)'], M, sigs)
            if prod is not None:
                dl, dr = smatch(DIAG_FORMS, prod['_L'], sigs), smatch(DIAG_FORMS, prod['_R'], sigs)
                if dl is not None and _counts_of(prod['_R'], C):
                    IW = dl['_IW']
                    o.check(True, rule + '.sparse', M, 'T = D.dot(C): the diagonal weight matrix multiplies from the LEFT (scales rows)', '',
                            construct='sparse: diag(inv_weights) @ counts')
                elif dr is not None and _counts_of(prod['_L'], C):
                    IW = dr['_IW']
                    o.check(False, rule + '.sparse', M, '', 'sparse branch must compute diag(inv_weights).dot(C_csr); C.dot(D) scales columns')
            if IW is None:
                mult = smatch(['_A.multiply(%s)' % f for f in COLUMN_FORMS], M, sigs)
                if mult is not None and _counts_of(mult['_A'], C):
                    IW = mult['_IW']
                    o.check(True, rule + '.sparse', M, 'rows scaled elementwise by a column vector of inverse weights', '',
                            construct='sparse: counts.multiply(inv_weights[:, None])')
            if IW is None:
                o.decide(sclassify(M, ['scipy.sparse.dia_matrix((_IW, 0), _SH).tocsr() @ scipy.sparse.csr_matrix(%s).asfptype()' % C], {C}, sigs),
                         rule + '.sparse', M, '', 'sparse branch must compute diag(inv_weights).dot(C_csr) (a NEW matrix whose rows are '
                         'the rows of the counts scaled by 1/row-sum); C.dot(D) scales columns')
                continue
            _inv_weights(o, sigs, C, label, IW, False)
        else:
            label = 'dense'
            forms = []
            for cf in COLUMN_FORMS:
                forms += ['_A * %s' % cf, '%s * _A' % cf, 'np.multiply(_A, %s)' % cf, 'np.multiply(%s, _A)' % cf]
            forms += ['(_A.T * _IW).T', '(_IW * _A.T).T', 'np.diag(_IW) @ _A', 'np.dot(np.diag(_IW), _A)']
            M = v
            b = smatch(forms, M, sigs)
            if b is not None and not _counts_of(b['_A'], C):
                b2 = None
                # `x * y` is commutative: try the other reading
                for f in forms:
                    bb = smatch(f, M, sigs)
                    if bb is not None and _counts_of(bb['_A'], C):
                        b2 = bb
                        break
                b = b2
            if b is None:
                o.decide(sclassify(M, ['_A * _IW[:, None]'], {C}, sigs), rule + '.dense', M, '',
                         'dense branch must multiply C by inv_weights shaped (n, 1); a row-vector broadcast '
                         '(n,) / (1, n) scales columns by the weights of other rows')
                continue
            o.check(True, rule + '.dense', M, 'T[i, j] = C[i, j] * w[i]: weights broadcast as a COLUMN vector', '',
                    construct='dense: counts * inv_weights[:, None]')
            star = M.value if isinstance(M, ast.Attribute) and M.attr == 'T' else M
            if isinstance(star, ast.BinOp) and isinstance(star.op, ast.Mult):
                # `*` is element-wise (broadcast) only for base ndarrays
                _dense_ndarray(o, sigs, C, b['_A'], M, 'counts * inv_weights[:, None] is the element-wise (broadcast) product')
            _inv_weights(o, sigs, C, label, b['_IW'], True)
    ck.floor(rule + '.sparse', n[True], 1, 'sparse return path of _row_normalize')
    ck.floor(rule + '.dense', n[False], 1, 'dense return path of _row_normalize')


# ---------------------------------------------------------------------------
# D3/D5: transpose

# A test "do these two values live in the same container class?"
_TYPE_CMP = ['type(_A) is type(_B)', 'type(_A) == type(_B)', 'isinstance(_A, type(_B))', '_A.__class__ is _B.__class__',
             '_A.__class__ == _B.__class__', 'isinstance(_A, _B.__class__)', 'type(_A) is _B.__class__', '_A.__class__ is type(_B)']


def _container_class(e):
    """Container class of a symbolic value of `transpose`, as far as it is
    fixed by construction:
      'in'   the class of the builder's input (the counts with prior; type(C)(x))
      'sum'  the class scipy gives `C + C.T` (csr for coo/lil/dia input ...); the
             matrix _row_normalize returns is in the class of its ARGUMENT
             (decided by C04.D5.container in _row_normalize), so the normalised
             symmetrised counts are in this class too
      None   anything else (a transpose turns csr into csc, arithmetic with
             scalars may densify ...)."""
    while isinstance(e, ast.Call) and isinstance(e.func, ast.Attribute) and e.func.attr == 'copy' and not e.args and not e.keywords:
        e = e.func.value
    if isinstance(e, ast.Name):
        return 'in' if e.id == PRIOR else 'sum' if e.id in ('SYM__', 'PROBS__') else None
    if isinstance(e, ast.Call) and isinstance(e.func, ast.Name) and e.func.id == '_recast' and len(e.args) == 2:
        return _container_class(e.args[0])
    if isinstance(e, ast.Call) and isinstance(e.func, ast.Name) and e.func.id == '_row_normalize' and len(e.args) == 1 and not e.keywords:
        return _container_class(e.args[0])
    return None


def _type_tests(p, sigs):
    """Container-class comparisons among the conditions of path `p`:
    (same, vacuous, unread).  `same`: polarity of a test that compares the
    class of the INPUT with the class of the symmetrised / normalised matrix
    (None: no such test; 'both': contradictory tests); `vacuous`: [(polarity,
    node)] of tests between two values that are in the same class by
    construction - always true, they say nothing about the input's class;
    `unread`: tests whose operands the rule cannot place."""
    same, vacuous, unread = None, [], []
    for k, (pol, node) in p.conds.items():
        if k[0] == 'raises':
            continue
        b = smatch(_TYPE_CMP, node, sigs)
        if b is None:
            if 'type(' in u(node) or 'isinstance' in u(node) or '__class__' in u(node):
                unread.append(node)
            continue
        ca, cb = _container_class(b['_A']), _container_class(b['_B'])
        if ca is None or cb is None:
            unread.append(node)
        elif ca == cb:
            vacuous.append((pol, node))
        else:
            same = pol if same in (None, pol) else 'both'
    return same, vacuous, unread


def _show(e):
    """Symbolic value with the abbreviations of d3_transpose spelled out."""
    return u(e).replace('PROBS__', '_row_normalize(C + C.T)').replace('SYM__', '(C + C.T)').replace(PRIOR, 'C')


def _infeasible(p, sigs):
    """The path assumes that two values which are in the same container class
    by construction have different classes."""
    return any(pol is False for pol, _ in _type_tests(p, sigs)[1])


def _container(o, p, sigs, elt, inner, what):
    """`elt` must be `inner` when the input type already equals the type of
    the normalised matrix, and type(C)(inner) when it differs."""
    rule = 'C04.D5.container'
    same, vacuous, unread = _type_tests(p, sigs)
    if same == 'both':
        return None                     # contradictory type tests: not a feasible path
    sp = sparsity_cond(p, {PRIOR})
    msg = 'transpose must recast probs and C_sym to type(C) exactly when the types differ (C + C.T changes the sparse format)'
    if u(elt) == inner:
        if same is True or (same is None and sp is False):
            return o.check(True, rule, elt, 'same container type: returned as is', '', construct='%s: same type -> as is' % what)
        if same is None and sp is None and not unread and vacuous:
            g = vacuous[0][1]
            return o.check(False, rule, g, '', msg + '; the only type test in front of the recast, `%s`, compares two values that are in '
                           'the same container by construction (_row_normalize returns its result in the container of its argument, here '
                           'C + C.T): it never sees the type of the input, the recast is dead code and %s comes back in the container '
                           'of C + C.T (csr_matrix for coo/lil/dia input)' % (_show(g)[:100], what),
                           construct='%s: recast guarded by a type test that does not involve the input (%s)' % (what, _show(g)[:100]))
        if same is None and sp is None and not unread:
            return o.check(False, rule, elt, '', msg + '; %s is returned without ever being recast' % what)
        if same is False or sp is True:
            return o.check(False, rule, elt, '', msg + '; %s is returned as is on the path where the types differ' % what)
        return o.missing(rule, 'recast guard of transpose not recognised: %s' % [u(e)[:80] for e in p.exprs()[1:]])
    if u(elt) == '_recast(%s, %s)' % (PRIOR, inner):
        if same is False or (same is None and sp is True):
            return o.check(True, rule, elt, 'outputs recast to the input container type', '', construct='%s: type differs -> type(C)(...)' % what)
        if same is None and sp is None and (unread or vacuous):
            return o.missing(rule, 'recast guard of transpose not recognised: %s' % [u(e)[:80] for e in p.exprs()[1:]])
        return o.check(False, rule, elt, '', msg + '; %s is recast although the types agree (type(C)(x) is not a copy for ndarrays)' % what)
    return o.decide(sclassify(elt, [inner, '_recast(%s, %s)' % (PRIOR, inner)], {PRIOR, inner}, sigs), rule, elt, '', msg)


# Operations whose result depends on WHICH of the eight containers holds the
# numbers (scipy.sparse transfer facts; ndarray, csr, csc, coo, dia behave alike):
#   X.sum() without axis   bsr_matrix: the (n_blocks, R, C) block array is wrapped into
#                          np.matrix -> ValueError as soon as there are >= 2 blocks
#                          larger than 1 x 1 (scipy picks 4x4 blocks for a full 8x8 matrix)
#   X / <integer literal>  lil_matrix, dok_matrix: the quotient keeps the integer dtype of
#                          X (result_type(X, 2) is X.dtype), i.e. FLOOR division; every
#                          other container returns float64.  X / 2.0, X * 0.5 are uniform.
# "The numbers are the same for dense input and every supported sparse format" needs
# every operation applied to a value that is still in the caller's container to be
# defined alike for all of them.
_CONTAINER_SYMS = (PRIOR, 'SYM__', 'PROBS__')
_CONTAINER_CALLS = ('_recast', '_apply_prior_counts', '_row_normalize')


def _in_input_container(e):
    """`e` is a matrix in the container type of the builder's input (or of a
    sum of such): the counts with prior, their transpose / symmetrisation, the
    normalised matrix, type(C)(...) of anything."""
    if isinstance(e, ast.Name):
        return e.id in _CONTAINER_SYMS
    if isinstance(e, ast.Attribute) and e.attr == 'T':
        return _in_input_container(e.value)
    if isinstance(e, ast.Call) and isinstance(e.func, ast.Attribute) and e.func.attr in ('transpose', 'copy') and not e.args:
        return _in_input_container(e.func.value)
    if isinstance(e, ast.Call) and isinstance(e.func, ast.Name) and e.func.id in _CONTAINER_CALLS:
        return True
    if isinstance(e, ast.BinOp) and isinstance(e.op, (ast.Add, ast.Sub)):
        return _in_input_container(e.left) and _in_input_container(e.right)
    return False


def _role(e):
    t = u(e)
    return ('the symmetrised counts' if 'SYM__' in t else 'the normalised matrix' if 'PROBS__' in t or '_row_normalize' in t
            else 'the counts')


def _uniform_ops(o, F, exprs):
    """No container-dependent operation on a value in the input's container
    inside the returned expressions."""
    rule = 'C04.D5.container.uniform-ops'
    n_bad = 0
    for e in exprs:
        for x in ast.walk(e):
            if isinstance(x, ast.Call) and isinstance(x.func, ast.Attribute) and x.func.attr == 'sum' and not x.args and \
                    not any(k.arg == 'axis' and not _is_none(k.value) for k in x.keywords) and _in_input_container(x.func.value):
                n_bad += 1
                o.check(False, rule + '.sum', x, '',
                        '%s: total of %s taken with the axis-less .sum() of the matrix while it is still in the caller\'s container: '
                        'bsr_matrix.sum() raises ValueError("shape too large to be a matrix") for two or more blocks larger than 1x1 '
                        '(e.g. any fully populated 8x8 count matrix); take the total from the row sums (row_sums.sum()) instead'
                        % (F, _role(x.func.value)),
                        construct='%s: axis-less .sum() of %s in the input container' % (F, _role(x.func.value)))
            if isinstance(x, ast.BinOp) and isinstance(x.op, ast.Div) and isinstance(x.right, ast.Constant) and \
                    isinstance(x.right.value, int) and not isinstance(x.right.value, bool) and _in_input_container(x.left):
                n_bad += 1
                o.check(False, rule + '.truediv', x, '',
                        '%s: %s are divided by the INTEGER literal %r while still in the caller\'s container: lil_matrix and dok_matrix '
                        'keep the integer dtype of the counts under `/ int` (floor division: every odd C_ij + C_ji loses its half, 0.5 '
                        'entries vanish) whereas ndarray and the other formats return float64; multiply by 0.5 or divide by %r.0'
                        % (F, _role(x.left), x.right.value, x.right.value),
                        construct='%s: %s / integer literal in the input container' % (F, _role(x.left)))
    if not n_bad:
        o.check(True, rule, None, 'every operation on a matrix in the caller\'s container is defined alike for all eight containers', '',
                construct='%s: operations on values in the input container' % F)


def d3_transpose(ck, mod, sigs):
    rule = 'C04.D3.transpose'
    fn, aps = builder_paths(ck, mod, 'transpose', sigs)
    if aps is None:
        return
    F = 'transpose'
    calc = params(fn)[2]
    o = Once(ck, mod, fn, F)
    n = 0
    for p0 in aps:
        v = p0.value
        if not (isinstance(v, ast.Tuple) and len(v.elts) == 3):
            o.missing(rule + '.return', 'transpose does not return a triple: %s' % u(v)[:120])
            continue
        rn = _distinct(c for e in p0.exprs() for c in _calls(e, '_row_normalize'))
        if len(rn) != 1 or not (rn[0].args or rn[0].keywords):
            o.missing(rule, 'one `_row_normalize(...)` call feeding the result of transpose (found %d)' % len(rn))
            continue
        S = (rn[0].args + [k.value for k in rn[0].keywords])[0]
        o.decide(sclassify(S, ['%s + %s.T' % (PRIOR, PRIOR), '%s.T + %s' % (PRIOR, PRIOR)], {PRIOR}, sigs), rule, S,
                 'probabilities from the symmetrised counts C + C^T', 'the matrix that is normalised must be the symmetrised counts C + C.T',
                 construct='_row_normalize(C + C.T)' if smatch(['%s + %s.T' % (PRIOR, PRIOR), '%s.T + %s' % (PRIOR, PRIOR)], S, sigs) is not None else None)
        p = p0.abbrev({u(rn[0]): 'PROBS__', u(S): 'SYM__'}, sigs)
        n += 1
        if _infeasible(p, sigs):
            continue        # e.g. type(C_sym) is not type(_row_normalize(C_sym)): cannot happen
        e0, e1, e2 = p.value.elts
        # probabilities
        _container(o, p, sigs, e1, 'PROBS__', 'probs')
        # symmetrised counts / 2
        b = smatch(['_S / 2', '_S / 2.0', '_S * 0.5', '0.5 * _S'], e0, sigs)
        if b is None:
            o.decide(sclassify(e0, ['SYM__ / 2'], {'SYM__', PRIOR}, sigs), rule + '.return', e0, '',
                     'transpose must return (C_sym / 2, probs, equilibrium)')
        else:
            o.check(True, rule + '.return', e0, 'returns (C_sym/2, T, pi)', '', construct='return (C_sym / 2, probs, equilibrium)')
            _container(o, p, sigs, b['_S'], 'SYM__', 'C_sym')
        # populations: row sums of the SAME symmetrised matrix / its total
        pops = abbreviate(e2, {'_recast(%s, SYM__)' % PRIOR: 'SYM__'}, sigs)
        forms = []
        for w in ('np.array(%s)', 'np.asarray(%s)'):
            for f in ('.flatten()', '.ravel()', '.reshape(-1)'):
                forms.append(w % 'SYM__.sum(axis=1) / SYM__.sum()' + f)
                forms.append(w % 'SYM__.sum(axis=1)' + f + ' / SYM__.sum()')
                forms.append(w % 'SYM__.sum(1) / SYM__.sum()' + f)
                # SYM__ = C + C.T is symmetric: its column sums ARE its row sums
                forms.append(w % 'SYM__.sum(axis=0) / SYM__.sum()' + f)
        forms += ['(SYM__.sum(axis=1) / SYM__.sum()).A1', 'SYM__.sum(axis=1).A1 / SYM__.sum()']
        # ... with the total taken from the row sums themselves
        rows = [w % ('SYM__.sum(%s)' % a) + f for w in ('np.array(%s)', 'np.asarray(%s)', 'np.array(%s, dtype=float)', 'np.asarray(%s, dtype=float)')
                for a in ('axis=1', '1', 'axis=0') for f in ('.flatten()', '.ravel()', '.reshape(-1)')] + ['SYM__.sum(axis=1).A1']
        forms += ['%s / %s.sum()' % (r, r) for r in rows]
        _pops(o, rule + '.populations', p, calc, sigs, pops, forms, {'SYM__', PRIOR},
              'populations = row sums of the SAME symmetrised matrix / its total',
              'populations must be C_sym.sum(axis=1) / C_sym.sum() of the matrix that was normalised '
              '(row sums; detailed balance with the returned T depends on it)', 'populations = rowsum(C_sym) / sum(C_sym)')
        _uniform_ops(o, F, [e0, e1, pops])
    ck.floor(rule, n, 1, 'return path of transpose')


# ---------------------------------------------------------------------------
# D5/D6: mle, normalize, .todense()

def d5_todense(ck, mod):
    """A bare .todense() (np.matrix) must not flow into numeric code: the
    call - or every use of the temporary it is bound to - is the argument of
    np.array/np.asarray (or .A/.A1 is taken)."""
    rule = 'C04.D5.container.no-matrix'
    wrap = ('np.array', 'np.asarray', 'numpy.array', 'numpy.asarray', 'np.asanyarray')

    def wrapped(m2, x):
        par = m2.parent.get(x)
        if isinstance(par, ast.Call) and call_name(par) in wrap and (par.args[:1] == [x] or any(k.value is x for k in par.keywords)):
            return par
        if isinstance(par, ast.Attribute) and par.attr in ('A', 'A1'):
            return par
        return None
    for q, f in mod.functions.items():
        for c in calls_in(f):
            if not (isinstance(c.func, ast.Attribute) and c.func.attr == 'todense'):
                continue
            w = wrapped(mod, c)
            ok, shown = w is not None, u(w) if w is not None else u(mod.enclosing_stmt(c))
            st = mod.enclosing_stmt(c)
            if not ok and isinstance(st, ast.Assign) and st.value is c and len(st.targets) == 1 and isinstance(st.targets[0], ast.Name):
                fi = finfo(mod, f)
                t = st.targets[0].id
                uses = [x for x in walk_local(f) if isinstance(x, ast.Name) and x.id == t and isinstance(x.ctx, ast.Load)
                        and st in fi.defs_of_use(x)]
                ok = bool(uses) and all(wrapped(mod, x) is not None for x in uses)
            ck.check(ok, rule, mod, c, q, shown, '.todense() is immediately wrapped into an ndarray',
                     'a bare .todense() yields np.matrix (2-D sums, matrix product for *), which breaks '
                     'the element-wise arithmetic downstream; use .toarray() or np.array(x.todense())')


def d5_mle(ck, mod, sigs=None):
    """Densify / re-wrap / unpack rules of `mle` (also run by C12, which
    shares the F7 finding), including the bare-.todense() scan."""
    rule = 'C04.D5.container'
    sigs = sigs if sigs is not None else _sigs(ck)
    d5_todense(ck, mod)
    fn, aps = builder_paths(ck, mod, 'mle', sigs)
    if aps is None:
        return
    F = 'mle'
    calc = params(fn)[2]
    o = Once(ck, mod, fn, F)
    densified = ['%s.toarray()', 'np.asarray(%s.todense())', 'np.array(%s.todense())', '%s.todense().A', '%s.A',
                 '%s.toarray().astype(float)', 'np.asarray(%s.toarray())']
    densified = [d % PRIOR for d in densified]
    as_is = [PRIOR, 'np.asarray(%s)' % PRIOR, 'np.array(%s)' % PRIOR, 'np.asarray(%s, dtype=float)' % PRIOR, 'np.array(%s, dtype=float)' % PRIOR]
    n = 0
    for p0 in aps:
        v = p0.value
        if not (isinstance(v, ast.Tuple) and len(v.elts) == 3):
            o.missing('C04.D6.mle-unpack', 'mle does not return a triple: %s' % u(v)[:120])
            continue
        ests = _distinct(_calls(v, *ESTIMATORS))
        if len(ests) != 1 or not (ests[0].args or ests[0].keywords):
            o.missing('C04.D6.mle-unpack', 'one estimator call (_prinz_mle_py/_prinz_mle) feeding the result of mle (found %d)' % len(ests))
            continue
        n += 1
        E = ests[0]
        A = (E.args + [k.value for k in E.keywords])[0]
        sp = sparsity_cond(p0, {PRIOR})
        if sp is None:
            o.missing(rule + '.densify', 'mle does not branch on issparse(<counts with prior>): cannot tell which container reaches the estimator (%s)' % u(A)[:80])
            continue
        o.decide(sclassify(A, densified if sp else as_is, {PRIOR}, sigs), rule + '.densify', A,
                 'sparse input densified to an ndarray before the iteration' if sp else 'dense input reaches the estimator as it is',
                 'mle must densify sparse input with .toarray() under issparse(C) (np.matrix from .todense() or the sparse matrix itself '
                 'break the element-wise iteration)' if sp else 'on the dense path the estimator must get the counts (with prior) themselves',
                 construct='%s: estimator(%s)' % ('sparse' if sp else 'dense', u(A)))
        p = p0.abbrev({u(E): 'EST__'}, sigs)
        e0, e1, e2 = p.value.elts
        if sp:
            w0 = ['_recast(%s, %s)' % (PRIOR, d) for d in densified] + ['_recast(%s, %s)' % (PRIOR, PRIOR), PRIOR]
            w1 = ['_recast(%s, EST__[0])' % PRIOR]
        else:
            w0 = [w % d for d in as_is for w in ('np.array(%s)', 'np.asarray(%s)', '%s')]
            w1 = ['np.array(EST__[0])', 'np.asarray(EST__[0])', 'EST__[0]']
        label = 'sparse' if sp else 'dense'
        o.decide(sclassify(e0, w0, {PRIOR}, sigs), rule + '.rewrap', e0,
                 'counts returned in the input container (type taken before densifying)',
                 'mle must return the counts re-wrapped in the input container: sparsetype(C) with sparsetype = type(C) '
                 'taken BEFORE densifying (np.array for dense input), on every return path',
                 construct='%s: C -> %s' % (label, u(e0)[:100]))
        if 'EST__[1]' in u(e1) and 'EST__[0]' not in u(e1):
            o.check(False, 'C04.D6.mle-unpack', e1, '', 'the estimator returns (T, pi); mle must unpack it in that order from the counts with priors')
        else:
            o.decide(sclassify(e1, w1, {PRIOR, 'EST__'}, sigs), rule + '.rewrap', e1,
                     'T re-wrapped in the input container',
                     'mle must return T re-wrapped in the input container (sparsetype(T)) on every return path',
                     construct='%s: T -> %s' % (label, u(e1)[:100]))
        _pops(o, 'C04.D6.mle-unpack', p, calc, sigs, e2, ['EST__[1]'], {PRIOR, 'EST__'},
              '(T, pi) unpacked in order from the estimator on the densified counts',
              'the estimator returns (T, pi); mle must return pi (element 1) as the populations when they are asked for',
              '%s: pi -> EST[1]' % label)
    ck.floor('C04.D6.mle-unpack', n, 1, 'return path of mle through the estimator')


# ---------------------------------------------------------------------------
# D4 (estimator): degenerate denominators
#
# The zero-row guard of _row_normalize has a counterpart inside the reversible
# estimator.  With C the non-negative counts and rs = C.sum(axis=1) > 0,
#     rs[p] - C[p, q]  >= 0,   and  == 0  iff state p has ALL its counts on q.
# A sum of such terms over distinct rows vanishes for admissible input: the
# one-state chain for (p, p), the two-state chain whose states only jump to
# each other for (i, j) + (j, i) - both strongly connected.  Dividing by (a
# constant multiple of) such a quantity therefore needs a test that excludes
# zero, dominating the division, on the very same quantity.  Decided per
# division: guarded / the quantity is never tested on the way = VIOLATION /
# tested in a form the rule does not read = analysis incomplete.  Denominators
# that depend on the iterate (X, its running row sums) need the invariant of
# the iteration and are not decided here.

_ROWSUM_WRAP = ('flatten', 'ravel', 'squeeze', 'copy')


def _est_counts(fi, e, P, st, depth=4):
    """`e`, evaluated at statement `st`, denotes the count matrix (parameter
    `P`) of the estimator, up to value-preserving conversions and rebinding
    (`C = C.copy().astype(float)`), and that matrix is never stored into."""
    e = strip_conversions(e)
    if not (isinstance(e, ast.Name) and depth > 0 and st is not None):
        return False
    try:
        defs = fi.rd.defs_at(st, e.id)
    except Exception:
        return False
    if not defs or 'UNBOUND' in defs or fi._mutated_in_place(e.id):
        return False
    for d in defs:
        if d == 'PARAM':
            if e.id != P:
                return False
            continue
        v = fi.def_value(d, e.id)
        if v is None or not _est_counts(fi, v, P, d, depth - 1):
            return False
    return True


def _est_rowsums(fi, e, P, st):
    """`e` (expanded) is the vector of row sums of the counts; returns True."""
    while True:
        if isinstance(e, ast.Call) and call_name(e) in _TO_NDARRAY + ('np.asanyarray', 'np.squeeze') and len(e.args) == 1 and \
                all(k.arg == 'dtype' for k in e.keywords):
            e = e.args[0]
        elif isinstance(e, ast.Call) and isinstance(e.func, ast.Attribute) and e.func.attr in _ROWSUM_WRAP and not e.args and not e.keywords:
            e = e.func.value
        elif isinstance(e, ast.Attribute) and e.attr in ('A1',):
            e = e.value
        elif isinstance(e, ast.Call) and isinstance(e.func, ast.Attribute) and e.func.attr == 'astype' and len(e.args) == 1 and \
                u(e.args[0]) in _F64:
            e = e.func.value
        else:
            break
    if not (isinstance(e, ast.Call) and isinstance(e.func, ast.Attribute) and e.func.attr == 'sum'):
        return False
    ax = [k.value for k in e.keywords if k.arg == 'axis'] + list(e.args[:1])
    if len(ax) != 1 or len(e.args) + len(e.keywords) != 1:
        return False
    a = ax[0]
    if isinstance(a, ast.UnaryOp) and isinstance(a.op, ast.USub) and isinstance(a.operand, ast.Constant):
        val = -a.operand.value if isinstance(a.operand.value, int) else None
    else:
        val = a.value if isinstance(a, ast.Constant) else None
    if val not in (1, -1) or isinstance(val, bool):
        return False
    return _est_counts(fi, e.func.value, P, st)


def _nonzero_const(e):
    if isinstance(e, ast.UnaryOp) and isinstance(e.op, (ast.USub, ast.UAdd)):
        e = e.operand
    return isinstance(e, ast.Constant) and isinstance(e.value, (int, float)) and not isinstance(e.value, bool) and e.value != 0


def _strip_factor(e):
    """Drop non-zero constant factors / divisors and float() casts: the result
    vanishes exactly when `e` does."""
    while True:
        if isinstance(e, ast.BinOp) and isinstance(e.op, ast.Mult) and _nonzero_const(e.left):
            e = e.right
        elif isinstance(e, ast.BinOp) and isinstance(e.op, (ast.Mult, ast.Div)) and _nonzero_const(e.right):
            e = e.left
        elif isinstance(e, ast.Call) and call_name(e) in ('float', 'np.float64', 'abs', 'np.abs', 'np.double') and len(e.args) == 1 and not e.keywords:
            e = e.args[0]
        elif isinstance(e, ast.UnaryOp) and isinstance(e.op, (ast.USub, ast.UAdd)):
            e = e.operand
        else:
            return e


def _signed_leaves(e, sign=1, out=None):
    out = [] if out is None else out
    if isinstance(e, ast.BinOp) and isinstance(e.op, (ast.Add, ast.Sub)):
        _signed_leaves(e.left, sign, out)
        _signed_leaves(e.right, sign if isinstance(e.op, ast.Add) else -sign, out)
    elif isinstance(e, ast.UnaryOp) and isinstance(e.op, (ast.USub, ast.UAdd)):
        _signed_leaves(e.operand, -sign if isinstance(e.op, ast.USub) else sign, out)
    else:
        out.append((sign, e))
    return out


def _count_deficit(fi, e, P, st):
    """Is the (expanded) expression `e`, up to a non-zero constant factor, a
    sum of terms rowsum(C)[p] - C[p, q] over distinct rows p?  Returns the
    canonical key (sorted tuple of (p, q) texts) or None."""
    e = _strip_factor(e)
    leaves = _signed_leaves(e)
    pos = [x for s, x in leaves if s > 0]
    neg = [x for s, x in leaves if s < 0]
    if not pos or len(pos) != len(neg):
        return None
    rows = []
    for x in pos:
        if not (isinstance(x, ast.Subscript) and not isinstance(x.slice, (ast.Tuple, ast.Slice)) and _est_rowsums(fi, x.value, P, st)):
            return None
        rows.append(u(x.slice))
    pairs = []
    for x in neg:
        if not (isinstance(x, ast.Subscript) and isinstance(x.slice, ast.Tuple) and len(x.slice.elts) == 2 and
                not any(isinstance(i, ast.Slice) for i in x.slice.elts) and _est_counts(fi, x.value, P, st)):
            return None
        p, q = u(x.slice.elts[0]), u(x.slice.elts[1])
        if p not in rows:
            return None
        rows.remove(p)
        pairs.append((p, q))
    pairs = sorted(set(pairs))          # (a + a: the same terms twice)
    if len({p for p, _ in pairs}) != len(pairs):
        return None          # two different entries of the same row: the sum need not be able to vanish
    return tuple(pairs)


def _zero_const(e):
    return isinstance(e, ast.Constant) and isinstance(e.value, (int, float)) and not isinstance(e.value, bool) and e.value == 0


def _guards_of(fi, mod, node):
    """[(test, polarity, site)] known to hold when `node` is evaluated: the
    conditional expressions / short-circuit operators around it inside its
    statement and the branch conditions that dominate its statement."""
    from ..cfg import Assume
    out = []
    ch, par = node, mod.parent.get(node)
    while par is not None and not isinstance(par, ast.stmt):
        if isinstance(par, ast.IfExp) and ch is not par.test:
            out.append((par.test, ch is par.body, None))
        if isinstance(par, ast.BoolOp) and ch in par.values:
            for v in par.values[:par.values.index(ch)]:
                out.append((v, isinstance(par.op, ast.And), None))
        ch, par = par, mod.parent.get(par)
    st = fi.stmt(node)
    for a in fi.cfg.nodes:
        if isinstance(a, Assume) and st is not None and fi.cfg.dominates(a, st):
            out.append((a.test, a.polarity, a.owner))
    return out, st


def _same_operands(fi, e, site, st):
    """The operands of the guard expression have the same reaching definitions
    at the guard and at the division (the temporaries were expanded already;
    the count matrix and its row sums are never stored into: see _est_counts)."""
    if site is None or site is st:
        return True
    for n in ast.walk(e):
        if isinstance(n, ast.Name) and isinstance(n.ctx, ast.Load):
            if fi.rd.defs_at(site, n.id) != fi.rd.defs_at(st, n.id):
                return False
    return True


def _guard_verdict(fi, mod, div, key, P):
    """'nonzero' / 'zero' (the division runs exactly when the quantity IS
    zero) / 'unread' (a test on the way mentions the quantity in a form the
    rule does not read) / None (never tested)."""
    from ..patterns import Cmp, conjuncts
    guards, st = _guards_of(fi, mod, div)
    verdict = None

    def is_q(x, site):
        try:
            ex = fi.expand(x)
        except Exception:
            return False
        return _count_deficit(fi, ex, P, st) == key and _same_operands(fi, ex, site, st)
    for test, pol, site in guards:
        cj = conjuncts(test, pol)
        read = False
        for c in (cj or []):
            if isinstance(c, Cmp):
                for g, other, op in ((c.lhs, c.rhs, c.op), (c.rhs, c.lhs, c.flipped().op)):
                    if not is_q(g, site):
                        continue
                    # g OP other
                    k = other.operand if isinstance(other, ast.UnaryOp) and isinstance(other.op, ast.USub) else other
                    if not (isinstance(k, ast.Constant) and isinstance(k.value, (int, float)) and not isinstance(k.value, bool)):
                        continue
                    kv = -k.value if k is not other else k.value
                    if (op is ast.NotEq and kv == 0) or (op is ast.Gt and kv >= 0) or (op is ast.GtE and kv > 0) or \
                            (op is ast.Lt and kv <= 0) or (op is ast.LtE and kv < 0):
                        return 'nonzero'
                    if op is ast.Eq and kv == 0:
                        verdict = 'zero'
                        read = True
                    elif op is ast.Eq and kv != 0:
                        return 'nonzero'
            elif isinstance(c, tuple) and c[0] == 'expr' and is_q(c[1], site):
                if c[2]:
                    return 'nonzero'        # truthiness of a number: != 0
                verdict = 'zero'
                read = True
        if not read and verdict is None and any(isinstance(x, ast.expr) and not isinstance(x, ast.Constant) and is_q(x, site)
                                                for x in ast.walk(test)):
            verdict = 'unread'
    return verdict


def d4_estimator(ck, rel, qual, required):
    rule = 'C04.D4.zero-denominator'
    from ..core import AnalysisIncomplete
    try:
        mod = ck.repo.mod(rel)
        fn = mod.func(qual)
    except AnalysisIncomplete as e:
        if required:
            ck.missing(rule, 'estimator %s not found (%s)' % (qual, e))
        return
    ck.analysed(mod, fn)
    fi = finfo(mod, fn)
    P = params(fn)[0]
    o = Once(ck, mod, fn, qual)
    n = 0
    for x in walk_local(fn):
        if isinstance(x, ast.BinOp) and isinstance(x.op, (ast.Div, ast.FloorDiv, ast.Mod)):
            den = x.right
        elif isinstance(x, ast.Call) and call_name(x) in ('np.divide', 'np.true_divide', 'numpy.divide') and len(x.args) >= 2:
            den = x.args[1]
        elif isinstance(x, ast.Call) and call_name(x) in ('np.reciprocal',) and len(x.args) == 1:
            den = x.args[0]
        else:
            continue
        try:
            key = _count_deficit(fi, fi.expand(den), P, fi.stmt(x))
        except Exception:
            key = None
        if key is None:
            continue
        n += 1
        what = ' + '.join('(rowsum[%s] - C[%s, %s])' % (p, p, q) for p, q in key)
        v = _guard_verdict(fi, mod, x, key, P)
        stmt_text = ' '.join(u(fi.stmt(x) or x).split())[:100]
        if v == 'unread':
            o.missing(rule, '%s: the divisor `%s` = %s (zero for a state whose counts all sit in one cell) is tested on the way to `%s`, '
                      'but not in a form the rule reads (== 0, != 0, > 0, truthiness)' % (qual, u(den)[:40], what, stmt_text))
            continue
        o.check(v == 'nonzero', rule, x, 'the degenerate case (all counts of the rows involved in one cell) is excluded before the division',
                '%s divides by `%s` = %s%s. For non-negative counts this is >= 0 and it IS zero for admissible input (a state '
                'whose outgoing counts all sit in that one cell: the one-state chain, the strongly connected two-state chain '
                '[[0, p], [q, 0]]), so the quotient is inf/nan, X, T and pi fill with nan and the builder raises or returns no model; '
                'the division needs a dominating test of that quantity against zero (`if a == 0: v = X[j, i]` in the Prinz update)'
                % (qual, u(den)[:40], what, ' on the branch where that quantity equals zero' if v == 'zero' else
                   ' and no test of that quantity against zero lies on the way'),
                construct='%s: division by %s %s' % (qual, what, 'guarded against zero' if v == 'nonzero' else 'without a zero guard'))
    if required:
        ck.floor(rule, n, 1, 'division by a count deficit rowsum(C)[p] - C[p, q] in %s' % qual)


def d6_normalize(ck, mod, sigs):
    rule = 'C04.D6.normalize'
    fn, aps = builder_paths(ck, mod, 'normalize', sigs)
    if aps is None:
        return
    F = 'normalize'
    calc = params(fn)[2]
    o = Once(ck, mod, fn, F)
    n = 0
    for p0 in aps:
        v = p0.value
        if not (isinstance(v, ast.Tuple) and len(v.elts) == 3):
            o.missing(rule, 'normalize does not return a triple: %s' % u(v)[:120])
            continue
        n += 1
        rn = _distinct(c for c in _calls(v, '_row_normalize') if (c.args + [k.value for k in c.keywords])[:1]
                       and u((c.args + [k.value for k in c.keywords])[0]) == PRIOR)
        p = p0.abbrev({u(rn[0]): 'PROBS__'}, sigs) if rn else p0
        e0, e1, e2 = p.value.elts
        bad = 'normalize must return (C, _row_normalize(C), eq_probs(T))'
        o.decide(sclassify(e0, [PRIOR], {PRIOR}, sigs), rule, e0, 'counts (with prior) returned', bad, construct='C -> %s' % u(e0)[:80])
        o.decide(sclassify(e1, ['PROBS__'], {PRIOR, 'PROBS__'}, sigs) if rn else sclassify(e1, ['_row_normalize(%s)' % PRIOR], {PRIOR}, sigs),
                 rule, e1, 'T = row-normalised counts', bad, construct='T -> %s' % u(e1)[:80])
        _pops(o, rule, p, calc, sigs, e2, ['eq_probs(PROBS__)'], {PRIOR, 'PROBS__'}, 'pi = stationary vector of that T', bad,
              'pi -> eq_probs(T)')
    ck.floor(rule, n, 1, 'return path of normalize')


def _guarded(ck, rule, f, *args):
    """A rule that breaks down on an unforeseen shape must not hide what the
    other rules found, and is never a violation: it becomes incomplete."""
    try:
        return f(ck, *args)
    except (AttributeError, KeyError, IndexError, TypeError, ValueError, RecursionError) as e:
        ck.missing(rule, 'construct outside the shapes the rule models (%r)' % (e,))


def check(ck):
    mod = ck.repo.mod(BU)
    sigs = _sigs(ck)
    _guarded(ck, 'C04.D1.prior-first.add', d1_apply_prior, mod, sigs)
    _guarded(ck, 'C04.D3.row-orientation', d3_row_normalize, mod, sigs)
    _guarded(ck, 'C04.D3.transpose', d3_transpose, mod, sigs)
    _guarded(ck, 'C04.D5.container', d5_mle, mod, sigs)
    _guarded(ck, 'C04.D6.normalize', d6_normalize, mod, sigs)
    _guarded(ck, 'C04.D4.zero-denominator', d4_estimator, BU, '_prinz_mle_py', True)
    _guarded(ck, 'C04.D4.zero-denominator', d4_estimator, LM, '_mle_prinz_dense', False)
    _guarded(ck, 'C04.D6.spectrum', check_spectrum, 'C04.D6')
    check_no_arg_mutation(ck, 'C04.D2.inputs-unmodified', [
        (BU, 'mle'), (BU, 'transpose'), (BU, 'normalize'),
        (BU, '_apply_prior_counts'), (BU, '_row_normalize'),
        (BU, '_prinz_mle_py'), (BU, '_prinz_mle'), (TM, 'eq_probs'),
        (TM, 'eigenspectrum'), (LM, '_mle_prinz_dense')])
    return EXPLANATION

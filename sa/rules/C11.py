"""C11 Ergodic trimming: strong components of the thresholded graph, weight
from the original counts, mapping orientation, in-place variant."""
import ast

from ..core import (AnalysisIncomplete, call_name, const_value, kwarg,
                    names_loaded, params, target_names, u, walk_expr,
                    walk_local)
from ..patterns import (Cmp, assigns_to, calls_in, check_no_arg_mutation,
                        conjuncts, finfo, returns_of, subscript_stores)
from .msm_common import TM, MS, TS
from ..match import C, CS

EXPLANATION = (
    'Static decision of the structural necessary conditions of ergodic '
    'trimming: (D1) components are computed by connected_components(..., '
    'directed=True, connection="strong") on a thresholded COPY; (D2) component '
    'weight is the sum of ROW sums of the ORIGINAL counts and the component is '
    'selected by argmax; (D3) kept states come from np.where(labels == best)[0] '
    '(ascending, hence order preserving), the same index vector selects rows '
    'and columns, TrimMapping consumes (original, trimmed) pairs and every '
    'producer/writer/reader agrees on that orientation, the in-place variant '
    'zeroes rows AND columns of the complementary set; (D4) the return order '
    '(mapping, counts) matches every unpacking site and the container type is '
    'restored; (D5) the caller\'s matrix is not modified. That scipy returns '
    'the strongly connected components is trusted.')


def check(ck):
    mod = ck.repo.mod(TM)
    fn = mod.func('trim_disconnected')
    ck.analysed(mod, fn)
    fi = finfo(mod, fn)
    counts, thr = params(fn)[0], params(fn)[1]
    # D1
    cc = [c for c in calls_in(fn) if (call_name(c) or '').endswith('connected_components')]
    if len(cc) != 1:
        ck.missing('C11.D1.strong', 'connected_components call')
        return EXPLANATION
    c = cc[0]
    conn, direc = kwarg(c, 'connection'), kwarg(c, 'directed')
    ok = conn is not None and const_value(conn) == 'strong' and (direc is None or const_value(direc) is True)
    ck.check(ok, 'C11.D1.strong', mod, c, 'trim_disconnected', u(c),
             'strongly connected components of the directed graph',
             'connected_components must be called with directed=True, connection="strong": the default '
             '"weak" keeps states that can be entered but never left (or vice versa)')
    graph = c.args[0] if c.args else kwarg(c, 'csgraph')
    gname = u(graph)
    gd = [s for s in assigns_to(fn, gname) if isinstance(s, ast.Assign)]
    okc = len(gd) == 1 and isinstance(gd[0].value, ast.Call) and (
        (call_name(gd[0].value) == 'np.array' and u(gd[0].value.args[0]) == counts and
         const_value(kwarg(gd[0].value, 'copy', ast.Constant(value=True))) is True) or
        u(gd[0].value) in ('%s.copy()' % counts, 'np.copy(%s)' % counts))
    ck.check(okc, 'C11.D2.threshold-copy', mod, gd[0] if gd else c, 'trim_disconnected', u(gd[0]) if gd else gname,
             'thresholding works on a copy of the counts',
             'the graph handed to connected_components must be a COPY of the counts '
             '(np.array(counts, copy=True)); thresholding the original destroys sub-threshold counts')
    ts = [s for s, t in subscript_stores(fn, gname)]
    okt = len(ts) == 1 and u(ts[0].targets[0].slice) == '%s < %s' % (counts, thr) and u(ts[0].value) == '0'
    ck.check(okt, 'C11.D2.threshold', mod, ts[0] if ts else c, 'trim_disconnected', u(ts[0]) if ts else 'threshold',
             'counts strictly below the threshold are removed from the graph only',
             'thresholding must zero exactly the entries with counts < threshold in the graph copy')
    if ts and gd:
        ck.check(fi.cfg.dominates(ts[0], fi.stmt(c)), 'C11.D2.threshold', mod, ts[0], 'trim_disconnected',
                 'threshold before components', 'thresholding precedes the component search', 'thresholding must happen before connected_components')
    # labels unpack
    st = fi.stmt(c)
    ok = isinstance(st, ast.Assign) and isinstance(st.targets[0], ast.Tuple) and len(st.targets[0].elts) == 2
    nsub, labels = (u(e) for e in st.targets[0].elts) if ok else ('?', '?')
    # D2 weights from original counts, row sums
    pops = [s for s in assigns_to(fn, 'pops') if isinstance(s, ast.Assign)]
    okp = len(pops) == 1 and u(pops[0].value) in ('%s.sum(axis=1)' % counts, 'np.sum(%s, axis=1)' % counts)
    ck.check(okp, 'C11.D2.weights', mod, pops[0] if pops else fn, 'trim_disconnected', u(pops[0]) if pops else 'pops',
             'state weight = row sum of the ORIGINAL counts',
             'component weight must come from %s.sum(axis=1) of the original counts: the thresholded copy '
             'loses sub-threshold counts and axis=0 (column sums) ranks components by arrivals, which '
             'differs when one-way links exist' % counts)
    if okp:
        # counts at that point: original (possibly densified), not thresholded
        for x in ast.walk(pops[0].value):
            if isinstance(x, ast.Name) and x.id == counts:
                defs = fi.defs_of_use(x)
                ok = all(d == 'PARAM' or (isinstance(d, ast.Assign) and u(d.value) in ('%s.toarray()' % counts,))
                         for d in defs)
                ck.check(ok, 'C11.D2.weights', mod, pops[0], 'trim_disconnected', 'definitions of %s at pops' % counts,
                         'weights see the caller\'s counts (only densified)', 'counts were redefined before the weights were taken')
    sp = [s for s in assigns_to(fn, 'subgraph_pops') if isinstance(s, ast.Assign)]
    oks = len(sp) == 1 and C('np.sum(pops[%s == i])' % labels) in u(sp[0].value) and 'range(%s)' % nsub in u(sp[0].value)
    ck.check(oks, 'C11.D2.weights', mod, sp[0] if sp else fn, 'trim_disconnected', u(sp[0]) if sp else 'subgraph_pops',
             'component weight = sum of member weights, one entry per component', 'per-component weight must sum pops over labels == i for i in range(n_subgraphs)')
    best = [s for s in walk_local(fn) if isinstance(s, ast.Assign) and u(s.value) == C('np.argmax(subgraph_pops)')]
    ck.check(len(best) == 1, 'C11.D2.heaviest', mod, best[0] if best else fn, 'trim_disconnected', u(best[0]) if best else 'argmax',
             'heaviest component selected by argmax', 'the kept component must be np.argmax(subgraph_pops) (heaviest, not largest/first)')
    bname = u(best[0].targets[0]) if best else '?'
    keep = [s for s in assigns_to(fn, 'keep_states') if isinstance(s, ast.Assign)]
    okk = len(keep) == 1 and u(keep[0].value) == 'np.where(%s == %s)[0]' % (labels, bname)
    ck.check(okk, 'C11.D3.keep', mod, keep[0] if keep else fn, 'trim_disconnected', u(keep[0]) if keep else 'keep_states',
             'kept states in ascending original order', 'keep_states must be np.where(labels == best)[0]')
    # renumber branch
    ifs = [n for n in fn.body if isinstance(n, ast.If) and u(n.test) == params(fn)[2]]
    if len(ifs) != 1:
        ck.missing('C11.D3.branches', 'renumber_states branch')
        return EXPLANATION
    node = ifs[0]
    rb = ast.Module(body=node.body, type_ignores=[])
    ib = ast.Module(body=node.orelse, type_ignores=[])
    st = [s for s in ast.walk(rb) if isinstance(s, ast.Assign) and isinstance(s.targets[0], ast.Subscript)
          and u(s.targets[0].value) == 'trimmed_counts']
    ok = len(st) == 1 and u(st[0].value) == '%s[np.ix_(keep_states, keep_states)]' % counts and \
        u(st[0].targets[0].slice) == 'np.ix_(new_states, new_states)'
    ck.check(ok, 'C11.D3.submatrix', mod, st[0] if st else node, 'trim_disconnected', u(st[0]) if st else 'submatrix',
             'same index vector selects rows and columns of the original counts',
             'the trimmed matrix must be counts[np.ix_(keep_states, keep_states)] (same states on both axes, original counts)')
    mp = [s for s in ast.walk(rb) if isinstance(s, ast.Assign) and u(s.targets[0]) == 'mapping']
    ok = len(mp) == 1 and u(mp[0].value).replace(' ', '') in (
        'TrimMapping(zip(keep_states,range(len(trimmed_counts))))', 'TrimMapping(zip(keep_states,range(len(keep_states))))',
        'TrimMapping(zip(keep_states,new_states))')
    ck.check(ok, 'C11.D3.mapping', mod, mp[0] if mp else node, 'trim_disconnected', u(mp[0]) if mp else 'mapping',
             'mapping pairs are (original id, new contiguous id)',
             'TrimMapping consumes (original, trimmed) pairs: the renumbering mapping must be zip(keep_states, range(n_kept)) in that order')
    # in-place branch
    tr = [s for s in ast.walk(ib) if isinstance(s, ast.Assign) and u(s.targets[0]) == 'trim_states']
    ok = len(tr) == 1 and u(tr[0].value) in ('np.where(%s != %s)' % (labels, bname), 'np.where(%s != %s)[0]' % (labels, bname))
    ck.check(ok, 'C11.D3.inplace', mod, tr[0] if tr else node, 'trim_disconnected', u(tr[0]) if tr else 'trim_states',
             'removed states are the complement of the kept component', 'trim_states must be np.where(labels != best)')
    zs = [s for s in ast.walk(ib) if isinstance(s, ast.Assign) and isinstance(s.targets[0], ast.Subscript)
          and u(s.targets[0].value) == 'trimmed_counts' and u(s.value) == '0']
    def _full(e):
        return isinstance(e, ast.Slice) and e.lower is None and e.upper is None and e.step is None
    okrows = okcols = False
    for z in zs:
        slc = z.targets[0].slice
        if isinstance(slc, ast.Tuple) and len(slc.elts) == 2:
            a, b = slc.elts
            if u(a) == 'trim_states' and _full(b):
                okrows = True
            if _full(a) and u(b) == 'trim_states':
                okcols = True
    ck.check(okrows and okcols, 'C11.D3.inplace', mod, zs[0] if zs else node, 'trim_disconnected', '; '.join(u(s) for s in zs),
             'rows AND columns of every removed state are zeroed',
             'the in-place variant must zero trimmed_counts[trim_states, :] and trimmed_counts[:, trim_states]: '
             'zeroing only the removed x removed block leaves one-way counts between kept and removed states')
    cp = [s for s in ast.walk(ib) if isinstance(s, ast.Assign) and u(s.targets[0]) == 'trimmed_counts']
    ok = len(cp) == 1 and u(cp[0].value) in ('np.array(%s, copy=True)' % counts, '%s.copy()' % counts, 'np.copy(%s)' % counts)
    ck.check(ok, 'C11.D3.inplace', mod, cp[0] if cp else node, 'trim_disconnected', u(cp[0]) if cp else 'copy',
             'the zeroing happens in a copy', 'the non-renumbering variant must work on a copy of the counts')
    mp2 = [s for s in ast.walk(ib) if isinstance(s, ast.Assign) and u(s.targets[0]) == 'mapping']
    ok = len(mp2) == 1 and u(mp2[0].value) == 'TrimMapping(zip(keep_states, keep_states))'
    ck.check(ok, 'C11.D3.mapping', mod, mp2[0] if mp2 else node, 'trim_disconnected', u(mp2[0]) if mp2 else 'mapping',
             'identity mapping on the kept states', 'without renumbering the mapping must be the identity on keep_states')
    # container restore + return order
    r = returns_of(fn)
    ok = len(r) == 1 and u(r[0].value) == '(mapping, trimmed_counts)'
    ck.check(ok, 'C11.D4.return', mod, r[0] if r else fn, 'trim_disconnected', u(r[0]) if r else 'return',
             'returns (mapping, counts)', 'trim_disconnected must return (mapping, trimmed_counts)')
    ot = [s for s in assigns_to(fn, 'out_type') if isinstance(s, ast.Assign)]
    ok = len(ot) == 1 and u(ot[0].value) == 'type(%s)' % counts and fn.body.index(ot[0]) < min(
        [fn.body.index(s) for s in fn.body if isinstance(s, ast.If)] or [99])
    rs = [s for s in walk_local(fn) if isinstance(s, ast.Assign) and u(s.value) == 'out_type(trimmed_counts)']
    ck.check(ok and len(rs) == 1, 'C11.D4.container', mod, ot[0] if ot else fn, 'trim_disconnected',
             '%s ; %s' % (u(ot[0]) if ot else '?', u(rs[0]) if rs else '?'),
             'input container type recorded before densifying and restored on the result',
             'the container type must be taken from the argument before densification and restored on the result')
    # unpacking sites
    n = 0
    for rel in (MS, TS):
        m2 = ck.repo.mod(rel)
        for q, f in m2.functions.items():
            for s in walk_local(f):
                if isinstance(s, ast.Assign) and isinstance(s.value, ast.Call) and \
                        call_name(s.value) == 'trim_disconnected' and isinstance(s.targets[0], ast.Tuple):
                    a, b = [u(e) for e in s.targets[0].elts]
                    n += 1
                    ck.check('mapping' in a and ('count' in b.lower() or b == 'C'), 'C11.D4.unpack', m2, s, q, u(s),
                             '(mapping, counts) unpacked in order', 'trim_disconnected returns (mapping, counts); unpacked as (%s, %s)' % (a, b))
    ck.floor('C11.D4.unpack', n, 2, 'unpackings of trim_disconnected')
    mapping_rules(ck)
    # MSM.fit stores the mapping and trimmed counts
    mm = ck.repo.mod(MS)
    fit = mm.func('MSM.fit')
    ck.analysed(mm, fit)
    ok = any(isinstance(s, ast.Assign) and u(s.targets[0]) == '(self.mapping_, tcounts)' and
             u(s.value) == 'trim_disconnected(tcounts)' for s in walk_local(fit))
    ck.check(ok, 'C11.D4.fit', mm, fit, 'MSM.fit', 'self.mapping_, tcounts = trim_disconnected(tcounts)',
             'the fitted model reports the trimming mapping and uses the trimmed counts',
             'MSM.fit must store the mapping returned by trim_disconnected and continue with the trimmed counts')
    idm = [s for s in walk_local(fit) if isinstance(s, ast.Assign) and u(s.targets[0]) == 'self.mapping_' and 'TrimMapping' in u(s.value)]
    ok = len(idm) == 1 and u(idm[0].value).replace(' ', '') == 'TrimMapping(zip(range(tcounts.shape[0]),range(tcounts.shape[0])))'
    ck.check(ok, 'C11.D4.fit', mm, idm[0] if idm else fit, 'MSM.fit', u(idm[0]) if idm else 'identity mapping',
             'identity mapping when trimming is off', 'without trimming the mapping must be the identity over all states')
    from .C16 import d2_pipeline
    d2_pipeline(ck, mm)
    check_no_arg_mutation(ck, 'C11.D5.inputs-unmodified', [(TM, 'trim_disconnected')])
    return EXPLANATION


def mapping_rules(ck):
    """TrimMapping orientation: __init__, read, write, to_mapped."""
    rule = 'C11.D3.mapping-orientation'
    mod = ck.repo.mod(TM)
    init = mod.func('TrimMapping.__init__')
    ck.analysed(mod, init)
    st = [s for s in walk_local(init) if isinstance(s, ast.Assign) and u(s.targets[0]) == 'self.to_original']
    ok = len(st) == 1 and isinstance(st[0].value, ast.DictComp)
    if ok:
        dc = st[0].value
        tgt = dc.generators[0].target
        ok = isinstance(tgt, ast.Tuple) and len(tgt.elts) == 2 and u(dc.key) == u(tgt.elts[1]) and u(dc.value) == u(tgt.elts[0])
    ck.check(ok, rule, mod, st[0] if st else init, 'TrimMapping.__init__', u(st[0]) if st else 'to_original',
             'to_original[trimmed] = original for (original, trimmed) pairs',
             'TrimMapping(transformations) takes (original, trimmed) pairs and must store to_original = {trimmed: original}')
    tm = mod.func('TrimMapping.to_mapped')
    # first definition is the getter? functions dict keeps the last (setter). check class body directly
    cls = mod.classes['TrimMapping']
    getters = [f for f in cls.body if isinstance(f, ast.FunctionDef) and f.name == 'to_mapped'
               and any(u(d) == 'property' for d in f.decorator_list)]
    ok = len(getters) == 1 and any(isinstance(r, ast.Return) and u(r.value) == '{v: k for k, v in self.to_original.items()}'
                                   for r in ast.walk(getters[0]))
    ck.check(ok, rule, mod, getters[0] if getters else cls, 'TrimMapping.to_mapped', 'to_mapped = inverse of to_original',
             'to_mapped is derived as the inverse of to_original', 'to_mapped must be {original: trimmed} = inverse of to_original')
    wr = mod.func('TrimMapping.write')
    ck.analysed(mod, wr)
    hdr = [c for c in calls_in(wr) if isinstance(c.func, ast.Attribute) and c.func.attr == 'writerow']
    rows = [c for c in calls_in(wr) if isinstance(c.func, ast.Attribute) and c.func.attr == 'writerows']
    okh = len(hdr) == 1 and u(hdr[0].args[0]) == "['original', 'mapped']"
    okr = len(rows) == 1 and 'self.to_mapped.items()' in u(rows[0].args[0])
    ck.check(okh and okr, rule + '.write', mod, rows[0] if rows else wr, 'TrimMapping.write',
             '%s ; %s' % (u(hdr[0]) if hdr else '?', u(rows[0])[:100] if rows else '?'),
             "rows are (original, mapped) pairs under the header ['original', 'mapped']",
             "the CSV header is ['original', 'mapped']; rows must therefore be the items of to_mapped "
             '(original -> mapped). Writing to_original.items() stores the columns swapped and a reload '
             'returns the inverse mapping')
    rd = mod.func('TrimMapping.read')
    ck.analysed(mod, rd)
    asr = [s for s in walk_local(rd) if isinstance(s, ast.Assert) and "['original', 'mapped']" in u(s.test)]
    r = returns_of(rd)
    ok = bool(asr) and len(r) == 1 and u(r[0].value) == "TrimMapping(zip(column['original'], column['mapped']))"
    ck.check(ok, rule + '.read', mod, r[0] if r else rd, 'TrimMapping.read', u(r[0]) if r else 'read',
             "reader rebuilds (original, mapped) pairs from the named columns",
             "read must check the header and build TrimMapping(zip(column['original'], column['mapped']))")

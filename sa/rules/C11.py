"""C11 Ergodic trimming: strong components of the thresholded graph, weight
from the original counts, mapping orientation, in-place variant.

The constructs are located by ROLE (the graph handed to
connected_components, the matrix that is returned, the index vector of the
TrimMapping pairs, the stores that run on the renumbering / on the in-place
path of the CFG) and their contents are compared after expansion of
temporaries against lists of accepted forms (match.classify): a recognised
construct with different content is a violation, an unfamiliar shape is
analysis-incomplete."""
import ast

from ..cfg import Assume
from ..core import (AnalysisIncomplete, arg_or_kw, call_name, const_value,
                    kwarg, params, u, walk_expr, walk_local)
from ..patterns import (Cmp, assigns_to, calls_in, check_no_arg_mutation,
                        conjuncts, finfo, returns_of, subscript_stores)
from .msm_common import TM, MS, TS
from ..match import C, CS, canon, classify, match

EXPLANATION = (
    'Static decision of the structural necessary conditions of ergodic '
    'trimming: (D1) components are computed by connected_components(..., '
    'directed=True, connection="strong") on a thresholded COPY; (D2) component '
    'weight is the sum of ROW sums of the ORIGINAL counts and the component is '
    'selected by argmax; (D3) kept states come from np.where(labels == best)[0] '
    '(ascending, hence order preserving), the same index vector selects rows '
    'and columns, TrimMapping consumes (original, trimmed) pairs and every '
    'producer/writer/reader agrees on that orientation, the in-place variant '
    'zeroes rows AND columns of the complementary set; (D4) the return order '
    '(mapping, counts) matches every unpacking site and the container type is '
    'restored; (D5) the caller\'s matrix is not modified. That scipy returns '
    'the strongly connected components is trusted.')

F = 'trim_disconnected'


# ---------------------------------------------------------------------------
# helpers (candidates for a shared module)

def _cx(e):
    """Canonical text of an (expanded) expression."""
    return u(canon(e))


def _cls(node, patterns, scope, near=2):
    """match.classify with a scope, but a recognised-role expression is a
    VIOLATION only when it is, besides being a pure function of the same
    operands, a SMALL edit (<= near positions) of an accepted form: a larger
    distance means a re-expressed computation the rule cannot compare ->
    'far' (analysis incomplete)."""
    v = classify(node, patterns, scope=scope)
    if v[0] == 'near' and v[1] > near:
        return ('far',) + tuple(v[1:])
    return v


def _short(e, n=160):
    t = e if isinstance(e, str) else u(e)
    return t if len(t) <= n else t[:n - 3] + '...'


def _strip_calls(e, names=('np.asarray', 'np.array', 'np.asanyarray', 'list', 'int')):
    """Peel value-preserving wrappers `f(x)` (single positional argument)."""
    while isinstance(e, ast.Call) and call_name(e) in names and len(e.args) == 1 and not e.keywords:
        e = e.args[0]
    return e


def _peel_outer(e):
    """Remove OUTER conversions that keep the elements (as dictionary keys /
    array indices) and their order: x.tolist(), list(x), tuple(x),
    np.asarray(x), np.asanyarray(x), x.copy()."""
    while isinstance(e, ast.Call) and not e.keywords:
        if isinstance(e.func, ast.Attribute) and e.func.attr in ('tolist', 'copy') and not e.args and \
                call_name(e) not in ('np.copy', 'copy.copy'):
            e = e.func.value
        elif call_name(e) in ('list', 'tuple', 'np.asarray', 'np.asanyarray') and len(e.args) == 1 and \
                not isinstance(e.args[0], (ast.Starred, ast.GeneratorExp)):
            e = e.args[0]
        else:
            break
    return e


def _strip_copy(e):
    """Peel copies of a freshly built array: `x.copy()`, `np.array(x)`,
    `np.array(x, copy=True)`, `np.asarray(x)`, `np.ascontiguousarray(x)`."""
    while True:
        if isinstance(e, ast.Call) and isinstance(e.func, ast.Attribute) and e.func.attr == 'copy' and not e.args and not e.keywords \
                and call_name(e) not in ('np.copy', 'copy.copy'):
            e = e.func.value
        elif isinstance(e, ast.Call) and call_name(e) in ('np.array', 'np.asarray', 'np.ascontiguousarray', 'np.copy') and len(e.args) == 1 \
                and all(k.arg == 'copy' and const_value(k.value) is True for k in e.keywords):
            e = e.args[0]
        else:
            return e


def _is_full_slice(e):
    return isinstance(e, ast.Slice) and e.lower is None and e.upper is None and e.step is None


def _is_ix(e):
    return isinstance(e, ast.Call) and (call_name(e) or '').split('.')[-1] == 'ix_'


def _temp_on(fi, n, excl):
    """Like FuncInfo.temp_value, but on the paths that avoid the branch headed
    by the Assume node `excl`: a name with one definition per branch denotes,
    on the other branch, the value of the definition made there."""
    v = fi.temp_value(n)
    if v is not None or excl is None:
        return v
    from ..normal import is_pure
    if not isinstance(n, ast.Name) or not isinstance(n.ctx, ast.Load):
        return None
    try:
        defs = fi.defs_of_use(n)
    except Exception:
        return None
    if len(defs) < 2 or any(d in ('PARAM', 'UNBOUND') for d in defs):
        return None
    dom = fi.cfg.dominates
    live = [d for d in defs if not dom(excl, d)]
    if len(live) != 1:
        return None
    site = live[0]
    if not isinstance(site, (ast.Assign, ast.AnnAssign)):
        return None
    v = fi.def_value(site, n.id)
    if v is None or isinstance(v, ast.GeneratorExp) or not is_pure(v):
        return None
    if fi._mutated_in_place(n.id):
        return None
    use = fi.stmt(n)

    def on_path(ds):
        return {d for d in ds if d in ('PARAM', 'UNBOUND') or not dom(excl, d)}
    for m in walk_expr(v):
        if not (isinstance(m, ast.Name) and isinstance(m.ctx, ast.Load)):
            continue
        if on_path(fi.rd.defs_at(site, m.id)) != on_path(fi.rd.defs_at(use, m.id)):
            return None
        for ms in fi._mutated_in_place(m.id):
            if ms is use or ms is site or dom(excl, ms):
                continue
            if fi.cfg.reachable(site, ms, avoiding=[use]) and fi.cfg.reachable(ms, use, avoiding=[site]):
                return None
    return v


def _xb(fi, expr, excl=None, depth=8):
    """fi.expand(expr), evaluated on the paths avoiding branch `excl` (if
    given).  Names in `fi._c11_atoms` (the names a rule has located by role
    and spells its accepted forms with) are left alone; a list that is
    accumulated by one append loop is replaced by the comprehension it
    equals (_accum_value)."""
    atoms = getattr(fi, '_c11_atoms', ())

    def ex(e, d):
        if isinstance(e, ast.Name):
            if d > 0 and isinstance(e.ctx, ast.Load) and e.id not in atoms:
                v = _temp_on(fi, e, excl)
                if v is not None:
                    return ex(v, d - 1)
                v = _accum_value(fi, e, lambda z: ex(z, d - 1))
                if v is not None:
                    return v
            return ast.copy_location(ast.Name(id=e.id, ctx=e.ctx), e)
        if not isinstance(e, ast.AST):
            return e
        if isinstance(e, (ast.expr_context, ast.operator, ast.unaryop, ast.boolop, ast.cmpop)):
            return e
        if isinstance(e, ast.Call) and getattr(e, '_from_np_array', False) and isinstance(e.func, ast.Attribute) \
                and isinstance(e.func.value, ast.Name):
            # `name.copy()` that the front end spelled from np.array(name): once the name is
            # expanded to a non-name expression, spell it np.array(<expr>) again (as fi.expand does)
            inner = ex(e.func.value, d)
            if not isinstance(inner, ast.Name):
                return ast.copy_location(ast.Call(
                    func=ast.Attribute(value=ast.Name(id='np', ctx=ast.Load()), attr='array', ctx=ast.Load()),
                    args=[inner], keywords=[]), e)
        new = type(e)()
        for f in e._fields:
            val = getattr(e, f, None)
            if isinstance(val, list):
                setattr(new, f, [ex(x, d) for x in val])
            elif isinstance(val, ast.AST):
                setattr(new, f, ex(val, d))
            else:
                setattr(new, f, val)
        for a in ('lineno', 'col_offset', 'end_lineno', 'end_col_offset', '_from_np_array', '_canon_origin'):
            if hasattr(e, a):
                setattr(new, a, getattr(e, a))
        return new
    return ex(expr, depth)


def _branch_assumes(fi, is_test):
    """(assume_true, assume_false) of the single `if` whose test is, up to
    negation, the atom recognised by is_test(expr); None if not exactly one."""
    found = {}
    for n in fi.cfg.nodes:
        if not isinstance(n, Assume):
            continue
        cj = conjuncts(n.test, n.polarity)
        if cj is None or len(cj) != 1 or not (isinstance(cj[0], tuple) and cj[0][0] == 'expr'):
            continue
        _, e, pol = cj[0]
        if is_test(e):
            found.setdefault(id(n.owner), {})[pol] = n
    if len(found) != 1:
        return None
    d = next(iter(found.values()))
    if True not in d or False not in d:
        return None
    return d[True], d[False]


def _guard_atoms(fi, stmt):
    """Atomic conditions known to hold at stmt (conjuncts of every dominating
    branch assumption) as canonical texts with polarity; None if some
    dominating assumption is a disjunction."""
    out = []
    for n in fi.cfg.nodes:
        if isinstance(n, Assume) and fi.cfg.dominates(n, stmt):
            cj = conjuncts(n.test, n.polarity)
            if cj is None:
                return None
            for c in cj:
                if isinstance(c, Cmp):
                    out.append((_cx(ast.Compare(left=c.lhs, ops=[c.op()], comparators=[c.rhs])), True))
                else:
                    # a named condition (`flag = self.trim` ... `if flag:`) / bool(x): the condition itself
                    e = c[1]
                    try:
                        e = fi.expand(e)
                    except Exception:
                        pass
                    e = _strip_calls(e, ('bool',))
                    cj2 = conjuncts(e, c[2]) if isinstance(e, (ast.BoolOp, ast.UnaryOp, ast.Compare)) else None
                    if isinstance(e, (ast.BoolOp, ast.UnaryOp, ast.Compare)) and cj2 is None:
                        out.append((_cx(c[1]), c[2]))       # a disjunction: keep the named condition as one atom
                    elif cj2 is not None:
                        for x in cj2:
                            if isinstance(x, Cmp):
                                out.append((_cx(ast.Compare(left=x.lhs, ops=[x.op()], comparators=[x.rhs])), True))
                            else:
                                out.append((_cx(x[1]), x[2]))
                    else:
                        out.append((_cx(e), c[2]))
    return out


def _dict_pairs(e):
    """(key, value, target, iterable) of `{k: v for t in it}` or
    `dict((k, v) for t in it)`; None otherwise."""
    if isinstance(e, ast.DictComp) and len(e.generators) == 1 and not e.generators[0].ifs:
        g = e.generators[0]
        return e.key, e.value, g.target, g.iter
    if isinstance(e, ast.Call) and call_name(e) == 'dict' and len(e.args) == 1 and not e.keywords:
        g = e.args[0]
        if isinstance(g, (ast.GeneratorExp, ast.ListComp)) and len(g.generators) == 1 and not g.generators[0].ifs \
                and isinstance(g.elt, ast.Tuple) and len(g.elt.elts) == 2:
            return g.elt.elts[0], g.elt.elts[1], g.generators[0].target, g.generators[0].iter
    return None


def _inverting(e):
    """True / False: the dict expression maps b -> a for (a, b) pairs of its
    iterable / keeps the orientation; None: not recognised."""
    p = _dict_pairs(e)
    if p is None:
        if isinstance(e, ast.Call) and call_name(e) == 'dict' and len(e.args) == 1 and not e.keywords and \
                not isinstance(e.args[0], (ast.GeneratorExp, ast.ListComp, ast.SetComp, ast.DictComp)):
            # dict(pairs): key = first, value = second component of every pair
            return False, _strip_calls(e.args[0], ('list', 'tuple', 'iter'))
        return None, None
    k, v, t, it = p
    if not (isinstance(t, ast.Tuple) and len(t.elts) == 2):
        return None, it
    a, b = u(t.elts[0]), u(t.elts[1])
    if a == b:
        return None, it
    if (u(k), u(v)) == (b, a):
        return True, it
    if (u(k), u(v)) == (a, b):
        return False, it
    return None, it


def _is_empty_dict(e):
    return (isinstance(e, ast.Dict) and not e.keys) or \
        (isinstance(e, ast.Call) and call_name(e) in ('dict', 'collections.OrderedDict', 'OrderedDict')
         and not e.args and not e.keywords)


def _loop_inverting(fn, attr):
    """`for a, b in it: <attr>[k] = v` filling a dictionary pair by pair:
    list of (inverting, iterable, store) - inverting as in _inverting."""
    out = []
    for loop in walk_local(fn):
        if not isinstance(loop, ast.For):
            continue
        for s in ast.walk(loop):
            if not (isinstance(s, ast.Assign) and len(s.targets) == 1 and isinstance(s.targets[0], ast.Subscript)
                    and u(s.targets[0].value) == attr):
                continue
            t = loop.target
            k, v = s.targets[0].slice, s.value
            inv = None
            if isinstance(t, ast.Tuple) and len(t.elts) == 2 and u(t.elts[0]) != u(t.elts[1]):
                a, b = u(t.elts[0]), u(t.elts[1])
                inv = True if (u(k), u(v)) == (b, a) else False if (u(k), u(v)) == (a, b) else None
            elif isinstance(t, ast.Name):
                p = t.id
                sub = lambda i: CS('%s[%d]' % (p, i))[0]
                inv = True if (_cx(k), _cx(v)) == (sub(1), sub(0)) else False if (_cx(k), _cx(v)) == (sub(0), sub(1)) else None
            out.append((inv, _strip_calls(loop.iter, ('list', 'tuple', 'iter')), s))
    return out


_ORDER_ONLY = ('sorted', 'list', 'tuple', 'reversed', 'iter')


def _row_source(fi, e, depth=8):
    """The collection of pairs an expression enumerates, up to the ORDER of
    the pairs: (`X.items()` expression, swapped) where swapped tells whether
    every pair (a, b) of the source arrives as (b, a); None if not recognised.
    Sees through sorted/list/tuple/reversed, named temporaries (also when
    their definition holds a lambda sort key or they are sorted in place),
    pair-rebuilding comprehensions and zip(X.keys(), X.values())."""
    swapped = False
    for _ in range(depth):
        if isinstance(e, ast.Call) and call_name(e) in _ORDER_ONLY and e.args and \
                all(k.arg in ('key', 'reverse') for k in e.keywords):
            if call_name(e) == 'sorted' and len(e.args) != 1:
                return None
            e = e.args[0]
            continue
        if isinstance(e, ast.Name) and isinstance(e.ctx, ast.Load):
            try:
                defs = fi.defs_of_use(e)
            except Exception:
                return None
            if len(defs) != 1:
                return None
            d = next(iter(defs))
            v = fi.def_value(d, e.id) if d not in ('PARAM', 'UNBOUND') else None
            if v is None:
                return None
            for ms in fi._mutated_in_place(e.id):
                c = ms.value if isinstance(ms, ast.Expr) else None
                if not (isinstance(c, ast.Call) and isinstance(c.func, ast.Attribute) and c.func.attr in ('sort', 'reverse')
                        and isinstance(c.func.value, ast.Name) and c.func.value.id == e.id):
                    return None     # the list is edited, not merely reordered
            use = fi.stmt(e)
            for m in walk_expr(v):
                if isinstance(m, ast.Name) and isinstance(m.ctx, ast.Load) and m.id in fi.rd.locals and \
                        fi.rd.defs_at(d, m.id) != fi.rd.defs_at(use, m.id):
                    return None
            e = v
            continue
        if isinstance(e, (ast.ListComp, ast.GeneratorExp)) and len(e.generators) == 1 and not e.generators[0].ifs \
                and isinstance(e.elt, (ast.Tuple, ast.List)) and len(e.elt.elts) == 2:
            g = e.generators[0]
            x, y = u(e.elt.elts[0]), u(e.elt.elts[1])
            if isinstance(g.target, ast.Tuple) and len(g.target.elts) == 2:
                a, b = u(g.target.elts[0]), u(g.target.elts[1])
            elif isinstance(g.target, ast.Name):
                a, b = CS('%s[0]' % g.target.id, '%s[1]' % g.target.id)
                x, y = _cx(e.elt.elts[0]), _cx(e.elt.elts[1])
            else:
                return None
            if a == b:
                return None
            if (x, y) == (b, a):
                swapped = not swapped
            elif (x, y) != (a, b):
                return None
            e = g.iter
            continue
        if isinstance(e, ast.Call) and call_name(e) == 'zip' and len(e.args) == 2 and not e.keywords:
            p, q = e.args
            if all(isinstance(z, ast.Call) and isinstance(z.func, ast.Attribute) and not z.args and not z.keywords for z in (p, q)) \
                    and u(p.func.value) == u(q.func.value) and {p.func.attr, q.func.attr} == {'keys', 'values'}:
                if p.func.attr == 'values':
                    swapped = not swapped
                e = ast.Call(func=ast.Attribute(value=p.func.value, attr='items', ctx=ast.Load()), args=[], keywords=[])
                continue
            return None
        break
    if isinstance(e, ast.Call) and isinstance(e.func, ast.Attribute) and e.func.attr == 'items' and not e.args and not e.keywords:
        return e, swapped
    return None


def _origins(fi, stmt, name, chain=()):
    """Where the value of the variable `name` on entry to `stmt` may have
    been produced, following plain copies `a = b` / `a, b = (c, d)` through
    the reaching definitions: list of (site, index, value, chain).
    site 'PARAM'/'UNBOUND', or the producing statement; value is its right
    hand side (not a Name) or None when the name is component `index` of an
    unpacked non-tuple value (`a, b = f(..)`); chain = the definition sites
    passed through (the value arrives only if all of them execute)."""
    out = []
    for d in fi.rd.defs_at(stmt, name):
        if d in ('PARAM', 'UNBOUND'):
            out.append((d, None, None, chain))
            continue
        if any(d is c for c in chain):
            continue
        v = fi.def_value(d, name)
        if isinstance(v, ast.Name):
            out += _origins(fi, d, v.id, chain + (d,))
        elif v is not None:
            comp = _component(fi, d, v, chain + (d,))
            if comp is not None:
                out += comp
            else:
                out.append((d, None, v, chain + (d,)))
        else:
            idx = None
            if isinstance(d, ast.Assign) and len(d.targets) == 1 and isinstance(d.targets[0], (ast.Tuple, ast.List)):
                for i, te in enumerate(d.targets[0].elts):
                    if isinstance(te, ast.Name) and te.id == name:
                        idx = i
            out.append((d, idx, None, chain + (d,)))
    return out


def _component(fi, stmt, ve, chain=()):
    """`R[i]` (constant i >= 0) of a name R that holds the un-unpacked result
    of a call: component i of that result, as _origins entries; else None."""
    if isinstance(ve, ast.Subscript) and isinstance(ve.value, ast.Name) and isinstance(const_value(ve.slice), int) \
            and not isinstance(const_value(ve.slice), bool) and const_value(ve.slice) >= 0:
        o = _origins(fi, stmt, ve.value.id, chain)
        if o and all(isinstance(v, ast.Call) for _, _, v, _ in o):
            return [(site, const_value(ve.slice), None, ch) for site, _, _, ch in o]
    return None


def _value_origins(fi, stmt, ve, idx=None):
    """_origins of the value `ve` evaluated at stmt (component idx of the
    unpacked right-hand side of stmt when ve is None)."""
    if ve is None:
        return [(stmt, idx, None, ())]
    if isinstance(ve, ast.Name):
        return _origins(fi, stmt, ve.id)
    comp = _component(fi, stmt, ve)
    if comp is not None:
        return comp
    return [(stmt, None, ve, ())]


def _okey(origins):
    return {(id(site) if not isinstance(site, str) else site, idx) for site, idx, _, _ in origins}


def _attr_stores(fn, text):
    """Stores into the attribute spelled `text`: (stmt, value, index) - value
    is the stored expression, or None and index = position in an unpacked
    right-hand side."""
    out = []
    for s in walk_local(fn):
        if not isinstance(s, ast.Assign):
            continue
        for t in s.targets:
            if u(t) == text:
                out.append((s, s.value, None))
            elif isinstance(t, (ast.Tuple, ast.List)):
                for i, te in enumerate(t.elts):
                    if u(te) == text:
                        if isinstance(s.value, (ast.Tuple, ast.List)) and len(s.value.elts) == len(t.elts):
                            out.append((s, s.value.elts[i], None))
                        else:
                            out.append((s, None, i))
    return out


def _assign_pairs(s):
    """(target, value, index) of every simple target of an assignment: value
    is the expression stored there, or None and index = position in an
    unpacked non-display right-hand side."""
    for t in s.targets:
        if isinstance(t, (ast.Tuple, ast.List)):
            if isinstance(s.value, (ast.Tuple, ast.List)) and len(s.value.elts) == len(t.elts):
                for te, ve in zip(t.elts, s.value.elts):
                    yield te, ve, None
            else:
                for i, te in enumerate(t.elts):
                    yield te, None, i
        else:
            yield t, s.value, None


def _component_sinks(fi, fn, s, call):
    """Where the components of the tuple returned by `call` (bound by the
    assignment `s`: `a, b = call`, `R = call` followed by `R[k]`, or
    `x = call[k]`) are stored, following plain copies: list of
    (target, statement, indices, exclusive) - indices = the components that
    may arrive in the target, exclusive = nothing else may."""
    direct = None               # `x = call[k]`: s binds component k itself
    if isinstance(s.value, ast.Subscript) and s.value.value is call:
        k = const_value(s.value.slice)
        if type(k) is int and k >= 0:
            direct = k
    out = []
    for x in walk_local(fn):
        if not isinstance(x, ast.Assign):
            continue
        for t, ve, i in _assign_pairs(x):
            if x is s:
                if ve is None and s.value is call:
                    out.append((t, x, {i}, True))
                elif direct is not None and ve is s.value:
                    out.append((t, x, {direct}, True))
                continue
            if not (isinstance(ve, ast.Name) or (isinstance(ve, ast.Subscript) and isinstance(ve.value, ast.Name))):
                continue
            try:
                os_ = _value_origins(fi, x, ve, i)
            except Exception:
                continue
            idxs, excl = set(), bool(os_)
            for site, idx, v, _ in os_:
                if site is s and idx is not None and s.value is call:
                    idxs.add(idx)
                elif site is s and direct is not None and v is s.value:
                    idxs.add(direct)
                else:
                    excl = False
            if idxs:
                out.append((t, x, idxs, excl))
    return out


def _accum_value(fi, n, ex):
    """`L = []` followed by ONE loop `for T in IT: ...; L.append(E)` that is
    the only thing ever done to L before this use: the value of L is
    `[E for T in IT]` (E with the temporaries of the loop body expanded by
    `ex`).  None when any of the conditions that make this exact fails."""
    from ..normal import is_pure
    if not isinstance(n, ast.Name) or not isinstance(n.ctx, ast.Load):
        return None
    L = n.id
    try:
        defs = fi.defs_of_use(n)
    except Exception:
        return None
    if len(defs) != 1:
        return None
    site = next(iter(defs))
    if not isinstance(site, ast.Assign) or len(assigns_to(fi.fn, L)) != 1:
        return None
    v0 = fi.def_value(site, L)
    if not ((isinstance(v0, ast.List) and not v0.elts) or
            (isinstance(v0, ast.Call) and call_name(v0) == 'list' and not v0.args and not v0.keywords)):
        return None
    muts = fi._mutated_in_place(L)
    if len(muts) != 1:
        return None
    app = muts[0]
    c = app.value if isinstance(app, ast.Expr) else None
    if not (isinstance(c, ast.Call) and isinstance(c.func, ast.Attribute) and c.func.attr == 'append'
            and isinstance(c.func.value, ast.Name) and c.func.value.id == L and len(c.args) == 1 and not c.keywords
            and not isinstance(c.args[0], ast.Starred)):
        return None
    par = fi.mod.parent
    lp = par.get(app)
    if not isinstance(lp, ast.For) or lp.orelse or not any(b is app for b in lp.body):
        return None
    if par.get(lp) is not par.get(site):
        return None             # (executed equally often: same block)
    if any(isinstance(x, (ast.Break, ast.Continue, ast.Return, ast.Yield, ast.YieldFrom, ast.Try, ast.While)) for x in ast.walk(lp)):
        return None
    if sum(1 for x in ast.walk(lp) if isinstance(x, ast.Name) and x.id == L) != 1:
        return None
    use = fi.stmt(n)
    if fi._within(use, lp) or use is lp or not fi.cfg.dominates(site, lp) or not fi.cfg.dominates(lp, use):
        return None
    from ..core import target_names
    tn = set(target_names(lp.target))
    inner = set()               # names (re)bound inside the loop body
    for x in ast.walk(lp):
        if isinstance(x, ast.Name) and isinstance(x.ctx, (ast.Store, ast.Del)):
            inner.add(x.id)
    if any(isinstance(x, ast.Name) and isinstance(x.ctx, ast.Store) and x.id in tn for b in lp.body for x in ast.walk(b)):
        return None
    elt, it = ex(c.args[0]), ex(lp.iter)
    if not is_pure(elt) or not is_pure(it):
        return None
    for e, bound in ((elt, tn), (it, set())):
        for m in walk_expr(e):
            if not (isinstance(m, ast.Name) and isinstance(m.ctx, ast.Load)) or m.id in bound:
                continue
            if m.id in inner or m.id == L:
                return None     # a per-iteration value the expansion could not see through
            if m.id in fi.rd.locals and fi.rd.defs_at(lp, m.id) != fi.rd.defs_at(use, m.id):
                return None
            for ms in fi._mutated_in_place(m.id):
                if fi.cfg.reachable(site, ms) and fi.cfg.reachable(ms, use):
                    return None
    comp = ast.ListComp(elt=elt, generators=[ast.comprehension(target=lp.target, iter=it, ifs=[], is_async=0)])
    return ast.copy_location(comp, site.value)


_SAME_IDS_METHODS = ('tocsr', 'tocsc', 'tocoo', 'tolil', 'todok', 'tobsr', 'todia', 'toarray', 'todense', 'copy')
_SAME_IDS_CTORS = ('csr_matrix', 'csc_matrix', 'coo_matrix', 'lil_matrix', 'dok_matrix', 'bsr_matrix', 'dia_matrix',
                   'csr_array', 'csc_array', 'coo_array', 'lil_array', 'dok_array', 'bsr_array', 'dia_array')
_SAME_IDS_WRAPS = ('np.asarray', 'np.array', 'np.asanyarray', 'np.ascontiguousarray', 'np.copy', 'numpy.asarray', 'numpy.array')


def _same_entries_step(e):
    """`e` = f(inner) where f keeps every entry (i, j) of a matrix at position
    (i, j) with its value (storage format / container conversions, copies):
    inner; None otherwise."""
    if isinstance(e, ast.Call) and not any(isinstance(a, ast.Starred) for a in e.args) and all(k.arg is not None for k in e.keywords):
        cn = call_name(e) or ''
        if cn in _SAME_IDS_WRAPS or cn.split('.')[-1] in _SAME_IDS_CTORS:
            if len(e.args) == 1 and not isinstance(e.args[0], (ast.Tuple, ast.List, ast.GeneratorExp)) and \
                    all(k.arg in ('copy', 'order') for k in e.keywords):
                return e.args[0]
            return None
        if isinstance(e.func, ast.Attribute) and e.func.attr in _SAME_IDS_METHODS and not e.args and \
                all(k.arg in ('copy', 'order') for k in e.keywords):
            return e.func.value
        return None
    if isinstance(e, ast.Attribute) and e.attr == 'A' and isinstance(e.ctx, ast.Load):
        return e.value
    return None


def _index_parts(sl):
    """Per-axis index expressions of a subscript (tuple index, np.ix_)."""
    if isinstance(sl, ast.Tuple):
        return list(sl.elts)
    if _is_ix(sl) and not sl.keywords:
        return list(sl.args)
    return [sl]


def _keeps_all_positions(p):
    return _is_full_slice(p) or (isinstance(p, ast.Constant) and p.value is Ellipsis)


def _matrix_roots(fi, stmt, e, chain=(), sels=()):
    """Where the MATRIX denoted by expression `e` (evaluated at `stmt`) comes
    from, seen through plain copies and entry-preserving conversions
    (_same_entries_step): list of (key, selections).  key = (id(site), index)
    as in _okey - the statement that produces the root value (index: the
    component of an unpacked result), or ('PARAM'/'UNBOUND', None).
    selections = the subscripts (stmt, Subscript) passed on the way whose
    index is not the full range: the value is then a SUB-SELECTION of the
    root (row i of it is not row i of the root in general)."""
    while True:
        comp = _component(fi, stmt, e, chain) if isinstance(e, ast.Subscript) else None
        if comp is not None:
            return [((id(site) if not isinstance(site, str) else site, idx), sels) for site, idx, _, _ in comp]
        inner = _same_entries_step(e)
        if inner is not None:
            e = inner
            continue
        if isinstance(e, ast.Subscript):
            if not all(_keeps_all_positions(p) for p in _index_parts(e.slice)):
                sels = sels + ((stmt, e),)
            e = e.value
            continue
        break
    if not isinstance(e, ast.Name):
        return [((id(stmt), None), sels)]
    out = []
    for d in fi.rd.defs_at(stmt, e.id):
        if d in ('PARAM', 'UNBOUND'):
            out.append(((d, None), sels))
            continue
        if any(d is c for c in chain):
            continue
        v = fi.def_value(d, e.id)
        if v is not None:
            out += _matrix_roots(fi, d, v, chain + (d,), sels)
            continue
        idx = None
        if isinstance(d, ast.Assign) and len(d.targets) == 1 and isinstance(d.targets[0], (ast.Tuple, ast.List)):
            for i, te in enumerate(d.targets[0].elts):
                if isinstance(te, ast.Name) and te.id == e.id:
                    idx = i
        out.append(((id(d), idx), sels))
    return out


def _selection_kind(fi, part):
    """What a per-axis index expression selects: 'all' (every position, in
    order), 'subset' (a data-dependent set of positions: the positions of the
    true entries of a mask - position k of the selection is then NOT state k
    in general), 'unknown'."""
    if _keeps_all_positions(part):
        return 'all'
    if isinstance(part, ast.Slice):
        return 'unknown'
    def value_of(x):
        # the object a name is bound to (single reaching definition, never mutated in place): its
        # OUTERMOST constructor decides the kind - whatever the mask is computed from (also
        # through method calls the expansion does not forward), np.where(<mask>)[0] are positions
        for _ in range(6):
            x = _peel_outer(x)
            if isinstance(x, ast.Call) and call_name(x) in ('np.sort', 'np.unique') and len(x.args) == 1 and not x.keywords:
                x = x.args[0]
                continue
            if not (isinstance(x, ast.Name) and isinstance(x.ctx, ast.Load)):
                break
            try:
                defs = fi.defs_of_use(x)
            except Exception:
                break
            if len(defs) != 1:
                break
            d = next(iter(defs))
            v = fi.def_value(d, x.id) if d not in ('PARAM', 'UNBOUND') else None
            if v is None or fi._mutated_in_place(x.id):
                break
            x = v
        return x
    x = value_of(part)
    if isinstance(x, ast.Subscript) and const_value(x.slice) == 0 and isinstance(x.value, ast.Call) and \
            call_name(x.value) in ('np.where', 'np.nonzero') and len(x.value.args) == 1 and \
            all(k.arg == 'mask' for k in x.value.keywords):
        return 'subset'
    if isinstance(x, ast.Call) and call_name(x) in ('np.flatnonzero', 'np.argwhere') and len(x.args) == 1:
        return 'subset'
    def is_mask(m):
        if isinstance(m, ast.Compare):
            return len(m.ops) == 1 and not isinstance(m.ops[0], (ast.Is, ast.IsNot, ast.In, ast.NotIn))
        if isinstance(m, ast.UnaryOp) and isinstance(m.op, ast.Invert):
            return is_mask(m.operand)
        if isinstance(m, ast.BinOp) and isinstance(m.op, (ast.BitAnd, ast.BitOr)):
            return is_mask(m.left) and is_mask(m.right)
        return False
    return 'subset' if is_mask(x) else 'unknown'


def _atoms_at(fi, stmts):
    """Union of the guard atoms of several statements (None if undecidable)."""
    out = set()
    for s in stmts:
        a = _guard_atoms(fi, s)
        if a is None:
            return None
        out |= set(a)
    return sorted(out)


def _cond_text(atoms):
    return ' and '.join(('' if p else 'not ') + a for a, p in atoms) or 'unconditional'


# ---------------------------------------------------------------------------

def check(ck):
    mod = ck.repo.mod(TM)
    fn = mod.func(F)
    ck.analysed(mod, fn)
    trim_rules(ck, mod, fn)
    unpack_rules(ck)
    mapping_rules(ck)
    fit_rules(ck)
    mm = ck.repo.mod(MS)
    try:
        from .C16 import d2_pipeline
        d2_pipeline(ck, mm)
    except AnalysisIncomplete:
        raise
    except Exception as e:      # rule of another property crashed on an unfamiliar shape
        ck.missing('C16.D2.pipeline', 'pipeline rule (sa/rules/C16.py) could not analyse MSM.fit: %r' % (e,))
    check_no_arg_mutation(ck, 'C11.D5.inputs-unmodified', [(TM, F)])
    return EXPLANATION


def trim_rules(ck, mod, fn):
    fi = finfo(mod, fn)
    ps = params(fn)
    if len(ps) < 3:
        ck.missing('C11.D1.strong', 'signature trim_disconnected(counts, threshold, renumber_states)')
        return
    counts, thr, renum = ps[0], ps[1], ps[2]
    dom = fi.cfg.dominates

    # ---- D1: strongly connected components of the directed graph
    cc = [c for c in calls_in(fn) if (call_name(c) or '').split('.')[-1] == 'connected_components']
    if len(cc) != 1:
        ck.missing('C11.D1.strong', 'connected_components call')
        return
    c = cc[0]
    conn, direc = arg_or_kw(c, 2, 'connection'), arg_or_kw(c, 1, 'directed')
    conn = fi.expand(conn) if conn is not None else None        # (a named constant)
    direc = fi.expand(direc) if direc is not None else None
    if any(isinstance(a, ast.Starred) for a in c.args) or any(k.arg is None for k in c.keywords) or \
            any(a is not None and not isinstance(a, ast.Constant) for a in (conn, direc)):
        ck.missing('C11.D1.strong', 'constant connection= / directed= arguments of %s' % _short(c, 100))
    else:
        # (scipy compares connection case-insensitively; directed is used for its truth value)
        ok = conn is not None and isinstance(conn.value, str) and conn.value.lower() == 'strong' and \
            (direc is None or (isinstance(direc.value, (bool, int)) and bool(direc.value)))
        ck.check(ok, 'C11.D1.strong', mod, c, F, u(c),
                 'strongly connected components of the directed graph',
                 'connected_components must be called with directed=True, connection="strong": the default '
                 '"weak" keeps states that can be entered but never left (or vice versa)')
    # the names given to the two components of the result (n_components, labels), by def-use:
    # `n, l = cc(..)`, `r = cc(..); n, l = r[0], r[1]`, `l = cc(..)[1]` ...
    cst = fi.stmt(c)
    names = {}
    if isinstance(cst, ast.Assign) and len(cst.targets) == 1:
        for t, x, idxs, excl in _component_sinks(fi, fn, cst, c):
            if isinstance(t, ast.Name) and excl and len(idxs) == 1 and len(assigns_to(fn, t.id)) == 1:
                names.setdefault(next(iter(idxs)), []).append(t.id)
    if 1 not in names or any(k not in (0, 1) for k in names):
        ck.missing('C11.D1.strong', '`n_components, labels = connected_components(...)`')
        return
    labels = names[1][0]
    # (a discarded component count: no name; forms that need it then cannot match)
    nsub = names[0][0] if 0 in names else '_n_components_unnamed_'
    fi._c11_atoms = {labels, nsub}

    # ---- D2: the graph is a thresholded COPY of the counts
    # every definition of `counts` is the parameter or its densification
    dens = CS('%s.toarray()' % counts, '%s.todense()' % counts, 'np.asarray(%s.todense())' % counts, '%s.A' % counts)
    redefs = [s for s in assigns_to(fn, counts)]
    okd = all(isinstance(s, ast.Assign) and len(s.targets) == 1 and isinstance(s.targets[0], ast.Name) and
              (_cx(s.value) in dens or _densify_ifexp(s.value, counts, dens) is not None) for s in redefs)
    densify_rule(ck, mod, fn, fi, counts, dens, redefs, cst)
    graph = c.args[0] if c.args else kwarg(c, 'csgraph')
    for _ in range(4):          # `g2 = g` : follow plain aliases to the array that is built and thresholded
        if isinstance(graph, ast.Name) and len(fi.defs_of_use(graph)) == 1:
            d = next(iter(fi.defs_of_use(graph)))
            v = fi.def_value(d, graph.id) if d not in ('PARAM', 'UNBOUND') else None
            if isinstance(v, ast.Name):
                graph = v
                continue
        break
    G = graph.id if isinstance(graph, ast.Name) else None
    gstores = subscript_stores(fn, G) if G else []
    cmask = ['%s < %s' % (counts, thr), 'np.less(%s, %s)' % (counts, thr), '~(%s <= %s)' % (thr, counts)]
    if G and gstores:
        gd = [d for d in fi.defs_of_use(graph)]
        if len(gd) != 1 or not isinstance(gd[0], ast.Assign) or fi.def_value(gd[0], G) is None:
            ck.missing('C11.D2.threshold-copy', 'single definition of the graph %s' % G)
        else:
            v = _cls(fi.def_value(gd[0], G), ['np.array(%s, copy=True)' % counts, '%s.copy()' % counts,
                                                  'np.array(%s, dtype=_D)' % counts, 'np.array(%s, dtype=_D, copy=True)' % counts,
                                                  '%s.astype(_D)' % counts], scope={counts})
            ck.decide(v, 'C11.D2.threshold-copy', mod, gd[0], F, u(gd[0]),
                      'thresholding works on a copy of the counts',
                      'the graph handed to connected_components must be a COPY of the counts '
                      '(np.array(counts, copy=True)); thresholding the original destroys sub-threshold counts')
        before = [(s, t) for s, t in gstores if fi.cfg.reachable(s, cst)]
        graph_edit_rule(ck, mod, fn, fi, G, counts, thr, cmask, before, cst)
    else:
        g = _xb(fi, graph) if graph is not None else None
        forms = ['np.where(%s < %s, 0, %s)' % (counts, thr, counts), 'np.where(%s <= %s, %s, 0)' % (thr, counts, counts),
                 '%s * (%s <= %s)' % (counts, thr, counts), '(%s <= %s) * %s' % (thr, counts, counts), '%s <= %s' % (thr, counts)]
        if g is not None and classify(g, forms)[0] == 'match':
            ck.ok('C11.D2.threshold-copy', mod, c, u(graph), 'the graph is a new array')
            ck.ok('C11.D2.threshold', mod, c, _short(g), 'entries below the threshold are absent from the graph')
        elif g is not None and _cx(g) in (counts,) + dens + CS('%s.copy()' % counts, 'np.array(%s, copy=True)' % counts):
            ck.bad('C11.D2.threshold', mod, c, F, u(c), 'the component search runs on the raw counts: entries below the threshold must be removed from the graph')
        else:
            ck.missing('C11.D2.threshold', 'construction of the graph %s not recognised' % _short(graph))

    # ---- the renumbering branch
    br = _branch_assumes(fi, lambda e: isinstance(e, ast.Name) and e.id == renum)
    if br is None:
        ck.missing('C11.D3.branches', 'renumber_states branch')
        return
    at, af = br

    def side(stmt):
        return 'ren' if dom(at, stmt) else 'inp' if dom(af, stmt) else 'both'
    EXCL = {'ren': af, 'inp': at}

    # ---- D4: returned pair; the matrix variable M by its role
    rets = returns_of(fn)
    tms = [x for x in calls_in(fn) if call_name(x) == 'TrimMapping']
    tm_stmts = {id(fi.stmt(x)) for x in tms}
    if not rets:
        ck.missing('C11.D4.return', 'return statement')
        return

    def origins(e, seen=None):
        """Definition statements the value of Name/expr e may come from."""
        seen = set() if seen is None else seen
        if not isinstance(e, ast.Name):
            return [e]
        out = []
        for d in fi.defs_of_use(e):
            if d in ('PARAM', 'UNBOUND') or id(d) in seen:
                out.append(d)
                continue
            seen.add(id(d))
            v = fi.def_value(d, e.id)
            if isinstance(v, ast.Name):
                out += origins(v, seen)
            else:
                out.append(d)
        return out

    def is_mapping(e):
        o = origins(e)
        return bool(o) and all((isinstance(d, ast.stmt) and id(d) in tm_stmts) or
                               (isinstance(d, ast.Call) and call_name(d) == 'TrimMapping') for d in o)
    M = None
    ret_ok = True
    for r in rets:
        val = r.value
        if isinstance(val, ast.Name):
            val = fi.resolve(val)
        if not (isinstance(val, ast.Tuple) and len(val.elts) == 2):
            ck.missing('C11.D4.return', 'return value is not a pair: %s' % _short(r))
            ret_ok = False
            continue
        a, b = val.elts
        if is_mapping(a) and not is_mapping(b):
            ck.ok('C11.D4.return', mod, r, u(r), 'returns (mapping, counts)')
        elif is_mapping(b) and not is_mapping(a):
            ck.bad('C11.D4.return', mod, r, F, u(r), 'trim_disconnected must return (mapping, trimmed_counts) in that order')
            ret_ok = False
            continue
        else:
            ck.missing('C11.D4.return', 'cannot tell mapping from matrix in %s' % _short(r))
            ret_ok = False
            continue
        base = b
        if isinstance(base, ast.Call) and len(base.args) == 1 and not base.keywords and isinstance(base.func, ast.Name):
            base = base.args[0]
        if not isinstance(base, ast.Name) or (M is not None and M != base.id):
            ck.missing('C11.D4.return', 'returned matrix is not a single variable: %s' % _short(b))
            ret_ok = False
            continue
        M = base.id
    if not ret_ok or M is None:
        return

    # ---- D4: container type recorded before densification, restored on every path
    container_rule(ck, mod, fn, fi, counts, M, rets)

    # ---- definitions of M on the two paths
    mdefs = [s for s in assigns_to(fn, M) if isinstance(s, ast.Assign) and len(s.targets) == 1 and isinstance(s.targets[0], ast.Name)
             and not (isinstance(s.value, ast.Call) and isinstance(s.value.func, ast.Name) and len(s.value.args) == 1
                      and isinstance(s.value.args[0], ast.Name) and s.value.args[0].id == M)]
    mdef = {}
    for s in mdefs:
        mdef.setdefault(side(s), []).append(s)
    if 'both' in mdef or len(mdef.get('ren', [])) != 1 or len(mdef.get('inp', [])) != 1:
        ck.missing('C11.D3.branches', 'one construction of the result %s per renumber_states branch' % M)
        return

    # ---- D3: mapping pairs per path
    maps = {'ren': [], 'inp': []}
    for x in tms:
        sd = side(fi.stmt(x))
        for b in (('ren', 'inp') if sd == 'both' else (sd,)):
            maps[b].append(x)
    scope_all = {counts, labels, nsub, M, G or counts}
    KX = {}
    Kexp = {}
    rng = []
    for pre, post in (('range(', ')'), ('np.arange(', ')')):
        rng += [pre + t + post for t in ('len(%s)' % M, '%s.shape[0]' % M, 'len(_K)', '_K.shape[0]', '_K.size')]
    ren_forms = ['zip(_K, %s)' % r for r in rng] + ['((_O, _T) for _T, _O in enumerate(_K))', '[(_O, _T) for _T, _O in enumerate(_K)]']
    inp_forms = ['zip(_K, _K)', '((_S, _S) for _S in _K)', '[(_S, _S) for _S in _K]']
    # recognised spellings of the SWAPPED pairs (new id, original id): positively the wrong orientation
    swapped_forms = ['zip(%s, _K)' % r for r in rng] + ['enumerate(_K)', '((_T, _O) for _T, _O in enumerate(_K))',
                                                        '[(_T, _O) for _T, _O in enumerate(_K)]']
    for b, forms, okmsg, badmsg in (
            ('ren', ren_forms, 'mapping pairs are (original id, new contiguous id)',
             'TrimMapping consumes (original, trimmed) pairs: the renumbering mapping must be zip(keep_states, range(n_kept)) in that order'),
            ('inp', inp_forms, 'identity mapping on the kept states',
             'without renumbering the mapping must be the identity on keep_states')):
        if len(maps[b]) != 1 or len(maps[b][0].args) != 1 or maps[b][0].keywords:
            ck.missing('C11.D3.mapping', 'one TrimMapping(<pairs>) construction on the %s path (found %d)' % (
                'renumbering' if b == 'ren' else 'in-place', len(maps[b])))
            continue
        x = maps[b][0]
        arg = _strip_calls(_xb(fi, x.args[0], EXCL[b]), ('list', 'tuple'))
        if isinstance(arg, ast.Call) and call_name(arg) == 'zip' and not arg.keywords:
            # zip(K.tolist(), ...) pairs the same ids
            arg = ast.copy_location(ast.Call(func=arg.func, args=[_peel_outer(z) for z in arg.args], keywords=[]), arg)
        v = _cls(arg, forms, scope=scope_all)
        if v[0] != 'match' and b == 'ren' and classify(arg, swapped_forms)[0] == 'match':
            v = ('near', 1, 'zip(keep_states, range(n_kept))')
        ck.decide(v, 'C11.D3.mapping', mod, x, F, '%s  [%s]' % (u(fi.stmt(x)), 'renumber' if b == 'ren' else 'in place'), okmsg, badmsg)
        if v[0] == 'match':
            Kexp[b] = v[1]['_K']
            KX[b] = _cx(v[1]['_K'])
    if not KX:
        return
    if len(set(KX.values())) != 1:
        # a violation when both are recognised selections `where(labels == B)[0]` of DIFFERENT components
        kforms = ['np.where(%s == _B)[0]' % labels, 'np.where(_B == %s)[0]' % labels, 'np.nonzero(%s == _B)[0]' % labels]
        vb = [classify(Kexp[b], kforms) for b in ('ren', 'inp')]
        if all(x[0] == 'match' for x in vb):
            ck.bad('C11.D3.mapping', mod, maps['inp'][0], F, 'kept states of the two variants',
                   'the renumbering and the in-place variant describe different state sets: %s vs %s' % (_short(KX['ren'], 80), _short(KX['inp'], 80)))
        else:
            ck.missing('C11.D3.mapping', 'the keep sets of the two variants are spelled differently: %s vs %s' % (
                _short(KX['ren'], 80), _short(KX['inp'], 80)))
        return
    kx = next(iter(KX.values()))
    K = next(iter(Kexp.values()))

    # ---- D3.keep / D2.heaviest / D2.weights: peel the expanded keep set
    knode = maps['ren'][0] if maps['ren'] else maps['inp'][0]
    bx = keep_chain(ck, mod, fn, fi, K, counts, labels, nsub, G, okd, redefs, knode)

    # ---- D3.submatrix (renumbering path)
    submatrix_rule(ck, mod, fn, fi, M, mdef['ren'][0], counts, kx, at, af, scope_all)

    # ---- D3.inplace
    inplace_rule(ck, mod, fn, fi, M, mdef['inp'][0], counts, labels, bx, kx, at, af, scope_all)


_TRANSPOSERS = ('transpose', 'swapaxes', 'T', 'moveaxis', 'rot90', 'flip', 'fliplr', 'flipud', 'roll', 'tril', 'triu')


def _reads_other_entry(e, names):
    """A sub-expression of the elementwise mask `e` that reads one of the
    matrices in `names` at ANOTHER position than the one being decided: its
    transpose (`X.T`, `X.transpose()`, `np.transpose(X)`, swapaxes ...), a
    flipped / rolled / triangular view.  None if there is none."""
    for x in ast.walk(e):
        if isinstance(x, ast.Attribute) and x.attr in _TRANSPOSERS and isinstance(x.value, ast.Name) and x.value.id in names:
            return x
        if isinstance(x, ast.Call) and (call_name(x) or '').split('.')[-1] in _TRANSPOSERS and \
                any(isinstance(a, ast.Name) and a.id in names for a in x.args):
            return x
    return None


def graph_edit_rule(ck, mod, fn, fi, G, counts, thr, cmask, before, cst):
    """EVERY edit of the graph between its construction and the component
    search.  The directed graph must have the edge i -> j exactly when
    counts[i, j] >= threshold, so each store `G[mask] = const` is one of
      * the thresholding: mask = (counts < threshold) [or G < threshold: G
        holds the counts or 0], value 0 - at least one, on every path;
      * a store that cannot change which entries are non-zero: zeroing the
        entries that are zero (or, for non-negative counts, <= 0) already,
        giving the surviving entries (counts >= threshold, G != 0) another
        non-zero constant;
      * anything else that is an elementwise function of the same operands
        removes / adds edges by another criterion -> VIOLATION (named
        specially when the mask reads the REVERSE entry: the graph is made
        symmetric and strong connectivity degenerates to reciprocal links);
      * a store the rule cannot read (other operands, non-constant value,
        a tuple index) -> analysis incomplete."""
    rule = 'C11.D2.threshold'
    dom = fi.cfg.dominates
    scope = {counts, thr, G}
    if not before:
        ck.missing(rule, 'a store into the graph %s before the component search (found 0)' % G)
        return
    seen = {id(s) for s, _ in before}
    for ms in fi._mutated_in_place(G):
        if id(ms) not in seen and fi.cfg.reachable(ms, cst):
            ck.missing(rule, 'the graph %s is modified by %s before the component search' % (G, _short(ms, 100)))
            return
    # writes the subscript stores do not show: a call statement that receives the graph (np.fill_diagonal(G, ..),
    # np.minimum(G, G.T, out=G), G.sort()), an alias / view taken of it (H = G.T ... H[..] = 0)
    def _is_view_of(e):
        while True:
            if isinstance(e, ast.Name):
                return e.id == G
            if isinstance(e, ast.Attribute) and e.attr in ('shape', 'size', 'dtype', 'ndim'):
                return False
            if isinstance(e, (ast.Attribute, ast.Subscript)):
                e = e.value
            elif isinstance(e, ast.Call) and isinstance(e.func, ast.Attribute) and \
                    e.func.attr in ('view', 'reshape', 'ravel', 'transpose', 'swapaxes', 'squeeze', 'diagonal'):
                e = e.func.value
            elif isinstance(e, ast.Call) and (call_name(e) or '') in ('np.asarray', 'np.asanyarray', 'np.transpose', 'np.ravel',
                                                                      'np.reshape', 'np.diagonal', 'np.swapaxes') and e.args:
                e = e.args[0]
            else:
                return False
    for x in walk_local(fn):
        if not isinstance(x, (ast.Expr, ast.Assign, ast.AnnAssign, ast.AugAssign)) or id(x) in seen or x is cst or \
                getattr(x, 'value', None) is None or not fi.cfg.reachable(x, cst):
            continue
        hidden = False
        if isinstance(x, ast.Expr) and isinstance(x.value, ast.Call):
            from ..normal import _is_log_stmt
            hidden = not _is_log_stmt(x) and call_name(x.value) != 'print' and \
                any(isinstance(m, ast.Name) and m.id == G for m in ast.walk(x.value))
        elif isinstance(x, (ast.Assign, ast.AnnAssign)):
            tg = x.targets if isinstance(x, ast.Assign) else [x.target]
            if not any(isinstance(t, ast.Name) and t.id == G for t in tg):
                if _is_view_of(x.value):
                    # an alias / view: harmless unless something is written through it
                    for t in tg:
                        hidden = hidden or not isinstance(t, ast.Name) or bool(fi._mutated_in_place(t.id)) or any(
                            isinstance(y, ast.Expr) and isinstance(y.value, ast.Call) and any(
                                isinstance(m, ast.Name) and m.id == t.id for m in ast.walk(y.value)) for y in walk_local(fn))
                hidden = hidden or any(isinstance(c_, ast.Call) and any(k.arg == 'out' and any(
                    isinstance(m, ast.Name) and m.id == G for m in ast.walk(k.value)) for k in c_.keywords) for c_ in ast.walk(x.value))
        if hidden:
            ck.missing(rule, 'the graph %s may be modified through %s before the component search' % (G, _short(x, 100)))
            return
    thr_forms = cmask + ['%s < %s' % (G, thr)]
    zero_noop = []                # zeroing what is zero already (counts are non-negative)
    for X in (G, counts):
        zero_noop += ['%s == 0' % X, '%s <= 0' % X, '%s < 0' % X, 'np.equal(%s, 0)' % X, '~(%s != 0)' % X, '~(0 < %s)' % X]
    keep_noop = ['%s <= %s' % (thr, counts), '~(%s < %s)' % (counts, thr), '%s != 0' % G, '0 < %s' % G, '%s <= %s' % (thr, G),
                 '~(%s < %s)' % (G, thr), '%s.astype(bool)' % G]
    thresholdings, unknown = [], []
    for s, t in before:
        if not isinstance(s, ast.Assign) or len(s.targets) != 1:
            unknown.append(s)
            continue
        m = _xb(fi, t.slice)
        val = const_value(s.value) if isinstance(s.value, ast.Constant) else None
        isnum = type(val) in (int, float, bool)
        v = _cls(m, thr_forms, scope=scope)
        if v[0] == 'match':
            if isnum and val == 0:
                thresholdings.append(s)
                ck.ok(rule, mod, s, u(s), 'counts strictly below the threshold are removed from the graph only')
            elif isnum:
                ck.bad(rule, mod, s, F, u(s), 'thresholding must zero exactly the entries with counts < threshold in the graph copy '
                       '(closest accepted form: %s[%s < %s] = 0)' % (G, counts, thr))
            else:
                unknown.append(s)
            continue
        if isnum and val == 0 and classify(m, zero_noop)[0] == 'match':
            ck.ok(rule, mod, s, u(s), 'zeroes entries of the graph that are zero already')
            continue
        if isnum and val != 0 and val == val and val > 0 and classify(m, keep_noop)[0] == 'match':
            ck.ok(rule, mod, s, u(s), 'the surviving entries stay non-zero: the edge set is unchanged')
            continue
        rev = _reads_other_entry(m, (G, counts)) if not isinstance(m, (ast.Tuple, ast.Slice)) else None
        closed = classify(m, thr_forms, scope=scope)[0] == 'near' and not isinstance(m, (ast.Tuple, ast.Slice))
        if len(before) == 1:
            # the only store: it is the thresholding, spelled in a way that is not accepted
            if rev is not None and closed and isnum:
                v = ('near', 1, '%s[%s < %s] = 0' % (G, counts, thr))
            ck.decide(v, rule, mod, s, F, u(s),
                      'counts strictly below the threshold are removed from the graph only',
                      'thresholding must zero exactly the entries with counts < threshold in the graph copy')
            ck.check(dom(s, cst), rule, mod, s, F, 'threshold before components',
                     'thresholding precedes the component search', 'thresholding must happen on every path before connected_components')
            return
        if closed and isnum and rev is not None:
            ck.bad(rule, mod, s, F, u(s),
                   'entry (i, j) of the graph is changed depending on %s, i.e. on ANOTHER entry (the reverse transition j -> i): '
                   'the directed thresholded graph is symmetrised, so connected_components(connection="strong") returns the '
                   'components of reciprocal links instead of the strongly connected components (a directed cycle is split)'
                   % _short(rev, 60))
        elif closed and isnum:
            ck.bad(rule, mod, s, F, u(s),
                   'besides the thresholding, the graph is edited with the mask %s before the component search: the edge i -> j '
                   'must exist exactly when counts[i, j] >= threshold' % _short(m, 80))
        else:
            unknown.append(s)
    if unknown:
        ck.missing(rule, 'store into the graph %s before the component search not recognised: %s' % (G, _short(unknown[0], 100)))
        return
    if not thresholdings:
        if len(before) > 1:
            ck.missing(rule, 'none of the %d stores into the graph %s is the thresholding %s[%s < %s] = 0' % (len(before), G, G, counts, thr))
        return
    ck.check(any(dom(s, cst) for s in thresholdings), rule, mod, thresholdings[0], F, 'threshold before components',
             'thresholding precedes the component search', 'thresholding must happen on every path before connected_components')


def keep_chain(ck, mod, fn, fi, K, counts, labels, nsub, G, okd, redefs, node):
    """K (expanded) = where(labels == B)[0]; B = W.argmax(); W = per-component
    sums of P; P = row sums of the original counts.  Returns the canonical
    text of B (None if not established)."""
    scope = {counts, labels, nsub} | ({G} if G else set())
    L = labels
    # np.where(mask)[0] is ascending and duplicate-free: np.sort / np.unique of it is the same vector
    while isinstance(K, ast.Call) and call_name(K) in ('np.sort', 'np.unique') and len(K.args) == 1 and not K.keywords and \
            isinstance(K.args[0], ast.Subscript) and const_value(K.args[0].slice) == 0 and isinstance(K.args[0].value, ast.Call) and \
            call_name(K.args[0].value) in ('np.where', 'np.nonzero') and len(K.args[0].value.args) == 1:
        K = K.args[0]
    v = _cls(K, ['np.where(%s == _B)[0]' % L, 'np.where(_B == %s)[0]' % L, 'np.nonzero(%s == _B)[0]' % L,
                     'np.nonzero(_B == %s)[0]' % L, 'np.arange(len(%s))[%s == _B]' % (L, L),
                     'np.arange(%s.shape[0])[%s == _B]' % (L, L)], scope=scope)
    ck.decide(v, 'C11.D3.keep', mod, K, F, 'keep set: %s' % _short(K, 120),
              'kept states in ascending original order', 'keep_states must be np.where(labels == best)[0]')
    if v[0] != 'match':
        return None
    B = v[1]['_B']
    bx = _cx(B)
    Bs = _strip_calls(B, ('int',))
    # (np.argmax and list.index(max(..)) both return the FIRST maximum)
    v = _cls(Bs, ['_W.argmax()', '_W.argmax(axis=0)', '_W.index(max(_W))'], scope=scope)
    if v[0] != 'match':
        # The selected component is read off the label of ONE state: B = labels[s].  When s is a pure function of
        # the count matrices alone (it mentions neither the labels nor the number of components) the state is chosen
        # without looking at the component structure at all - "the component of the most populated / first / last
        # state".  The heaviest component is an aggregate over the members of each component; the component of a state
        # picked per state differs from it whenever several light states together outweigh the one picked.
        from ..match import _closed_over
        bs = match('%s[_S]' % L, Bs)
        if bs is not None:
            S = _strip_calls(bs['_S'], ('int',))
            if not isinstance(S, (ast.Slice, ast.Tuple)) and _closed_over(canon(S), {counts} | ({G} if G else set())):
                ck.bad('C11.D2.heaviest', mod, Bs, F, 'selected component: %s' % _short(Bs, 120),
                          'the kept component is the component of ONE state (%s) chosen per state, without summing the weights of '
                          'the members of each component: the component holding the heaviest single state is not the component '
                          'with the largest total count when several lighter states together outweigh it; the kept component '
                          'must be np.argmax(subgraph_pops)' % _short(S, 80))
                return bx
    ck.decide(v, 'C11.D2.heaviest', mod, Bs, F, 'selected component: %s' % _short(Bs, 120),
              'heaviest component selected by argmax',
              'the kept component must be np.argmax(subgraph_pops) (heaviest, not largest/first)')
    if v[0] != 'match':
        return bx
    W = _strip_calls(v[1]['_W'], ('np.asarray', 'np.array', 'np.asanyarray', 'list'))
    wforms = []
    for n in ('range(%s)' % nsub, 'range(%s.max() + 1)' % L, 'np.arange(%s)' % nsub, 'np.unique(%s)' % L):
        for sel in ('%s == _I' % L, '_I == %s' % L, 'np.where(%s == _I)' % L, 'np.where(%s == _I)[0]' % L):
            wforms += ['[_P[%s].sum() for _I in %s]' % (sel, n), '[sum(_P[%s]) for _I in %s]' % (sel, n)]
    # np.bincount(labels, weights=P)[i] = sum of P over labels == i (labels are 0..n_components-1)
    wforms += ['np.bincount(%s, weights=_P)' % L, 'np.bincount(%s, _P)' % L, 'np.bincount(%s, weights=_P, minlength=%s)' % (L, nsub),
               'np.bincount(%s, _P, minlength=%s)' % (L, nsub), 'np.bincount(%s, _P, %s)' % (L, nsub)]
    v = _cls(W, wforms, scope=scope)
    if True:
        # weights taken from the 2-D counts directly: decided by WHICH entries each component sums
        w2 = _block_weights(W, counts, L, nsub, G)
        if w2 is not None:
            kind, base, what = w2
            if kind == 'rows' and base == counts:
                ck.ok('C11.D2.weights', mod, W, 'component weights: %s' % _short(W, 120),
                      'component weight = sum of all entries in the rows of its states (= sum of their row sums), '
                      'one entry per component')
                ck.check(okd, 'C11.D2.weights', mod, redefs[0] if redefs else fn, F,
                         'definitions of %s: %s' % (counts, '; '.join(u(s) for s in redefs) or 'parameter'),
                         'weights and extraction see the caller\'s counts (only densified)',
                         '%s is redefined by something other than its densification before the weights are taken' % counts)
            else:
                ck.bad('C11.D2.weights', mod, W, F, 'component weights: %s' % _short(W, 120),
                       'per-component weight must be the sum of the ROW sums of the original counts over the states of the '
                       'component: this sums %s of %s' % (what, 'the original counts' if base == counts else 'the thresholded graph ' + base))
            return bx
    ck.decide(v, 'C11.D2.weights', mod, W, F, 'component weights: %s' % _short(W, 120),
              'component weight = sum of member weights, one entry per component',
              'per-component weight must sum pops over labels == i for i in range(n_subgraphs)')
    if v[0] != 'match':
        return bx
    P = v[1]['_P']
    v = _cls(P, ['%s.sum(axis=1)' % counts, '%s.sum(1)' % counts, '%s.sum(axis=-1)' % counts, '%s.sum(-1)' % counts], scope=scope)
    ck.decide(v, 'C11.D2.weights', mod, P, F, 'state weights: %s' % _short(P, 120),
              'state weight = row sum of the ORIGINAL counts',
              'component weight must come from %s.sum(axis=1) of the original counts: the thresholded copy '
              'loses sub-threshold counts and axis=0 (column sums) ranks components by arrivals, which '
              'differs when one-way links exist' % counts)
    ck.check(okd, 'C11.D2.weights', mod, redefs[0] if redefs else fn, F, 'definitions of %s: %s' % (counts, '; '.join(u(s) for s in redefs) or 'parameter'),
             'weights and extraction see the caller\'s counts (only densified)',
             '%s is redefined by something other than its densification before the weights are taken' % counts)
    return bx


def _block_weights(W, counts, L, nsub, G):
    """`[X.sum() for I in range(n)]` with X a selection of entries of the 2-D
    counts (or of the thresholded graph) by membership in component I:
    (kind, base, description) with kind 'rows' (all entries of the rows of
    the component - the sum of its row sums), 'cols', 'block' (rows and
    columns restricted to the component: counts leaving it are ignored),
    'all'; None if W does not have that shape."""
    iters = ['range(%s)' % nsub, 'range(%s.max() + 1)' % L, 'np.arange(%s)' % nsub, 'np.unique(%s)' % L]
    b = None
    for it in iters:
        b = match('[_X.sum() for _I in %s]' % it, W)
        if b is not None:
            break
    if b is None or not isinstance(b['_I'], ast.Name):
        return None
    I = b['_I'].id
    sels = CS(*[t % dict(L=L, I=I) for t in ('%(L)s == %(I)s', '%(I)s == %(L)s', 'np.where(%(L)s == %(I)s)[0]', 'np.where(%(I)s == %(L)s)[0]',
                                             'np.nonzero(%(L)s == %(I)s)[0]')])
    tup1 = CS(*[t % dict(L=L, I=I) for t in ('np.where(%(L)s == %(I)s)', 'np.nonzero(%(L)s == %(I)s)')])

    def is_sel(e):
        return _cx(e) in sels

    def axes(e):
        """(base name, rows restricted, columns restricted) of a selection expression."""
        if isinstance(e, ast.Name):
            return e.id, False, False
        if not isinstance(e, ast.Subscript):
            return None
        inner = axes(e.value)
        if inner is None:
            return None
        base, r, c = inner
        sl = e.slice
        if _is_ix(sl) and len(sl.args) == 2 and all(is_sel(a) for a in sl.args):
            return base, True, True
        if isinstance(sl, ast.Tuple) and len(sl.elts) == 2:
            x, y = sl.elts
            if is_sel(x) and _is_full_slice(y):
                return base, True, c
            if _is_full_slice(x) and is_sel(y):
                return base, r, True
            if _is_full_slice(x) and _is_full_slice(y):
                return base, r, c
            return None
        if is_sel(sl) or _cx(sl) in tup1:
            return base, True, c        # X[sel] selects whole rows
        return None
    a = axes(b['_X'])
    if a is None or a[0] not in (counts, G):
        return None
    base, r, c = a
    kind = {(True, False): 'rows', (False, True): 'cols', (True, True): 'block', (False, False): 'all'}[(r, c)]
    what = {'rows': 'the rows of the component', 'cols': 'the COLUMNS of the component (arrivals, not departures)',
            'block': 'only the counts between states of the component (counts leaving it are ignored)',
            'all': 'the whole matrix for every component'}[kind]
    return kind, base, what


def _sparse_atom(e, pol, X):
    """Does the atomic condition `e` (holding with polarity pol) say that the
    variable X is a scipy sparse matrix?  True: X is sparse; False: X is not
    sparse (an ndarray); None: the condition says nothing the rule knows."""
    e = _strip_calls(e, ('bool',))
    if isinstance(e, ast.Call) and not e.keywords and not any(isinstance(a, ast.Starred) for a in e.args):
        last = (call_name(e) or '').split('.')[-1]
        if last in ('issparse', 'isspmatrix') and len(e.args) == 1 and isinstance(e.args[0], ast.Name) and e.args[0].id == X:
            return pol
        if last == 'hasattr' and len(e.args) == 2 and isinstance(e.args[0], ast.Name) and e.args[0].id == X and \
                const_value(e.args[1]) in ('toarray', 'todense'):
            return pol
        if last == 'isinstance' and len(e.args) == 2 and isinstance(e.args[0], ast.Name) and e.args[0].id == X and \
                u(e.args[1]) in ('np.ndarray', 'numpy.ndarray'):
            return not pol
    return None


def _densify_ifexp(v, X, dens):
    """`X.toarray() if <X is sparse> else X` (or the mirrored form): True when
    the densification is taken for sparse X, False when it is taken for dense
    X; None if v is not such a conditional expression."""
    if not isinstance(v, ast.IfExp):
        return None
    cj = conjuncts(v.test, True)
    if cj is None or len(cj) != 1 or isinstance(cj[0], Cmp):
        return None
    sp = _sparse_atom(cj[0][1], cj[0][2], X)
    if sp is None:
        return None
    if _cx(v.body) in dens and isinstance(v.orelse, ast.Name) and v.orelse.id == X:
        return sp
    if _cx(v.orelse) in dens and isinstance(v.body, ast.Name) and v.body.id == X:
        return not sp
    return None


def densify_rule(ck, mod, fn, fi, counts, dens, redefs, cst):
    """A sparse argument is densified - and only a sparse one: `X.toarray()`
    exists on sparse matrices only, and everything that follows (np.array(X,
    copy=True), X < threshold, X.sum(axis=1), fancy indexing) needs an
    ndarray.  Necessary condition: every densification of the argument is
    executed exactly under "X is sparse"."""
    rule = 'C11.D4.densify'
    bad = ('the argument must be densified exactly when it is sparse: under the negated test a dense array is asked for '
           '.toarray() (AttributeError) and a sparse matrix reaches the thresholding / row sums / np.ix_ extraction undensified')
    okmsg = 'a sparse argument (and only a sparse one) is densified before the thresholding'
    ds = [s for s in redefs if isinstance(s, ast.Assign) and len(s.targets) == 1 and isinstance(s.targets[0], ast.Name)]
    ds = [s for s in ds if _cx(s.value) in dens or isinstance(s.value, ast.IfExp)]
    if not ds:
        ck.missing(rule, 'densification of a sparse argument (`%s = %s.toarray()` under issparse(%s))' % (counts, counts, counts))
        return
    for s in ds:
        if not (s is cst or fi.cfg.reachable(s, cst)):
            ck.missing(rule, 'densification %s does not precede the component search' % _short(s))
            continue
        verdicts, unknown = [], []
        if isinstance(s.value, ast.IfExp):
            sp = _densify_ifexp(s.value, counts, dens)
            if sp is None:
                unknown.append(u(s.value.test))
            else:
                verdicts.append(sp)
        for n in fi.cfg.nodes:
            if not (isinstance(n, Assume) and fi.cfg.dominates(n, s)):
                continue
            cj = conjuncts(n.test, n.polarity)
            if cj is None:
                unknown.append(u(n.test))
                continue
            for a in cj:
                sp = None if isinstance(a, Cmp) else _sparse_atom(a[1], a[2], counts)
                if sp is None:
                    unknown.append(repr(a) if isinstance(a, Cmp) else u(a[1]))
                else:
                    verdicts.append(sp)
        if False in verdicts:
            ck.bad(rule, mod, s, F, 'densification: %s  [executed when %s is NOT sparse]' % (u(s), counts), bad)
        elif verdicts and not unknown:
            ck.ok(rule, mod, s, 'densification: %s  [executed when %s is sparse]' % (u(s), counts), okmsg)
        else:
            ck.missing(rule, 'condition under which %s executes%s' % (
                _short(s), ': ' + _short('; '.join(unknown), 100) if unknown else ' (unconditional)'))


def container_rule(ck, mod, fn, fi, counts, M, rets):
    rule = 'C11.D4.container'
    tdefs = [s for s in walk_local(fn) if isinstance(s, ast.Assign) and len(s.targets) == 1 and isinstance(s.targets[0], ast.Name)
             and match('type(%s)' % counts, s.value) is not None]
    tdefs = [s for s in tdefs if all(fi.defs_of_use(x) == {'PARAM'} for x in ast.walk(s.value) if isinstance(x, ast.Name) and x.id == counts)]
    if len(tdefs) != 1 or len(assigns_to(fn, tdefs[0].targets[0].id)) != 1:
        late = [s for s in walk_local(fn) if isinstance(s, ast.Assign) and match('type(%s)' % counts, s.value) is not None]
        if late and not tdefs:
            ck.bad(rule, mod, late[0], F, u(late[0]), 'the container type must be taken from the argument BEFORE it is densified')
        else:
            ck.missing(rule, '`<out_type> = type(%s)` taken from the argument' % counts)
        return
    OT = tdefs[0].targets[0].id

    def is_conv(e):
        return isinstance(e, ast.Call) and isinstance(e.func, ast.Name) and e.func.id == OT and len(e.args) == 1 and \
            not e.keywords and isinstance(e.args[0], ast.Name) and e.args[0].id == M
    convs = [s for s in assigns_to(fn, M) if isinstance(s, ast.Assign) and is_conv(s.value)]
    same = CS('type(%s) is %s' % (M, OT), '%s is type(%s)' % (OT, M), 'isinstance(%s, %s)' % (M, OT), 'type(%s) == %s' % (M, OT))
    differ = CS('type(%s) is not %s' % (M, OT), '%s is not type(%s)' % (OT, M), 'type(%s) != %s' % (M, OT))
    guards, wrong = [], []
    for n in fi.cfg.nodes:
        if not isinstance(n, Assume):
            continue
        t, pol = n.test, n.polarity
        while isinstance(t, ast.UnaryOp) and isinstance(t.op, ast.Not):
            t, pol = t.operand, not pol
        tx = _cx(t)
        if (tx in same and pol) or (tx in differ and not pol):
            guards.append(n)
        elif tx in same or tx in differ:
            wrong.append(n)
    any_conv = any(isinstance(x, ast.Call) and isinstance(x.func, ast.Name) and x.func.id == OT for x in walk_local(fn))
    allok = True
    for r in rets:
        val = fi.resolve(r.value) if isinstance(r.value, ast.Name) else r.value
        b = val.elts[1]
        if is_conv(b):
            continue
        if not isinstance(b, ast.Name):
            allok = None
            continue
        for d in fi.defs_of_use(b):
            if d in ('PARAM', 'UNBOUND'):
                allok = None
                continue
            if d in convs:
                continue
            others = [x for x in fi.defs_of_use(b) if x is not d and x not in ('PARAM', 'UNBOUND')]
            if fi.cfg.reachable(d, r, avoiding=guards + others):
                # an unconverted, unchecked matrix reaches this return
                allok = False if allok is not None else None
    if allok:
        ck.ok(rule, mod, tdefs[0], '%s ; %s' % (u(tdefs[0]), '; '.join(u(s) for s in convs) or 'converted in the return value'),
              'input container type recorded before densifying and restored on the result')
    elif allok is False and (not any_conv or wrong or not guards):
        ck.bad(rule, mod, tdefs[0], F, '%s ; %s' % (u(tdefs[0]), '; '.join(u(s) for s in convs) or '?'),
               'the container type must be taken from the argument before densification and restored on the result: '
               'a matrix that is neither converted by %s(...) nor known to have that type reaches a return' % OT)
    else:
        ck.missing(rule, 'restoration of the container type %s on the returned matrix not recognised' % OT)


def submatrix_rule(ck, mod, fn, fi, M, mdef, counts, kx, at, af, scope):
    rule = 'C11.D3.submatrix'
    dom = fi.cfg.dominates
    bad = 'the trimmed matrix must be counts[np.ix_(keep_states, keep_states)] (same states on both axes, original counts)'
    # (specific forms first: `_A` would also match the tuple `rows, :`)
    ext_forms = ['%s[np.ix_(_A, _B)]' % counts, '%s[_A, :][:, _B]' % counts, '%s[:, _B][_A, :]' % counts, '%s[_A][:, _B]' % counts,
                 '%s[:, _B][_A]' % counts]

    def extraction(e, node, what):
        v = _cls(e, ext_forms, scope=scope)
        if v[0] == 'match' and any(isinstance(v[1][k], (ast.Tuple, ast.Slice)) for k in ('_A', '_B')):
            ck.missing(rule, 'index expressions of the extraction %s' % _short(e, 100))
        elif v[0] == 'match':
            conv = ('list', 'tuple', 'np.asarray', 'np.array', 'np.asanyarray')
            a, b = _cx(_strip_calls(v[1]['_A'], conv)), _cx(_strip_calls(v[1]['_B'], conv))
            if a == kx and b == kx:
                ck.ok(rule, mod, node, what, 'same index vector selects rows and columns of the original counts')
            elif a != b and (a == kx or b == kx):
                # one axis uses the keep set, the other a different vector
                ck.bad(rule, mod, node, F, what, bad + ': rows are selected by %s, columns by %s' % (_short(a, 60), _short(b, 60)))
            else:
                ck.missing(rule, 'index vectors of the extraction are not the keep set %s: rows %s, columns %s' % (
                    _short(kx, 60), _short(a, 60), _short(b, 60)))
        else:
            ck.decide(v, rule, mod, node, F, what, '', bad)
    val = _xb(fi, mdef.value, af)
    # the extraction itself defines the result (fancy indexing already yields a new array:
    # an explicit copy around it changes nothing)
    if classify(_strip_copy(val), ext_forms)[0] == 'match':
        extraction(_strip_copy(val), mdef, u(mdef))
        return
    # zero matrix of the size of the keep set, filled by one store
    n_forms = ['len(%s)' % kx, '(%s).shape[0]' % kx, '(%s).size' % kx]
    zf = []
    for n in n_forms:
        zf += ['np.zeros((%s, %s), dtype=__)' % (n, n), 'np.zeros((%s, %s))' % (n, n), 'np.zeros(shape=(%s, %s), dtype=__)' % (n, n),
               'np.zeros(shape=(%s, %s))' % (n, n), 'np.zeros([%s, %s], dtype=__)' % (n, n)]
    v = _cls(val, zf, scope=scope)
    ck.decide(v, rule, mod, mdef, F, u(mdef), 'result has one row and one column per kept state',
              'the renumbered matrix must be allocated as zeros of shape (n_kept, n_kept)')
    st = [(s, t) for s, t in subscript_stores(fn, M) if not dom(af, s) and isinstance(s, ast.Assign)]
    if len(st) != 1:
        ck.missing(rule, 'exactly one store into %s on the renumbering path (found %d)' % (M, len(st)))
        return
    s, t = st[0]
    extraction(_xb(fi, s.value, af), s, u(s))
    sl = _xb(fi, t.slice, af)
    whole = _is_full_slice(sl) or (isinstance(sl, ast.Constant) and sl.value is Ellipsis) or \
        (isinstance(sl, ast.Tuple) and len(sl.elts) == 2 and all(_is_full_slice(e) for e in sl.elts))
    if whole:
        ck.ok(rule, mod, s, u(t), 'the whole result is written')
        return
    ar = []
    for n in n_forms + ['len(%s)' % M, '%s.shape[0]' % M]:
        ar += ['np.arange(%s)' % n, 'range(%s)' % n, 'np.arange(0, %s)' % n]
    v = _cls(sl, ['np.ix_(%s, %s)' % (a, a) for a in ar], scope=scope)
    ck.decide(v, rule, mod, s, F, 'target %s' % u(t), 'the block is written to positions 0..n_kept-1 on both axes',
              'the extracted block must be written to np.ix_(arange(n_kept), arange(n_kept))')


def inplace_rule(ck, mod, fn, fi, M, mdef, counts, labels, bx, kx, at, af, scope):
    rule = 'C11.D3.inplace'
    dom = fi.cfg.dominates
    v = _cls(_xb(fi, mdef.value, at), ['np.array(%s, copy=True)' % counts, '%s.copy()' % counts], scope={counts})
    ck.decide(v, rule, mod, mdef, F, u(mdef), 'the zeroing happens in a copy', 'the non-renumbering variant must work on a copy of the counts')
    zs = [(s, t) for s, t in subscript_stores(fn, M) if not dom(at, s) and isinstance(s, ast.Assign)]
    if not zs:
        ck.missing(rule, 'stores into %s on the in-place path' % M)
        return
    L = labels
    tforms = []
    for cmp_ in ('%s != _B' % L, '_B != %s' % L, '~(%s == _B)' % L, 'np.logical_not(%s == _B)' % L):
        tforms += ['np.where(%s)' % cmp_, 'np.where(%s)[0]' % cmp_, 'np.nonzero(%s)' % cmp_, 'np.nonzero(%s)[0]' % cmp_, cmp_]
    tforms += ['np.setdiff1d(np.arange(len(%s)), %s)' % (L, kx), 'np.setdiff1d(np.arange(%s.shape[0]), %s)' % (L, kx)]

    def removed(e):
        """Verdict on an index expression that should denote the removed states."""
        T = _xb(fi, e, at)
        v = _cls(T, tforms, scope=scope)
        if v[0] == 'match' and '_B' in v[1] and bx is not None:
            # the component compared with must be the kept one: a small edit of its expression (argmin for
            # argmax, another weight vector) is a different component, a re-spelling cannot be compared
            vb = _cls(_strip_calls(v[1]['_B'], ('int',)), [_cx(_strip_calls(ast.parse(bx, mode='eval').body, ('int',)))], scope=scope)
            if vb[0] == 'near':
                v = ('near', 1, 'np.where(%s != <kept component>)' % L)
            elif vb[0] == 'far':
                v = ('far', 0, None)
        elif v[0] == 'match' and '_B' in v[1] and bx is None:
            v = ('far', 0, None)
        return v, T
    # every store into the copy on this path: zeroing of whole rows / whole columns / a block; anything else is unknown
    rows, cols, blocks, unknown = [], [], [], []
    for s, t in zs:
        if type(const_value(s.value)) not in (int, float) or const_value(s.value) != 0:
            unknown.append(s)
            continue
        sl = t.slice
        xs = _xb(fi, sl, at)
        if isinstance(sl, ast.Tuple) and len(sl.elts) == 2 and _is_full_slice(sl.elts[1]) and not _is_full_slice(sl.elts[0]):
            rows.append((s, sl.elts[0]))
        elif isinstance(sl, ast.Tuple) and len(sl.elts) == 2 and _is_full_slice(sl.elts[0]) and not _is_full_slice(sl.elts[1]):
            cols.append((s, sl.elts[1]))
        elif _is_ix(xs) and len(xs.args) == 2 and not xs.keywords:
            blocks.append((s, xs.args[0], xs.args[1]))
        elif not isinstance(sl, (ast.Tuple, ast.Slice)):
            rows.append((s, sl))        # M[T] = 0 with a 1-D index zeroes whole rows
        else:
            unknown.append(s)
    # anything else that may write the copy on this path: other in-place mutations, views / aliases taken
    # of it, calls that receive it
    seen = {id(s) for s, _ in zs}
    hidden = [ms for ms in fi._mutated_in_place(M) if id(ms) not in seen and not dom(at, ms) and fi.cfg.reachable(mdef, ms)]
    for x in walk_local(fn):
        if isinstance(x, ast.stmt) and dom(af, x) and x is not mdef and id(x) not in seen and fi.cfg.reachable(mdef, x):
            if isinstance(x, (ast.Assign, ast.AugAssign, ast.AnnAssign, ast.Expr)) and x.value is not None:
                par = fi.mod.parent
                for m in ast.walk(x.value):
                    if not (isinstance(m, ast.Name) and m.id == M):
                        continue
                    pm = par.get(m)
                    # (reading the size - len(M), M.shape - cannot write the copy)
                    if (isinstance(pm, ast.Call) and call_name(pm) == 'len') or (isinstance(pm, ast.Attribute) and pm.attr in ('shape', 'size', 'dtype', 'ndim')):
                        continue
                    hidden.append(x)
                    break
    what = '; '.join(u(s) for s, _ in zs)
    verdicts = []
    for s, e in rows + cols:
        v, T = removed(e)
        verdicts.append(v[0])
        ck.decide(v, rule, mod, s, F, '%s  with index %s' % (u(s), _short(T, 100)),
                  'removed states are the complement of the kept component',
                  'the zeroed states must be np.where(labels != best), the complement of the kept component')
    for s, ea, eb in blocks:
        (va, _), (vb, _) = removed(ea), removed(eb)
        if va[0] != 'match' or vb[0] != 'match':
            unknown.append(s)
    if unknown or hidden or 'far' in verdicts:
        ck.missing(rule, 'some store into %s on the in-place path is not a recognised zeroing of whole rows / columns of the removed states: %s' % (
            M, _short(u((unknown + hidden)[0]) if unknown or hidden else what)))
        return
    ck.check(bool(rows) and bool(cols), rule, mod, zs[0][0], F, what,
             'rows AND columns of every removed state are zeroed',
             'the in-place variant must zero trimmed_counts[trim_states, :] and trimmed_counts[:, trim_states]: '
             'zeroing only the removed x removed block leaves one-way counts between kept and removed states')


def unpack_rules(ck):
    """Call sites unpack (mapping, counts) in that order.

    The components of the result are followed through plain copies
    (_component_sinks); a component is the MATRIX if it replaces the argument
    of the call or is handed to an estimator / spectrum function, the MAPPING
    if it ends up in an attribute `mapping_`."""
    n = 0
    for rel in (MS, TS):
        m2 = ck.repo.mod(rel)
        for q, f in m2.functions.items():
            for call in calls_in(f):
                if (call_name(call) or '').split('.')[-1] != F:
                    continue
                fi = finfo(m2, f)
                s = fi.stmt(call)
                if not (isinstance(s, ast.Assign) and len(s.targets) == 1):
                    continue
                if not (s.value is call or (isinstance(s.value, ast.Subscript) and s.value.value is call)):
                    continue
                sinks = _component_sinks(fi, f, s, call)
                alias = {0: [], 1: []}          # texts of the places each component is stored in
                for t, x, idxs, excl in sinks:
                    for k in idxs:
                        if k in alias:
                            alias[k].append((t, x))
                if not alias[0] and not alias[1]:
                    continue
                n += 1
                arg = call.args[0] if call.args else kwarg(call, 'counts')
                an = u(arg) if arg is not None else None

                def used_as_matrix(k):
                    names = {t.id for t, _ in alias[k] if isinstance(t, ast.Name)}
                    for x in walk_local(f):
                        if isinstance(x, ast.Call) and x is not call and x.args and isinstance(x.args[0], ast.Name) \
                                and x.args[0].id in names and any(o[0] is s for o in _origins(fi, fi.stmt(x), x.args[0].id)) \
                                and (call_name(x) or '').split('.')[-1] in ('method', 'eigenspectrum', 'eq_probs'):
                            return True
                    return False

                def replaces_argument(k):
                    return an is not None and any(u(t) == an for t, _ in alias[k])

                def stored_as_mapping(k):
                    return any(u(t).endswith('mapping_') for t, _ in alias[k])
                a_txt = ', '.join(u(t) for t, x in alias[0] if x is s) or ', '.join(u(t) for t, _ in alias[0]) or '-'
                b_txt = ', '.join(u(t) for t, x in alias[1] if x is s) or ', '.join(u(t) for t, _ in alias[1]) or '-'
                a_map = stored_as_mapping(0) or any(u(t).lstrip('_') == 'mapping' for t, _ in alias[0])
                if replaces_argument(1) or used_as_matrix(1):
                    ok = True
                elif replaces_argument(0) or used_as_matrix(0) or stored_as_mapping(1):
                    ok = False
                elif a_map:
                    ok = True
                else:
                    ck.missing('C11.D4.unpack', 'roles of the unpacked names in %s' % _short(u(s)))
                    continue
                ck.check(ok, 'C11.D4.unpack', m2, s, q, u(s), '(mapping, counts) unpacked in order',
                         'trim_disconnected returns (mapping, counts); unpacked as (%s, %s)' % (a_txt, b_txt))
    ck.floor('C11.D4.unpack', n, 2, 'unpackings of trim_disconnected')


def fit_rules(ck):
    """MSM.fit stores the mapping and trimmed counts iff self.trim; identity otherwise.

    Roles: the trimming call; the stores into the public attribute
    `self.mapping_` and where their values come from (component 0 of the
    trimming result / a TrimMapping built in place); the matrix handed to the
    estimator whose result becomes `self.tcounts_` (component 1 of the
    trimming result on the trimming path, the untrimmed counts otherwise);
    the branch conditions under which each of them executes."""
    rule = 'C11.D4.fit'
    mm = ck.repo.mod(MS)
    fit = mm.func('MSM.fit')
    ck.analysed(mm, fit)
    fi = finfo(mm, fit)
    Q = 'MSM.fit'
    tr = [c for c in calls_in(fit) if (call_name(c) or '').split('.')[-1] == F]
    if len(tr) != 1:
        ck.missing(rule, 'one call of trim_disconnected in MSM.fit (found %d)' % len(tr))
        return
    call = tr[0]
    t = fi.stmt(call)
    if not (isinstance(t, ast.Assign) and t.value is call and len(t.targets) == 1):
        ck.missing(rule, '`... = trim_disconnected(...)` in MSM.fit: %s' % _short(t))
        return
    arg = call.args[0] if call.args else kwarg(call, 'counts')
    # further arguments: harmless iff they spell the defaults of the signature
    extra, unknown_extra = [], []
    try:
        tfn = ck.repo.mod(TM).func(F)
        tps = params(tfn)
        dflt = dict(zip(tps[len(tps) - len(tfn.args.defaults):], tfn.args.defaults))
    except Exception:
        tps, dflt = [], {}
    given = [(tps[i] if i < len(tps) else '#%d' % i, a) for i, a in enumerate(call.args)][1:] + \
        [(k.arg, k.value) for k in call.keywords if k.arg != 'counts']
    for pn, pv in given:
        pv = fi.expand(pv) if pn is not None else pv
        d = dflt.get(pn)
        if pn is None or isinstance(pv, ast.Starred) or not isinstance(pv, ast.Constant) or not isinstance(d, ast.Constant):
            unknown_extra.append(pn)
        elif not (type(pv.value) is type(d.value) and pv.value == d.value):
            extra.append('%s=%s' % (pn, u(pv)))
    if arg is None or isinstance(arg, ast.Starred):
        ck.missing(rule, 'matrix handed to trim_disconnected: %s' % _short(t))
        return
    X = u(arg)
    # the untrimmed counts: where the matrix handed to the trimming comes from, seen through copies and
    # storage-format conversions; xsel = sub-selections (fancy / mask / slice indexing) taken on the way
    xroots = _matrix_roots(fi, t, arg)
    xkey = {k for k, _ in xroots}
    xsel = []
    for _, ss in xroots:
        for w in ss:
            if not any(w[1] is z[1] for z in xsel):
                xsel.append(w)
    bad_store = ('MSM.fit must store the mapping returned by trim_disconnected (default threshold, renumbering) '
                 'and continue with the trimmed counts')

    def kind(o):
        site, idx, v, _ = o
        if site is t:
            return {0: 'trim', 1: 'counts'}.get(idx, 'other')
        if isinstance(v, ast.Call) and call_name(v) == 'TrimMapping':
            return 'identity'
        return 'other'

    # ---- the mapping that the model reports
    mstores = _attr_stores(fit, 'self.mapping_')
    trim_src, ident_src, problems = [], [], []
    for s, ve, idx in mstores:
        for o in _value_origins(fi, s, ve, idx):
            k = kind(o)
            if k == 'trim':
                trim_src.append((s, o))
            elif k == 'identity':
                ident_src.append((s, o))
            elif k == 'counts':
                problems.append(('bad', s, 'the COUNTS returned by trim_disconnected are stored as the mapping'))
            else:
                problems.append(('far', s, 'origin of the stored mapping not recognised: %s' % _short(s)))
    # ---- the matrix the model is built from
    tcs = _attr_stores(fit, 'self.tcounts_')
    ykey = None
    ynode = None
    yroots = []
    if len(tcs) == 1:
        s, ve, idx = tcs[0]
        if ve is None and isinstance(s.value, ast.Name):
            os_ = _origins(fi, s, s.value.id)
        elif ve is None:
            os_ = [(s, None, s.value, ())]
        else:
            os_ = _value_origins(fi, s, ve, idx)
        prod = []
        for site, _, v, _ in os_:
            if v is None and isinstance(site, ast.Assign):
                v = site.value
            prod.append((site, v))
        if len(prod) == 1 and isinstance(prod[0][1], ast.Call) and prod[0][1].args and isinstance(prod[0][1].args[0], ast.Name) \
                and prod[0][1] is not call:
            ynode = prod[0][1].args[0]
            ykey = _okey(_origins(fi, prod[0][0], ynode.id))
            yroots = _matrix_roots(fi, prod[0][0], ynode)
    flow_ok = None
    if any(p[0] == 'bad' for p in problems):
        flow_ok = False
        why = next(p[2] for p in problems if p[0] == 'bad')
    elif problems:
        ck.missing(rule, problems[0][2])
    elif extra:
        flow_ok = False
        why = 'extra arguments %s change the threshold / renumbering of the trimming' % extra
    elif unknown_extra:
        ck.missing(rule, 'value of the further arguments %s of trim_disconnected in MSM.fit' % unknown_extra)
    elif not trim_src:
        flow_ok = False
        why = 'the mapping returned by trim_disconnected never reaches self.mapping_'
    elif ykey is None:
        ck.missing(rule, 'the matrix from which self.tcounts_ is estimated (one `self.tcounts_, ... = <estimator>(<matrix>)`)')
    elif (id(t), 0) in ykey:
        flow_ok = False
        why = 'the MAPPING returned by trim_disconnected is handed to the estimator'
    elif (id(t), 1) not in ykey:
        flow_ok = False
        why = 'the trimmed counts returned by trim_disconnected are not what the model is estimated from (%s)' % u(ynode)
    elif {k for k, _ in yroots} - {(id(t), 1)} != xkey or any(ss for k, ss in yroots if k != (id(t), 1)):
        # (without trimming the model must be estimated from the very counts that would have been trimmed)
        ck.missing(rule, 'origin of the estimator input %s besides the trimmed counts' % u(ynode))
    else:
        flow_ok = True
    if flow_ok is not None:
        ck.check(flow_ok, rule, mm, t, Q, u(t),
                 'the fitted model reports the trimming mapping and uses the trimmed counts',
                 bad_store + ('' if flow_ok else ': ' + why))
    # ---- the ids the reported mapping speaks about: trim_disconnected numbers the states by their POSITION in
    # the matrix it receives; its mapping is stored as it is, so that matrix must still be indexed by the
    # original state ids - a sub-selection of the counts taken beforehand renumbers the states
    if trim_src and not problems:
        ids_rule = rule + '.ids'
        kinds = [(w, [_selection_kind(fi, p) for p in _index_parts(w[1].slice)]) for w in xsel]
        subset = [w for w, ks in kinds if 'subset' in ks]
        if not xsel:
            ck.ok(ids_rule, mm, t, 'matrix handed to trim_disconnected: %s' % _short(arg, 100),
                  'the trimmed matrix is indexed by the original state ids (only copies / storage-format '
                  'conversions between the transition counts and the trimming)')
        elif subset:
            w = subset[0]
            ck.bad(ids_rule, mm, w[0], Q, 'sub-selection handed to trim_disconnected: %s' % _short(w[1], 120),
                   'the matrix handed to trim_disconnected is a data-dependent sub-selection of the transition counts '
                   '(%s): trim_disconnected numbers states by their position in that matrix, and its mapping is stored '
                   'in self.mapping_ without being composed with the selected positions, so mapping_.to_original no '
                   'longer holds original state ids' % _short(w[1], 80))
        else:
            ck.missing(ids_rule, 'whether the indexing %s applied to the counts before trim_disconnected keeps the state ids' % _short(xsel[0][1], 80))
    # ---- trimming happens exactly when self.trim (the call, and the arrival of its mapping in self.mapping_)
    sites = [t] + [x for s, o in trim_src for x in (s,) + tuple(o[3])]
    atoms = _atoms_at(fi, sites)
    if atoms is None:
        ck.missing(rule, 'condition under which MSM.fit trims')
    else:
        what = 'trimming condition: %s' % _cond_text(atoms)
        bad = ('MSM(trim=True).fit must ALWAYS trim with trim_disconnected (and never when trim=False): any shortcut '
               'condition makes mapping_/tcounts_ differ from the trimming result, e.g. states that are entered and '
               'left but not strongly connected')
        if atoms == [('self.trim', True)]:
            ck.ok(rule, mm, t, what, 'the counts are trimmed iff self.trim')
        elif not atoms or ('self.trim', False) in atoms or ('self.trim', True) in atoms:
            # unconditional / only when trim is off / self.trim AND a further condition
            ck.bad(rule, mm, t, Q, what, bad)
        else:
            ck.missing(rule, 'relation of the %s to self.trim' % what)
    # ---- identity mapping otherwise
    idc = {id(o[0]): (s, o) for s, o in ident_src}
    if len(idc) != 1 or len(next(iter(idc.values()))[1][2].args) != 1 or next(iter(idc.values()))[1][2].keywords:
        ck.missing(rule, 'identity mapping `self.mapping_ = TrimMapping(...)` for trim=False (found %d)' % len(idc))
        return
    s, o = next(iter(idc.values()))             # s: the store; o[0]: the statement that builds the mapping
    made, tmcall = o[0], o[2]
    e = _strip_calls(fi.expand(tmcall.args[0]), ('list', 'tuple'))
    # names that denote the untrimmed counts where the identity mapping is built
    def is_counts(n):
        r = _matrix_roots(fi, made, n)
        return bool(r) and {k for k, _ in r} == xkey and not any(ss for _, ss in r)
    same = {n.id for n in ast.walk(e) if isinstance(n, ast.Name) and isinstance(n.ctx, ast.Load) and is_counts(n)}
    forms = []
    for r in ('range(_N)', 'np.arange(_N)'):
        forms += ['zip(%s, %s)' % (r, r), '((_I, _I) for _I in %s)' % r, '[(_I, _I) for _I in %s]' % r]
    xnames = {n.id for n in ast.walk(arg) if isinstance(n, ast.Name)}
    v = _cls(e, forms, scope=same or xnames)
    if v[0] == 'match':
        v2 = _cls(v[1]['_N'], ['_Z.shape[0]', '_Z.shape[1]'], scope=same or xnames)
        if v2[0] != 'match':
            v = v2
        elif not (isinstance(v2[1]['_Z'], ast.Name) and v2[1]['_Z'].id in same):
            v = ('far', 0, None)
    ck.decide(v, rule, mm, made, Q, u(made), 'identity mapping when trimming is off',
              'without trimming the mapping must be the identity over all states (zip(range(n), range(n)) with n = %s.shape[0])' % X)
    ga = _atoms_at(fi, [made, s] + list(o[3]))
    if ga is None:
        ck.missing(rule, 'condition under which the identity mapping is stored')
    else:
        what = 'identity mapping condition: %s' % _cond_text(ga)
        bad = 'the identity mapping must be the final mapping exactly when self.trim is false'
        tstores = [ts for ts, _ in trim_src]
        after_trim = any(fi.cfg.reachable(ts, s) and ts is not s for ts in tstores) or (fi.cfg.reachable(t, made) and not tstores)
        before_trim = all(fi.cfg.reachable(made, ts) for ts in tstores) and bool(tstores) and fi.cfg.reachable(made, t) \
            and not fi.cfg.reachable(t, made)
        if ga == [('self.trim', False)]:
            ck.ok(rule, mm, s, what, 'identity mapping exactly when trim is off')
        elif not ga and before_trim and not after_trim:
            ck.ok(rule, mm, s, what, 'identity mapping is the default, replaced by the trimming mapping when trim is on')
        elif not ga and after_trim:
            ck.bad(rule, mm, s, Q, what, bad + ': it overwrites the mapping returned by trim_disconnected')
        elif ('self.trim', True) in ga:
            ck.bad(rule, mm, s, Q, what, bad)
        else:
            ck.missing(rule, 'condition under which the identity mapping is stored: %s' % what)


def _pairs_stored_rule(ck, mod, init, ifi, tp, stores):
    """The pairs handed to TrimMapping are STORED: every producer
    (trim_disconnected, MSM.fit, read) hands over a non-empty iterable of
    pairs - a zip object, which is always true - so the store(s) that build
    to_original must execute whenever the argument is given/true.  A store
    guarded by the NEGATED test runs only for an absent/empty argument: the
    mapping returned by trim_disconnected then has no to_original at all."""
    rule = 'C11.D3.mapping-stored'
    if tp is None:
        return
    given = {(tp, True), (C('%s is not None' % tp), True)}
    absent = {(tp, False), (C('%s is None' % tp), True)}
    for s in stores:
        atoms = _guard_atoms(ifi, s)
        what = 'condition of `%s`: %s' % (_short(s, 80), _cond_text(atoms) if atoms is not None else '?')
        if atoms is None:
            ck.missing(rule, 'condition under which TrimMapping.__init__ stores the pairs (%s)' % _short(s, 80))
        elif set(atoms) & absent:
            ck.bad(rule, mod, s, 'TrimMapping.__init__', what,
                   'the pairs given to TrimMapping must be stored in to_original whenever they are given: this store runs only '
                   'when the argument is absent/empty, so TrimMapping(zip(keep_states, ...)) - as built by trim_disconnected - '
                   'keeps no mapping at all')
        elif set(atoms) <= given:
            ck.ok(rule, mod, s, what, 'the pairs are stored whenever they are given')
        else:
            ck.missing(rule, 'relation of the %s to the presence of the pairs' % what)


def mapping_rules(ck):
    """TrimMapping orientation: __init__, read, write, to_mapped."""
    rule = 'C11.D3.mapping-orientation'
    mod = ck.repo.mod(TM)
    init = mod.func('TrimMapping.__init__')
    ck.analysed(mod, init)
    tp = params(init)[1] if len(params(init)) > 1 else None
    st = [s for s in walk_local(init) if isinstance(s, ast.Assign) and u(s.targets[0]) == 'self.to_original']
    bad_init = 'TrimMapping(transformations) takes (original, trimmed) pairs and must store to_original = {trimmed: original}'
    ifi = finfo(mod, init)
    if len(st) != 1:
        ck.missing(rule, 'single store of self.to_original in TrimMapping.__init__ (found %d)' % len(st))
    elif _is_empty_dict(st[0].value):
        # filled pair by pair in a loop over the pairs
        fills = _loop_inverting(init, 'self.to_original')
        if len(fills) != 1 or fills[0][0] is None or u(fills[0][1]) != tp:
            ck.missing(rule, 'construction of to_original from the pairs not recognised (%d filling stores)' % len(fills))
        else:
            ck.check(fills[0][0], rule, mod, fills[0][2], 'TrimMapping.__init__', u(fills[0][2]),
                     'to_original[trimmed] = original for (original, trimmed) pairs',
                     bad_init + ': dict(pairs) / {o: t} is keyed by the ORIGINAL ids')
            _pairs_stored_rule(ck, mod, init, ifi, tp, [st[0], fills[0][2]])
    else:
        inv, it = _inverting(ifi.expand(st[0].value))
        if inv is None or u(_strip_calls(it, ('list', 'tuple', 'iter'))) != tp:
            ck.missing(rule, 'construction of to_original from the pairs not recognised: %s' % _short(st[0]))
        else:
            ck.check(inv, rule, mod, st[0], 'TrimMapping.__init__', u(st[0]),
                     'to_original[trimmed] = original for (original, trimmed) pairs',
                     bad_init + ': dict(pairs) / {o: t} is keyed by the ORIGINAL ids')
            _pairs_stored_rule(ck, mod, init, ifi, tp, [st[0]])
    cls = mod.classes['TrimMapping']
    getters = [f for f in cls.body if isinstance(f, ast.FunctionDef) and f.name == 'to_mapped'
               and any(u(d) == 'property' for d in f.decorator_list)]
    if len(getters) != 1:
        ck.missing(rule, 'property TrimMapping.to_mapped')
    else:
        g = getters[0]
        gfi = finfo(mod, g)
        rs = [r for r in ast.walk(g) if isinstance(r, ast.Return)]
        verdicts = []
        for r in rs:
            e = gfi.expand(r.value) if r.value is not None else None
            inv, it = _inverting(e) if e is not None else (None, None)
            if inv is not None and it is not None and _cx(it) == 'self.to_original.items()':
                verdicts.append(inv)
            elif inv is False and it is not None and _cx(it) == 'self.to_original' and isinstance(e, ast.Call):
                verdicts.append(False)      # dict(self.to_original): a copy, not the inverse
            elif e is not None and _cx(e) == C('dict(zip(self.to_original.values(), self.to_original.keys()))'):
                verdicts.append(True)
            elif e is not None and _cx(e) == C('dict(zip(self.to_original.keys(), self.to_original.values()))'):
                verdicts.append(False)
            else:
                verdicts.append(None)
        if not rs or any(x is None for x in verdicts):
            ck.missing(rule, 'value of TrimMapping.to_mapped not recognised')
        else:
            ck.check(all(verdicts), rule, mod, g, 'TrimMapping.to_mapped', 'to_mapped = inverse of to_original',
                     'to_mapped is derived as the inverse of to_original', 'to_mapped must be {original: trimmed} = inverse of to_original')
    wr = mod.func('TrimMapping.write')
    ck.analysed(mod, wr)
    wfi = finfo(mod, wr)
    hdr = [c for c in calls_in(wr) if isinstance(c.func, ast.Attribute) and c.func.attr == 'writerow']
    rows = [c for c in calls_in(wr) if isinstance(c.func, ast.Attribute) and c.func.attr == 'writerows']
    if len(hdr) != 1 or len(rows) != 1 or not hdr[0].args or not rows[0].args:
        ck.missing(rule + '.write', 'one header writerow and one writerows in TrimMapping.write')
    else:
        h = wfi.expand(hdr[0].args[0])
        hv = [const_value(e) for e in h.elts] if isinstance(h, (ast.List, ast.Tuple)) else None
        src = _row_source(wfi, rows[0].args[0])
        what = '%s ; %s' % (u(hdr[0]), _short(u(rows[0]), 100))
        bad = ("the CSV header is ['original', 'mapped']; rows must therefore be the items of to_mapped "
               '(original -> mapped). Writing to_original.items() stores the columns swapped and a reload '
               'returns the inverse mapping')
        # first component of every written row: 'original' for to_mapped.items() (keys are original ids) and
        # for swapped to_original.items(); 'mapped' otherwise
        first = None
        if src is not None:
            bt = _cx(src[0])
            what += '  [rows: %s%s]' % (bt, ', components swapped' if src[1] else '')
            if bt == 'self.to_mapped.items()':
                first = 'mapped' if src[1] else 'original'
            elif bt == 'self.to_original.items()':
                first = 'original' if src[1] else 'mapped'
        if first is None or hv is None or sorted(map(str, hv)) != ['mapped', 'original']:
            ck.missing(rule + '.write', 'header/rows of TrimMapping.write not recognised: %s' % what)
        elif hv[0] == first:
            ck.ok(rule + '.write', mod, rows[0], what, 'rows are (%s, %s) pairs under the matching header' % tuple(hv))
        else:
            ck.bad(rule + '.write', mod, rows[0], 'TrimMapping.write', what, bad)
    rd = mod.func('TrimMapping.read')
    ck.analysed(mod, rd)
    rfi = finfo(mod, rd)

    def is_header(e):
        return isinstance(e, (ast.List, ast.Tuple)) and [const_value(x) for x in e.elts] == ['original', 'mapped']
    chk = [n for n in ast.walk(rd) if isinstance(n, ast.Compare) and len(n.ops) == 1 and isinstance(n.ops[0], (ast.Eq, ast.NotEq))
           and (is_header(n.left) or is_header(n.comparators[0]))]
    r = returns_of(rd)
    if len(r) != 1 or r[0].value is None:
        ck.missing(rule + '.read', 'single return of TrimMapping.read')
    else:
        e = rfi.expand(r[0].value)
        v = classify(e, ["TrimMapping(zip(_C['original'], _C['mapped']))", "cls(zip(_C['original'], _C['mapped']))",
                         "TrimMapping(list(zip(_C['original'], _C['mapped'])))", "cls(list(zip(_C['original'], _C['mapped'])))"], near=2)
        if v[0] == 'match' and not chk:
            # no comparison with the literal header row: a violation only if the reader does not look
            # at the header names at all (nothing compares / tests against 'original' or 'mapped')
            other = [n for n in ast.walk(rd) if isinstance(n, (ast.Compare, ast.Assert, ast.Raise, ast.Call)) and n is not r[0].value
                     and not any(n is x for x in ast.walk(r[0])) and
                     any(isinstance(k, ast.Constant) and k.value in ('original', 'mapped') for k in ast.walk(n))]
            v = ('far', 0, None) if other else ('near', 1, "assert headers == ['original', 'mapped']")
        ck.decide(v, rule + '.read', mod, r[0], 'TrimMapping.read', u(r[0]),
                  'reader rebuilds (original, mapped) pairs from the named columns',
                  "read must check the header and build TrimMapping(zip(column['original'], column['mapped']))")
        # polarity of the header check: the return must be reached when the header row EQUALS the names
        for cmp_ in chk:
            pol = _header_check_polarity(rfi, cmp_, r[0], is_header)
            if pol is False:
                ck.bad(rule + '.read', mod, rfi.stmt(cmp_), 'TrimMapping.read', 'header check: %s' % _short(rfi.stmt(cmp_), 100),
                       "the reader must accept exactly the header ['original', 'mapped'] that write produces: this check lets "
                       'the reader continue only when the header DIFFERS from it (every file written by TrimMapping.write is refused)')
        # the columns are keyed by the HEADER names and filled with the row values
        if v[0] == 'match' and isinstance(v[1].get('_C'), ast.Name):
            _column_fill_rule(ck, rule + '.read', mod, rd, rfi, v[1]['_C'].id)


def _header_check_polarity(fi, cmp_, ret, is_header):
    """Is the return reached when the comparison of the header row with the
    literal names says EQUAL (True) or only when it says DIFFERENT (False)?
    None: the role of the comparison is not recognised."""
    s = fi.stmt(cmp_)

    def eq_under(test, pol):
        cj = conjuncts(test, pol)
        if cj is None:
            return None
        for a in cj:
            if isinstance(a, Cmp) and (is_header(a.lhs) or is_header(a.rhs)) and a.op in (ast.Eq, ast.NotEq):
                return a.op is ast.Eq
        return None
    if isinstance(s, ast.Assert):
        if not any(n is cmp_ for n in ast.walk(s.test)):
            return None
        return eq_under(s.test, True)
    if isinstance(s, ast.If) and any(n is cmp_ for n in ast.walk(s.test)):
        sides = {}
        for n in fi.cfg.nodes:
            if isinstance(n, Assume) and n.owner is s:
                e = eq_under(n.test, n.polarity)
                if e is not None:
                    sides[e] = n
        if True in sides and False in sides:
            reach_eq = fi.cfg.reachable(sides[True], ret)
            reach_ne = fi.cfg.reachable(sides[False], ret)
            if reach_eq:
                return True
            if reach_ne:
                return False
    return None


def _column_fill_rule(ck, rule, mod, rd, fi, Cn):
    """`for A, B in zip(X, Y): Cn[A].append(..B..)` where Cn was created with
    one (empty) column per element of the header row H: the key must be the
    component paired with H, the value the one paired with the data row."""
    cdefs = [s for s in assigns_to(rd, Cn) if isinstance(s, ast.Assign)]
    if len(cdefs) != 1 or not isinstance(cdefs[0].value, ast.DictComp) or len(cdefs[0].value.generators) != 1:
        return
    dc = cdefs[0].value
    g = dc.generators[0]
    if g.ifs or not (isinstance(g.target, ast.Name) and isinstance(dc.key, ast.Name) and dc.key.id == g.target.id):
        return
    H = _cx(g.iter)
    par = fi.mod.parent
    for x in walk_local(rd):
        if not (isinstance(x, ast.Call) and isinstance(x.func, ast.Attribute) and x.func.attr == 'append' and len(x.args) == 1
                and isinstance(x.func.value, ast.Subscript) and isinstance(x.func.value.value, ast.Name)
                and x.func.value.value.id == Cn and isinstance(x.func.value.slice, ast.Name)):
            continue
        key = x.func.value.slice.id
        lp = par.get(fi.stmt(x))
        if not (isinstance(lp, ast.For) and isinstance(lp.target, ast.Tuple) and len(lp.target.elts) == 2
                and all(isinstance(e, ast.Name) for e in lp.target.elts)
                and isinstance(lp.iter, ast.Call) and call_name(lp.iter) == 'zip' and len(lp.iter.args) == 2 and not lp.iter.keywords):
            continue
        a, b = (e.id for e in lp.target.elts)
        if a == b or key not in (a, b):
            continue
        p, q = (_cx(z) for z in lp.iter.args)
        with_key, other = (p, q) if key == a else (q, p)
        vals = {n.id for n in ast.walk(x.args[0]) if isinstance(n, ast.Name)}
        if (b if key == a else a) not in vals:
            continue
        what = '%s: %s' % (_short(u(lp).split('\n')[0], 80), u(x))
        if with_key == H and other != H:
            ck.ok(rule, mod, x, what, 'columns are keyed by the header names and filled with the row values')
        elif other == H and with_key != H:
            ck.bad(rule, mod, x, 'TrimMapping.read', what,
                   'the columns were created per header name (%s): the key of the column must be the component zipped with the '
                   'header row, the appended value the one zipped with the data row - here the row VALUE is used as the column name' % H)

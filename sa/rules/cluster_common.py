"""Rules shared by the clustering properties (C01, C02, C09, C10, C14)."""
import ast

from ..cfg import ENTRY, EXIT, Assume
from ..core import (AnalysisIncomplete, call_name, is_call_to, kwarg,
                    names_loaded, params, target_names, u, walk_expr,
                    walk_local)
from ..patterns import (Cmp, assigns_to, calls_in, conjuncts, finfo,
                        returns_of, subscript_stores, mask_atoms, mask_keys,
                        eval_mask, canon_atom)

KC = 'enspara/cluster/kcenters.py'
KM = 'enspara/cluster/kmedoids.py'
HY = 'enspara/cluster/hybrid.py'
CU = 'enspara/cluster/util.py'


_UFUNC_CMP = {'less': ast.Lt, 'less_equal': ast.LtE, 'greater': ast.Gt, 'greater_equal': ast.GtE}


def _mask_compare(v):
    """The elementwise comparison behind a selection value: the comparison
    itself, `np.less(a, b)` & co., or the index form of such a mask
    (`np.where(m)[0]`, `np.nonzero(m)[0]`, `np.where(m)`, `np.flatnonzero(m)`):
    all select the same cells when used as a store index of a 1-d array."""
    for _ in range(3):
        if isinstance(v, ast.Subscript) and isinstance(v.slice, ast.Constant) and v.slice.value == 0 \
                and isinstance(v.value, ast.Call):
            v = v.value
        if isinstance(v, ast.Call) and call_name(v) in ('np.where', 'np.nonzero', 'np.flatnonzero', 'np.argwhere') \
                and len(v.args) == 1 and not v.keywords:
            if call_name(v) == 'np.argwhere':
                return None
            v = v.args[0]
            continue
        break
    if isinstance(v, ast.Call) and (call_name(v) or '').startswith('np.') and \
            call_name(v)[3:] in _UFUNC_CMP and len(v.args) == 2 and not v.keywords:
        return ast.Compare(left=v.args[0], ops=[_UFUNC_CMP[call_name(v)[3:]]()], comparators=[v.args[1]])
    if isinstance(v, ast.Compare) and len(v.ops) == 1:
        return v
    return None


def find_running_min_commits(mod, fn):
    """Find instances of the running-minimum commit idiom in fn:

        M = new < cur            (or cur > new, <= / >=)
        cur[M] = new[M]
        lab[M] = <label>

    Returns list of dicts with the parts found (partial matches included:
    a mask comparing two arrays used as a store index counts as a
    candidate)."""
    fi = finfo(mod, fn)
    out = []
    for n in walk_local(fn):
        if not (isinstance(n, ast.Assign) and len(n.targets) == 1
                and isinstance(n.targets[0], ast.Name)):
            continue
        v = _mask_compare(n.value)
        if v is None:
            continue
        c = Cmp(v.left, type(v.ops[0]), v.comparators[0])
        less = c.as_less()
        if less is None:
            continue
        small, strict, big = less
        if not (isinstance(small, ast.Name) and isinstance(big, ast.Name)):
            continue
        mask = n.targets[0].id
        # stores indexed by this mask value
        stores = []
        for st, t in subscript_stores(fn):
            if isinstance(t.slice, ast.Name) and t.slice.id == mask and \
                    n in fi.defs_of_use(t.slice) and isinstance(st, ast.Assign):
                stores.append((st, t))
        if not stores:
            continue
        # a commit writes into STATE arrays (parameters / returned arrays); a
        # mask that only selects cells of a local scratch array (e.g. the
        # frames to re-measure) is not a running-minimum commit
        state = set(params(fn))
        for r in returns_of(fn):
            rv = fi.resolve(r.value) if isinstance(r.value, ast.Name) else r.value
            if rv is not None:
                state |= {x.id for x in (rv.elts if isinstance(rv, ast.Tuple) else [rv])
                          if isinstance(x, ast.Name)}
        if not any(isinstance(t.value, ast.Name) and t.value.id in state for _, t in stores):
            continue
        out.append({'mask_stmt': n, 'mask': mask, 'new': small.id,
                    'cur': big.id, 'strict': strict, 'stores': stores,
                    'cmp': c})
    return out


def _written_otherwise(fi, fn, name, after, known_stores):
    """Is the array `name` written (subscript store, rebinding, mutating call,
    out=/where= argument, passed to a helper) at a statement that can execute
    after `after` and is not one of `known_stores`?"""
    cfg = fi.cfg
    for s in walk_local(fn):
        if not isinstance(s, ast.stmt) or s is after or any(s is k for k in known_stores):
            continue
        if s not in cfg.succ or not cfg.reachable(after, s):
            continue
        if isinstance(s, (ast.Assign, ast.AugAssign, ast.AnnAssign)):
            tgts = s.targets if isinstance(s, ast.Assign) else [s.target]
            for t in tgts:
                for x in ast.walk(t):
                    if isinstance(x, ast.Name) and x.id == name:
                        return True
        if isinstance(s, (ast.Assign, ast.AugAssign, ast.AnnAssign, ast.Expr)) and getattr(s, 'value', None) is not None:
            for c in ast.walk(s.value):
                if isinstance(c, ast.Call) and call_name(c) not in ('len', 'print') and (
                        any(isinstance(a, ast.Name) and a.id == name for a in c.args) or
                        any(isinstance(k.value, ast.Name) and k.value.id == name for k in c.keywords) or
                        (isinstance(c.func, ast.Attribute) and isinstance(c.func.value, ast.Name)
                         and c.func.value.id == name and c.func.attr in (
                             'fill', 'put', 'itemset', 'sort', 'partition', 'resize', '__setitem__'))):
                    # (logging calls only read their arguments)
                    cn = call_name(c) or ''
                    if cn.split('.')[0] in ('logger', 'logging', 'warnings'):
                        continue
                    return True
    return False


def check_running_min_commit(ck, rule, mod, qual, require_strict,
                             label_kind, min_instances=1):
    """D2 of C01 at one function.  label_kind: 'len-before-append' or
    'enumerate-index'."""
    fn = mod.func(qual)
    ck.analysed(mod, fn)
    fi = finfo(mod, fn)
    inst = find_running_min_commits(mod, fn)
    good = 0
    state = set(params(fn))
    for r in returns_of(fn):
        rv = fi.resolve(r.value) if isinstance(r.value, ast.Name) else r.value
        if rv is not None:
            state |= {x.id for x in (rv.elts if isinstance(rv, ast.Tuple) else [rv])
                      if isinstance(x, ast.Name)}
    for i in inst:
        mask, new, cur = i['mask'], i['new'], i['cur']
        desc = '%s; stores under it: %s' % (u(i['mask_stmt']), '; '.join(
            u(s) for s, _ in i['stores']))
        # (a) strictness
        if require_strict and not i['strict']:
            ck.bad(rule + '.direction', mod, i['mask_stmt'], qual,
                   u(i['mask_stmt']),
                   'the commit mask must be the STRICT test candidate < current: '
                   'with <= every frame whose candidate distance equals its '
                   'current distance (all frames skipped by the triangle-'
                   'inequality shortcut, whose candidate is a copy of the '
                   'current distance) is relabelled to the new centre without '
                   'being nearer to it')
        else:
            ck.ok(rule + '.direction', mod, i['mask_stmt'], u(i['mask_stmt']),
                  'mask = candidate %s current' % ('<' if i['strict'] else '<='))
        # (b) distance commit: cur[M] = new[M]
        dist_store = None
        label_store = None
        for st, t in i['stores']:
            tgt = u(t.value)
            val = st.value
            if tgt == cur:
                dist_store = (st, t)
            else:
                label_store = (st, t) if label_store is None else label_store
        if dist_store is None:
            if _written_otherwise(fi, fn, cur, i['mask_stmt'], [st for st, _ in i['stores']]):
                ck.missing(rule + '.paired', '%s: `%s` is updated after `%s` in a way that is not a store '
                           'under the mask `%s`' % (qual, cur, u(i['mask_stmt'])[:60], mask))
            else:
                ck.bad(rule + '.paired', mod, i['mask_stmt'], qual, desc,
                       'mask `%s` selects frames whose candidate distance `%s` beats '
                       '`%s`, but `%s[%s]` is never updated under it: labels and '
                       'distances go out of step' % (mask, new, cur, cur, mask))
        else:
            st, t = dist_store
            v = st.value
            okv = isinstance(v, ast.Subscript) and u(v.value) == new and \
                isinstance(v.slice, ast.Name) and v.slice.id == mask and \
                fi.same_value(v.slice, t.slice)
            if okv:
                ck.ok(rule + '.paired', mod, st, u(st),
                      'current distances take the candidate values under the same mask')
            else:
                # a named temporary, or an equal value under the mask (where new < cur)
                from ..match import classify
                forms = ['%s[%s]' % (new, mask), 'np.minimum(%s, %s)[%s]' % (new, cur, mask),
                         'np.minimum(%s, %s)[%s]' % (cur, new, mask), 'np.fmin(%s, %s)[%s]' % (new, cur, mask),
                         'np.fmin(%s, %s)[%s]' % (cur, new, mask)]
                ck.decide(classify(fi.expand(v, stop=(mask, new, cur), strict=False), forms, scope={mask, new, cur}),
                          rule + '.paired', mod, st, qual, u(st),
                          'current distances take the candidate values under the same mask',
                          'the value stored into `%s[%s]` must be `%s[%s]` (the array '
                          'that was compared, under the same mask)' % (cur, mask, new, mask))
        if label_store is None:
            labs = [nm for nm in state if nm not in (cur, new, mask)]
            if any(_written_otherwise(fi, fn, nm, i['mask_stmt'], []) for nm in labs):
                ck.missing(rule + '.paired', '%s: no label store under the mask `%s`, but a state array is updated '
                           'after it in an unrecognised way' % (qual, mask))
            else:
                ck.bad(rule + '.paired', mod, i['mask_stmt'], qual, desc,
                       'distances are committed under mask `%s` but no label array '
                       'is updated under the same mask' % mask)
        else:
            st, t = label_store
            lab = st.value
            # the label may be a named temporary (`new_label = len(lst)`): it is
            # then evaluated at its (single) definition, not at the store
            ev = st
            hops = 0
            while isinstance(lab, ast.Name) and hops < 4:
                ds = fi.defs_of_use(lab)
                site = next(iter(ds)) if len(ds) == 1 else None
                val = fi.def_value(site, lab.id) if site not in (None, 'PARAM', 'UNBOUND') else None
                if val is None:
                    break
                lab, ev, hops = val, site, hops + 1
            if label_kind == 'len-before-append':
                # len(L) + c: the list length at the evaluation point, shifted by a constant
                offset = 0
                if isinstance(lab, ast.BinOp) and isinstance(lab.op, (ast.Add, ast.Sub)) and \
                        isinstance(lab.right, ast.Constant) and isinstance(lab.right.value, int) and \
                        not isinstance(lab.right.value, bool):
                    offset = lab.right.value if isinstance(lab.op, ast.Add) else -lab.right.value
                    lab = lab.left
                ok_label = isinstance(lab, ast.Call) and call_name(lab) == 'len' \
                    and len(lab.args) == 1 and isinstance(lab.args[0], ast.Name) \
                    and not lab.keywords
                if ok_label and offset != 0:
                    lst = lab.args[0].id
                    appends = [c for c in calls_in(fn, '.append')
                               if isinstance(c.func.value, ast.Name)
                               and c.func.value.id == lst]
                    cfg = fi.cfg
                    before = [c for c in appends if cfg.reachable(fi.stmt(c), ev)]
                    sure = [c for c in before if cfg.dominates(fi.stmt(c), ev)
                            and not cfg.reachable(fi.stmt(c), fi.stmt(c))]
                    ck.check(len(before) == len(sure) == -offset and appends, rule + '.label', mod, st, qual, u(st),
                             'label = len(%s) %+d evaluated after %d append(s): the length before the new centre '
                             'was appended' % (lst, offset, len(sure)),
                             'label must be the centre list length BEFORE the new centre is appended; '
                             '`len(%s) %+d` is evaluated after %d append(s)' % (lst, offset, len(before)))
                elif ok_label:
                    lst = lab.args[0].id
                    # the list must be appended to AFTER the label is
                    # evaluated, on the way to the return, never before
                    appends = [c for c in calls_in(fn, '.append')
                               if isinstance(c.func.value, ast.Name)
                               and c.func.value.id == lst]
                    cfg = fi.cfg
                    before = [c for c in appends
                              if cfg.reachable(fi.stmt(c), ev)
                              and not cfg.reachable(ev, fi.stmt(c))]
                    after = [c for c in appends if cfg.reachable(ev, fi.stmt(c))]
                    ck.check(not before and len(after) >= 1,
                             rule + '.label', mod, st, qual, u(st),
                             'label = len(%s) evaluated before the append of the new centre' % lst,
                             'label must be the centre list length BEFORE the new '
                             'centre is appended (append found before the label '
                             'store: %d, after: %d)' % (len(before), len(after)))
                else:
                    # another function of the lists that grow by one centre per
                    # call is a wrong label; anything else is not recognised
                    from ..match import classify
                    grown = sorted({c.func.value.id for c in calls_in(fn, '.append')
                                    if isinstance(c.func.value, ast.Name)})
                    v = classify(fi.expand(lab), ['len(%s)' % g for g in grown] or ['len(_L)'],
                                 scope=set(grown) | set(params(fn)))
                    ck.decide(v if v[0] != 'match' else 'far', rule + '.label', mod, st, qual, u(st), '',
                              'label stored under the commit mask is not len(<centre index list>)')
            else:   # enumerate-index
                _check_sweep_label(ck, rule, mod, qual, fi, st, lab, new)
            # same mask value on both stores
            if dist_store is not None:
                ck.check(fi.same_value(dist_store[1].slice, t.slice),
                         rule + '.samemask', mod, st, qual,
                         '%s / %s' % (u(dist_store[0]), u(st)),
                         'both stores use the same definition of the mask',
                         'label store and distance store use different mask values')
        good += 1
    return len(inst)


def _sweep_loop(mod, fi, st):
    """The per-centre loop around a label store: (loop, index name, element
    names, sequence text, problem).  Recognised: `for i, c in enumerate(S)`
    and `for i in range(len(S))` (element = S[i])."""
    loop = mod.parent.get(st)
    while loop is not None and not isinstance(loop, ast.For):
        loop = mod.parent.get(loop)
    if loop is None:
        return None, None, None, None, 'label store is not inside a for loop'
    it = loop.iter
    if isinstance(it, ast.Call) and call_name(it) == 'enumerate' and it.args and \
            isinstance(loop.target, ast.Tuple) and len(loop.target.elts) == 2 and \
            all(isinstance(e, ast.Name) for e in loop.target.elts):
        startv = it.args[1] if len(it.args) > 1 else kwarg(it, 'start')
        if startv is not None and not (isinstance(startv, ast.Constant) and startv.value == 0):
            if isinstance(startv, ast.Constant):
                return loop, loop.target.elts[0].id, set(), u(it.args[0]), 'enumerate starts at %s: labels are shifted against the centre positions' % u(startv)
            return None, None, None, None, 'enumerate start `%s` not recognised' % u(startv)
        return loop, loop.target.elts[0].id, {loop.target.elts[1].id}, u(it.args[0]), None
    if isinstance(it, ast.Call) and call_name(it) == 'range' and isinstance(loop.target, ast.Name) \
            and not it.keywords and 1 <= len(it.args) <= 2:
        if len(it.args) == 2 and not (isinstance(it.args[0], ast.Constant) and it.args[0].value == 0):
            return None, None, None, None, 'range start `%s` not recognised' % u(it.args[0])
        stop = fi.expand(it.args[-1])
        seq = None
        if isinstance(stop, ast.Call) and call_name(stop) == 'len' and len(stop.args) == 1:
            seq = u(stop.args[0])
        elif isinstance(stop, ast.Subscript) and isinstance(stop.value, ast.Attribute) and \
                stop.value.attr == 'shape' and u(stop.slice) == '0':
            seq = u(stop.value.value)
        if seq is not None:
            return loop, loop.target.id, set(), seq, None
    return None, None, None, None, 'loop `for %s in %s` is not a recognised sweep over the centres' % (u(loop.target), u(it)[:60])


def _check_sweep_label(ck, rule, mod, qual, fi, st, lab, new):
    """label = position (in the centre sequence) of the centre whose distance
    array `new` was compared: the enumerate index / the range(len(S)) index
    with S[i] as element.  Unrecognised loop shape -> incomplete."""
    from ..match import classify
    loop, idx, elems, seq, problem = _sweep_loop(mod, fi, st)
    if loop is None:
        ck.missing(rule + '.label', '%s: %s (%s)' % (qual, problem, u(st)[:80]))
        return
    if problem:
        ck.bad(rule + '.label', mod, st, qual, u(st), problem)
        return
    # does `new` derive (inside this trip) from the element of this position?
    todo = [a.value for a in assigns_to(loop, new) if isinstance(a, ast.Assign)]
    seen_names, feeds = set(), False
    while todo:
        e = todo.pop()
        for x in walk_expr(e):
            if isinstance(x, ast.Subscript) and u(x.value) == seq and u(x.slice) == idx:
                feeds = True
            if isinstance(x, ast.Name) and isinstance(x.ctx, ast.Load) and x.id not in seen_names:
                seen_names.add(x.id)
                if x.id in elems:
                    feeds = True
                todo += [a.value for a in assigns_to(loop, x.id) if isinstance(a, ast.Assign)]
    v = classify(lab, [idx], scope={idx} | elems)
    detail = ('label must be the position `%s` of the centre whose distance array `%s` '
              'was compared' % (idx, new))
    if v[0] == 'match' and not feeds:
        if not [a for a in assigns_to(loop, new) if isinstance(a, ast.Assign)]:
            ck.missing(rule + '.label', '%s: definition of `%s` inside the sweep not found' % (qual, new))
            return
        ck.bad(rule + '.label', mod, st, qual, u(st),
               'the compared distance array `%s` is not computed from the centre at position `%s` '
               'of `%s` in this trip' % (new, idx, seq))
        return
    ck.decide(v, rule + '.label', mod, st, qual, u(st),
              'label = position of the compared centre', detail)

"""Rules shared by the clustering properties (C01, C02, C09, C10, C14)."""
import ast

from ..cfg import ENTRY, EXIT, Assume
from ..core import (AnalysisIncomplete, call_name, is_call_to, kwarg,
                    names_loaded, params, target_names, u, walk_expr,
                    walk_local)
from ..patterns import (Cmp, assigns_to, calls_in, conjuncts, finfo,
                        returns_of, subscript_stores, mask_atoms, mask_keys,
                        eval_mask, canon_atom)

KC = 'enspara/cluster/kcenters.py'
KM = 'enspara/cluster/kmedoids.py'
HY = 'enspara/cluster/hybrid.py'
CU = 'enspara/cluster/util.py'


def find_running_min_commits(mod, fn):
    """Find instances of the running-minimum commit idiom in fn:

        M = new < cur            (or cur > new, <= / >=)
        cur[M] = new[M]
        lab[M] = <label>

    Returns list of dicts with the parts found (partial matches included:
    a mask comparing two arrays used as a store index counts as a
    candidate)."""
    fi = finfo(mod, fn)
    out = []
    for n in walk_local(fn):
        if not (isinstance(n, ast.Assign) and len(n.targets) == 1
                and isinstance(n.targets[0], ast.Name)):
            continue
        v = n.value
        if not (isinstance(v, ast.Compare) and len(v.ops) == 1):
            continue
        c = Cmp(v.left, type(v.ops[0]), v.comparators[0])
        less = c.as_less()
        if less is None:
            continue
        small, strict, big = less
        if not (isinstance(small, ast.Name) and isinstance(big, ast.Name)):
            continue
        mask = n.targets[0].id
        # stores indexed by this mask value
        stores = []
        for st, t in subscript_stores(fn):
            if isinstance(t.slice, ast.Name) and t.slice.id == mask and \
                    n in fi.defs_of_use(t.slice) and isinstance(st, ast.Assign):
                stores.append((st, t))
        if not stores:
            continue
        out.append({'mask_stmt': n, 'mask': mask, 'new': small.id,
                    'cur': big.id, 'strict': strict, 'stores': stores,
                    'cmp': c})
    return out


def check_running_min_commit(ck, rule, mod, qual, require_strict,
                             label_kind, min_instances=1):
    """D2 of C01 at one function.  label_kind: 'len-before-append' or
    'enumerate-index'."""
    fn = mod.func(qual)
    ck.analysed(mod, fn)
    fi = finfo(mod, fn)
    inst = find_running_min_commits(mod, fn)
    good = 0
    for i in inst:
        mask, new, cur = i['mask'], i['new'], i['cur']
        desc = '%s; stores under it: %s' % (u(i['mask_stmt']), '; '.join(
            u(s) for s, _ in i['stores']))
        # (a) strictness
        if require_strict and not i['strict']:
            ck.bad(rule + '.direction', mod, i['mask_stmt'], qual,
                   u(i['mask_stmt']),
                   'the commit mask must be the STRICT test candidate < current: '
                   'with <= every frame whose candidate distance equals its '
                   'current distance (all frames skipped by the triangle-'
                   'inequality shortcut, whose candidate is a copy of the '
                   'current distance) is relabelled to the new centre without '
                   'being nearer to it')
        else:
            ck.ok(rule + '.direction', mod, i['mask_stmt'], u(i['mask_stmt']),
                  'mask = candidate %s current' % ('<' if i['strict'] else '<='))
        # (b) distance commit: cur[M] = new[M]
        dist_store = None
        label_store = None
        for st, t in i['stores']:
            tgt = u(t.value)
            val = st.value
            if tgt == cur:
                dist_store = (st, t)
            else:
                label_store = (st, t) if label_store is None else label_store
        if dist_store is None:
            ck.bad(rule + '.paired', mod, i['mask_stmt'], qual, desc,
                   'mask `%s` selects frames whose candidate distance `%s` beats '
                   '`%s`, but `%s[%s]` is never updated under it: labels and '
                   'distances go out of step' % (mask, new, cur, cur, mask))
        else:
            st, t = dist_store
            v = st.value
            okv = isinstance(v, ast.Subscript) and u(v.value) == new and \
                isinstance(v.slice, ast.Name) and v.slice.id == mask and \
                fi.same_value(v.slice, t.slice)
            ck.check(okv, rule + '.paired', mod, st, qual, u(st),
                     'current distances take the candidate values under the same mask',
                     'the value stored into `%s[%s]` must be `%s[%s]` (the array '
                     'that was compared, under the same mask)' % (cur, mask, new, mask))
        if label_store is None:
            ck.bad(rule + '.paired', mod, i['mask_stmt'], qual, desc,
                   'distances are committed under mask `%s` but no label array '
                   'is updated under the same mask' % mask)
        else:
            st, t = label_store
            lab = st.value
            if label_kind == 'len-before-append':
                ok_label = isinstance(lab, ast.Call) and call_name(lab) == 'len' \
                    and len(lab.args) == 1 and isinstance(lab.args[0], ast.Name)
                if ok_label:
                    lst = lab.args[0].id
                    # the list must be appended to AFTER this store, exactly
                    # once on the way to the return, never before
                    appends = [c for c in calls_in(fn, '.append')
                               if isinstance(c.func.value, ast.Name)
                               and c.func.value.id == lst]
                    cfg = fi.cfg
                    before = [c for c in appends
                              if cfg.reachable(fi.stmt(c), st)
                              and not cfg.reachable(st, fi.stmt(c))]
                    after = [c for c in appends if cfg.reachable(st, fi.stmt(c))]
                    ck.check(not before and len(after) >= 1,
                             rule + '.label', mod, st, qual, u(st),
                             'label = len(%s) evaluated before the append of the new centre' % lst,
                             'label must be the centre list length BEFORE the new '
                             'centre is appended (append found before the label '
                             'store: %d, after: %d)' % (len(before), len(after)))
                else:
                    ck.bad(rule + '.label', mod, st, qual, u(st),
                           'label stored under the commit mask is not len(<centre index list>)')
            else:   # enumerate-index
                loop = mod.parent.get(st)
                while loop is not None and not isinstance(loop, ast.For):
                    loop = mod.parent.get(loop)
                ok_label = False
                detail = 'label store is not inside a loop over enumerate(centres)'
                if loop is not None and isinstance(loop.iter, ast.Call) and \
                        call_name(loop.iter) == 'enumerate' and isinstance(
                            loop.target, ast.Tuple) and len(loop.target.elts) == 2:
                    idx, ctr = loop.target.elts
                    # new must be distance to `ctr` computed in this trip
                    newdefs = [a for a in assigns_to(loop, new)]
                    uses_ctr = any(isinstance(ctr, ast.Name) and ctr.id in
                                   names_loaded(a.value) for a in newdefs
                                   if isinstance(a, ast.Assign))
                    ok_label = isinstance(lab, ast.Name) and isinstance(
                        idx, ast.Name) and lab.id == idx.id and uses_ctr
                    detail = ('label must be the enumerate index `%s` of the centre '
                              'whose distance array `%s` was compared' % (u(idx), new))
                ck.check(ok_label, rule + '.label', mod, st, qual, u(st),
                         'label = enumerate index of the compared centre', detail)
            # same mask value on both stores
            if dist_store is not None:
                ck.check(fi.same_value(dist_store[1].slice, t.slice),
                         rule + '.samemask', mod, st, qual,
                         '%s / %s' % (u(dist_store[0]), u(st)),
                         'both stores use the same definition of the mask',
                         'label store and distance store use different mask values')
        good += 1
    return len(inst)

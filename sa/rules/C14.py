"""C14 MPI: collective matching (SPMD uniformity), owner/root agreement,
striping convention, pair orientation, serial fallback completeness,
reductions, nullness of the cold-start branch."""
import ast

from .. import nullness
from ..cfg import ENTRY, EXIT, Assume
from ..core import (AnalysisIncomplete, call_name, const_value, dotted, kwarg,
                    names_loaded, params, target_names, u, walk_expr,
                    walk_local)
from ..patterns import (Cmp, assigns_to, calls_in, check_no_arg_mutation,
                        conjuncts, finfo, returns_of, shared,
                        subscript_stores)
from ..spmd import SPMD, collective_name
from .cluster_common import KC, KM, HY, CU, check_running_min_commit
from .C15 import d_striped
from ..match import C, CS

OPS = 'enspara/mpi/ops.py'
IO = 'enspara/mpi/io.py'
INIT = 'enspara/mpi/__init__.py'
UT = 'enspara/mpi/util.py'
APP = 'enspara/apps/cluster.py'

# A.2 uniformity table: parameters holding rank-LOCAL data (everything else
# is replicated on every rank by the SPMD calling convention)
LOCAL_PARAMS = {
    (KC, 'kcenters'): ['traj'],
    (KC, '_kcenters_iteration_mpi'): ['traj', 'distances', 'assignments'],
    (KC, '_kcenters_iteration'): ['traj', 'distances', 'assignments'],
    (OPS, 'distribute_frame'): ['data'],
    (OPS, 'randind'): ['local_array'],
    (OPS, 'striped_array_max'): ['local_array'],
    (OPS, 'striped_array_mean'): ['local_array'],
    (OPS, 'assemble_striped_array'): ['local_arr'],
    (OPS, 'assemble_striped_ragged_array'): ['local_array'],
    (OPS, 'convert_local_indices'): [],
    (IO, 'load_h5_as_striped'): [],
    (IO, 'load_npy_as_striped'): [],
    (IO, 'load_trajectory_as_striped'): [],
    (KM, 'kmedoids'): ['X', 'assignments', 'distances'],
    (KM, '_kmedoids_inputs_tree_mpi'): ['X', 'assignments', 'distances'],
    (KM, '_kmedoids_iterations'): ['X', 'assignments', 'distances'],
    (KM, '_kmedoids_pam_update'): ['X', 'assignments', 'distances'],
    (KM, '_propose_new_center_amongst'): ['X', 'state_inds'],
    (KM, '_msq'): ['x'],
    (KM, 'ctr_ids_mpi'): [],
    (HY, 'hybrid'): ['X'],
    (APP, 'main'): [],
    (CU, 'load_features'): [],
    (CU, 'load_trajectories'): [],
    (CU, 'load_trjs_or_features'): [],
}
# names that are rank-local although not parameters
LOCAL_NAMES = {(APP, 'main'): ['data', 'local_dists', 'local_assigs'],
               (KC, 'kcenters'): ['assignments', 'distances']}

EXPLANATION = (
    'Static SPMD analysis (the MPI code cannot be executed in this sandbox at '
    'all): (D1) no collective (mpi.comm.* call or package function that '
    'transitively contains one) is control-dependent on a rank-divergent '
    'condition unless both branches issue the same collective sequence with '
    'the same root; no return under a divergent condition precedes a later '
    'collective; loops containing collectives have rank-uniform trip counts '
    '(uniformity taint from mpi.rank() and the rank-local parameters of a '
    'frozen table, cleared by allreduce/allgather/bcast results); (D2) the '
    'rank that fills a broadcast buffer is the broadcast root, reassembly '
    'roots equal the stripe offset; (D3) every striping site uses x[r::size] '
    'with size = mpi.size() and r = rank / loop rank / id % size; (D4) '
    '(owner_rank, local_index) pairs are produced and consumed in that order; '
    '(D5) every mpi.comm / mpi.mpi4py attribute reachable when size() == 1 '
    'exists on the serial fallback classes; (D6) the MPI cold-start branch '
    'does not use a value it has just tested to be None (known finding); (D7) '
    'striped loaders return strided lengths; (D8) striped reductions derive '
    'every global quantity from a collective over the matching local '
    'quantity; plus the strict running-minimum commit of the MPI k-centers '
    'iteration. Equality with the serial run for every world size is not '
    'decided.')


def is_mpi_mode_test(t):
    txt = u(t)
    return txt in ('mpi_mode', 'mpi.size() > 1', 'mpi.size() != 1', 'not mpi.size() == 1')


def d1_matching(ck, spmd):
    rule = 'C14.D1.collective-matching'
    n_sites = 0
    for (rel, q), locs in LOCAL_PARAMS.items():
        mod = ck.repo.mod(rel)
        fn = mod.func(q)
        ck.analysed(mod, fn)
        from ..resolve import enclosing_class
        cls = enclosing_class(mod, fn)
        seeds = list(locs) + LOCAL_NAMES.get((rel, q), [])
        nu = spmd.nonuniform_names(mod, fn, seeds)
        # IfExp on mpi_mode: value uniform if the MPI arm is (handled by
        # removing names whose only tainted definitions are serial arms)
        for s in walk_local(fn):
            if isinstance(s, ast.Assign) and isinstance(s.value, ast.IfExp) and is_mpi_mode_test(s.value.test):
                if not spmd.expr_nonuniform(mod, fn, s.value.body, nu - set(target_names(s.targets[0])), cls):
                    other = [x for x in walk_local(fn) if isinstance(x, (ast.Assign, ast.AugAssign)) and x is not s and
                             set(target_names(x.targets[0] if isinstance(x, ast.Assign) else x.target)) & set(target_names(s.targets[0]))]
                    if all(isinstance(x, ast.Assign) and isinstance(x.value, ast.IfExp) and is_mpi_mode_test(x.value.test) and
                           not spmd.expr_nonuniform(mod, fn, x.value.body, nu - set(target_names(s.targets[0])), cls) for x in other):
                        nu -= set(target_names(s.targets[0]))
        all_events = spmd.events(mod, fn, fn.body)
        n_sites += len(all_events)
        if not all_events:
            ck.ok(rule, mod, fn, '%s: no collectives' % q, 'nothing to match')
            continue
        # (i) divergent if
        for node in walk_local(fn):
            if isinstance(node, ast.If):
                div = spmd.expr_nonuniform(mod, fn, node.test, nu, cls)
                eb = spmd.events(mod, fn, node.body)
                ee = spmd.events(mod, fn, node.orelse)
                if not eb and not ee:
                    continue
                if not div:
                    ck.ok(rule, mod, node, 'if %s: collectives %s / %s' % (u(node.test)[:60], eb, ee), 'rank-uniform condition')
                    continue
                ck.check(eb == ee, rule, mod, node, q, 'if %s: %s else: %s' % (u(node.test)[:80], eb, ee),
                         'rank-divergent branch, but both arms issue the same collective sequence with the same root',
                         'a collective is issued under the rank-divergent condition `%s` and the other arm does not issue the same '
                         'sequence (%s vs %s): ranks that take different arms wait for each other forever (deadlock) or '
                         'exchange mismatched messages' % (u(node.test)[:80], eb, ee))
            if isinstance(node, ast.IfExp):
                if spmd.expr_nonuniform(mod, fn, node.test, nu, cls):
                    eb = spmd.events(mod, fn, node.body)
                    ee = spmd.events(mod, fn, node.orelse)
                    if eb or ee:
                        ck.check(eb == ee, rule, mod, node, q, u(node)[:120], 'same collectives in both arms',
                                 'collective inside one arm of a rank-divergent conditional expression')
            if isinstance(node, (ast.For, ast.While)):
                ev = spmd.events(mod, fn, node.body)
                if not ev:
                    continue
                ctrl = node.iter if isinstance(node, ast.For) else node.test
                div = spmd.expr_nonuniform(mod, fn, ctrl, nu, cls)
                ck.check(not div, rule + '.loops', mod, node, q, '%s %s: collectives %s' % ('for' if isinstance(node, ast.For) else 'while', u(ctrl)[:80], ev[:4]),
                         'loop containing collectives has a rank-uniform trip count',
                         'the loop controlled by `%s` contains collectives %s but its trip count can differ between ranks: '
                         'some ranks leave the loop while others still wait in a collective' % (u(ctrl)[:80], ev[:3]))
        # (ii) early return under divergent condition before a later collective
        fi = finfo(mod, fn)
        for r in [x for x in walk_local(fn) if isinstance(x, ast.Return)]:
            p = mod.parent.get(r)
            divergent = False
            while p is not None and p is not fn:
                if isinstance(p, ast.If) and spmd.expr_nonuniform(mod, fn, p.test, nu, cls):
                    divergent = True
                p = mod.parent.get(p)
            if not divergent:
                continue
            later = [c for c in walk_local(fn) if isinstance(c, ast.Call) and (collective_name(c) or False)
                     and getattr(c, 'lineno', 0) > getattr(r, 'lineno', 0)]
            ck.check(not later, rule + '.early-return', mod, r, q, u(r)[:80],
                     'no collective follows this rank-divergent return',
                     'a rank can return here while the others go on to the collective at L%s' % (later[0].lineno if later else '?'))
    ck.floor(rule, n_sites, 25, 'collective events (direct and through package functions)')


def d2_roots(ck):
    rule = 'C14.D2.owner-root'
    mod = ck.repo.mod(OPS)
    fn = mod.func('distribute_frame')
    ck.analysed(mod, fn)
    data, widx, owner = params(fn)[:3]
    bc = [c for c in calls_in(fn) if collective_name(c) == 'Bcast']
    ok = len(bc) == 1 and u(kwarg(bc[0], 'root')) == owner and u(bc[0].args[0]) == 'frame' and finfo(mod, fn).stmt(bc[0]) in fn.body
    ck.check(ok, rule, mod, bc[0] if bc else fn, 'distribute_frame', u(bc[0]) if bc else 'Bcast',
             'one unconditional Bcast of the frame buffer rooted at the owner', 'distribute_frame must Bcast(frame, root=owner_rank) unconditionally')
    fills = [n for n in walk_local(fn) if isinstance(n, ast.If) and 'mpi.rank()' in u(n.test)]
    for n in fills:
        okf = u(n.test) in ('mpi.rank() == %s' % owner, '%s == mpi.rank()' % owner)
        src = [u(s.value) for s in n.body if isinstance(s, ast.Assign) and u(s.targets[0]) == 'frame']
        rcv = [u(s.value) for s in n.orelse if isinstance(s, ast.Assign) and u(s.targets[0]) == 'frame']
        okf = okf and len(src) == 1 and src[0] in ('%s[%s]' % (data, widx), '%s[%s].xyz' % (data, widx)) and len(rcv) == 1 and rcv[0].startswith('np.empty_like(')
        ck.check(okf, rule, mod, n, 'distribute_frame', 'if %s: frame = %s else: frame = %s' % (u(n.test), src, rcv),
                 'the rank that fills the buffer with data[world_index] is the broadcast root; the others allocate a receive buffer of the same shape',
                 'the rank filling the buffer (`%s`) must be the Bcast root `%s` and the frame sent must be data[world_index]' % (u(n.test), owner))
    ck.floor(rule, len(fills), 2, 'buffer-filling branches in distribute_frame')
    g = [n for n in fn.body if isinstance(n, ast.If) and any(isinstance(x, ast.Raise) for x in n.body)]
    ck.check(bool(g) and u(g[0].test) == C('%s >= mpi.size()' % owner), rule + '.range', mod, g[0] if g else fn, 'distribute_frame', u(g[0].test) if g else '?',
             'an owner outside the world is rejected on every rank (uniform argument)', 'owner_rank >= mpi.size() must raise')
    # reassembly
    fa = mod.func('assemble_striped_array')
    ck.analysed(mod, fa)
    loops = [l for l in walk_local(fa) if isinstance(l, ast.For)]
    ok = len(loops) == 1 and u(loops[0].iter) == 'range(mpi.size())'
    i = u(loops[0].target) if loops else '?'
    st = [s for s in walk_local(fa) if isinstance(s, ast.Assign) and isinstance(s.targets[0], ast.Subscript) and u(s.targets[0].value) == 'global_arr']
    ok = ok and len(st) == 1 and u(st[0].targets[0].slice) == '%s::mpi.size()' % i and isinstance(st[0].value, ast.Call) and \
        collective_name(st[0].value) == 'bcast' and u(kwarg(st[0].value, 'root')) == i and u(st[0].value.args[0]) == params(fa)[0]
    ck.check(ok, rule + '.reassembly', mod, st[0] if st else fa, 'assemble_striped_array', u(st[0]) if st else '?',
             'stripe i of the global array receives the local array of rank i (root = stripe offset)',
             'global_arr[i::size] must receive bcast(local_arr, root=i) for i in range(size)')
    fr = mod.func('assemble_striped_ragged_array')
    ck.analysed(mod, fr)
    loops = [l for l in walk_local(fr) if isinstance(l, ast.For)]
    ok = len(loops) == 1 and u(loops[0].iter) == 'range(mpi.size())'
    r = u(loops[0].target) if loops else '?'
    bc = [s for s in walk_local(fr) if isinstance(s, ast.Assign) and isinstance(s.value, ast.Call) and collective_name(s.value) == 'bcast']
    ok = ok and len(bc) == 1 and u(kwarg(bc[0].value, 'root')) == r and u(bc[0].value.args[0]) == params(fr)[0] and bc[0] in loops[0].body
    ck.check(ok, rule + '.reassembly', mod, bc[0] if bc else fr, 'assemble_striped_ragged_array', u(bc[0]) if bc else '?',
             'each rank broadcasts its local array in turn, unconditionally inside the loop', 'rank_array = bcast(local_array, root=rank) for rank in range(size)')
    ll = [s for s in walk_local(fr) if isinstance(s, ast.Assign) and u(s.targets[0]) == 'local_lengths']
    ok = len(ll) == 1 and u(ll[0].value) == '%s[%s::mpi.size()]' % (params(fr)[1], r)
    ck.check(ok, rule + '.reassembly', mod, ll[0] if ll else fr, 'assemble_striped_ragged_array', u(ll[0]) if ll else '?', 'lengths of rank r = global_lengths[r::size]', 'local lengths must be global_lengths[rank::size]')
    st = [s for s in walk_local(fr) if isinstance(s, ast.Assign) and isinstance(s.targets[0], ast.Subscript) and u(s.targets[0].value) == 'global_ra']
    sl = sorted(u(s.targets[0].slice) for s in st)
    ck.check(sl == sorted(['%s::mpi.size()' % r, r]), rule + '.reassembly', mod, st[0] if st else fr, 'assemble_striped_ragged_array', '; '.join(u(s) for s in st),
             'rows r, r+size, ... of the global ragged array receive rank r\'s rows', 'global_ra[rank::size] must receive the rows of rank `rank`')


def d3_striping(ck):
    rule = 'C14.D3.striping'
    n = 0
    for rel in (OPS, IO, KM, KC, CU, APP):
        mod = ck.repo.mod(rel)
        for q, fn in mod.functions.items():
            for sub in walk_local(fn):
                if not (isinstance(sub, ast.Subscript) and isinstance(sub.slice, ast.Slice) and sub.slice.step is not None):
                    continue
                step = u(sub.slice.step)
                fi = finfo(mod, fn)
                sres = fi.resolve(sub.slice.step) if isinstance(sub.slice.step, ast.Name) else sub.slice.step
                if u(sres) != 'mpi.size()':
                    continue
                n += 1
                ck.analysed(mod, fn)
                lo = sub.slice.lower
                lres = fi.resolve(lo) if isinstance(lo, ast.Name) else lo
                ok = sub.slice.upper is None and lo is not None
                why = ''
                if ok:
                    t = u(lres)
                    if t == 'mpi.rank()':
                        why = 'own stripe'
                    elif isinstance(lo, ast.Name) and any(isinstance(l, ast.For) and u(l.target) == lo.id and u(l.iter) == 'range(mpi.size())'
                                                         for l in walk_local(fn)):
                        why = 'stripe of loop rank'
                    elif isinstance(lo, ast.Name) and any(isinstance(l, (ast.ListComp,)) and any(u(g.target) == lo.id and u(g.iter) == 'range(mpi.size())' for g in l.generators)
                                                         for l in ast.walk(fn)):
                        why = 'stripe of comprehension rank'
                    elif isinstance(lo, ast.Name) and lo.id in names_loaded(ast.Module(body=[], type_ignores=[])) :
                        why = ''
                    elif t.replace(' ', '') in ('global_traj_id%num_procs', 'global_traj_id%mpi.size()'):
                        why = 'owner = trajectory id mod size'
                    elif isinstance(lo, ast.Name) and lo.id in ('rank',) and any(
                            isinstance(l, ast.For) and isinstance(l.target, ast.Tuple) and lo.id in target_names(l.target) for l in walk_local(fn)):
                        why = 'owner rank of an (owner, index) pair'
                    else:
                        ok = False
                ck.check(ok, rule, mod, sub, q, u(sub), 'round-robin stripe x[r::size] (%s)' % why,
                         'striping must be x[r::mpi.size()] with r the rank / the loop rank / id %% size and no stop; found offset `%s`' % (u(lo) if lo is not None else 'None'))
    ck.floor(rule, n, 10, 'striping sites')
    # local trajectory id = id // size
    mod = ck.repo.mod(KM)
    fn = mod.func('ctr_ids_mpi')
    lt = [s for s in walk_local(fn) if isinstance(s, ast.Assign) and u(s.targets[0]) == 'local_trj_id']
    ok = len(lt) == 1 and u(lt[0].value).replace(' ', '') in ('int(global_traj_id/num_procs)', 'global_traj_id//num_procs')
    ck.check(ok, rule + '.local-id', mod, lt[0] if lt else fn, 'ctr_ids_mpi', u(lt[0]) if lt else '?', 'position of trajectory g on its owner = g // size', 'local trajectory id must be global id // size')
    mr = [s for s in walk_local(fn) if isinstance(s, ast.Assign) and u(s.targets[0]) == 'mpi_rank']
    ok = len(mr) == 1 and u(mr[0].value) == 'global_traj_id % num_procs'
    ck.check(ok, rule + '.local-id', mod, mr[0] if mr else fn, 'ctr_ids_mpi', u(mr[0]) if mr else '?', 'owner of trajectory g = g % size', 'owner must be global id % size')
    np_ = [s for s in walk_local(fn) if isinstance(s, ast.Assign) and u(s.targets[0]) == 'num_procs']
    ck.check(len(np_) == 1 and u(np_[0].value) == 'mpi.size()', rule + '.local-id', mod, np_[0] if np_ else fn, 'ctr_ids_mpi', u(np_[0]) if np_ else '?', 'size = mpi.size()', 'num_procs must be mpi.size()')


def d4_pairs(ck):
    rule = 'C14.D4.pair-orientation'
    mod = ck.repo.mod(OPS)
    fn = mod.func('convert_local_indices')
    ck.analysed(mod, fn)
    loops = [l for l in walk_local(fn) if isinstance(l, ast.For)]
    ok = len(loops) == 1 and u(loops[0].target) == '(rank, local_fid)'
    g = [s for s in walk_local(fn) if isinstance(s, ast.Assign) and u(s.targets[0]) == 'global_fid']
    ok = ok and len(g) == 1 and u(g[0].value) == 'file_origin_ra[rank::mpi.size()].flatten()[local_fid]'
    ck.check(ok, rule, mod, g[0] if g else fn, 'convert_local_indices', u(g[0]) if g else '?',
             '(owner rank, local frame) -> frames of that rank\'s stripe, flattened, at the local position',
             'convert_local_indices must unpack (rank, local_fid) and read file_origin_ra[rank::size].flatten()[local_fid]')
    fo = [s for s in walk_local(fn) if isinstance(s, ast.Assign) and u(s.targets[0]) == 'file_origin_ra']
    ck.check(len(fo) == 1 and u(fo[0].value) == 'ra.RaggedArray(global_indexing, lengths=global_lengths)', rule, mod, fo[0] if fo else fn, 'convert_local_indices', u(fo[0]) if fo else '?',
             'global frame ids partitioned by trajectory lengths', 'the lookup table must be RaggedArray(arange(total), lengths=global_lengths)')
    fr = mod.func('randind')
    ck.analysed(mod, fr)
    r = returns_of(fr)
    ck.check(len(r) == 1 and u(r[0].value) == '(owner_rank, local_index)', rule, mod, r[0] if r else fr, 'randind', u(r[0]) if r else '?', 'returns (owner_rank, local_index)', 'randind must return (owner_rank, local_index)')
    w = [s for s in walk_local(fr) if isinstance(s, ast.Assign) and u(s.targets[0]) == '(owner_rank, local_index)']
    ok = len(w) == 2 and u(w[0].value) == 'ra.where(a == global_index)' and u(w[1].value) == '(owner_rank[0], local_index[0])'
    ck.check(ok, rule, mod, w[0] if w else fr, 'randind', '; '.join(u(s) for s in w), '(row, column) of the drawn element in the rank-by-rank table', 'owner/local index must come from ra.where(a == global_index) in (row, column) order')
    a = [s for s in walk_local(fr) if isinstance(s, ast.Assign) and u(s.targets[0]) == 'a']
    ok = len(a) == 1 and u(kwarg(a[0].value, 'lengths')) == 'n_states' and u(a[0].value.args[0]) == 'concat'
    cc = [s for s in walk_local(fr) if isinstance(s, ast.Assign) and u(s.targets[0]) == 'concat']
    ok = ok and len(cc) == 1 and u(cc[0].value) == 'np.concatenate([np.arange(sum(n_states))[r::mpi.size()] for r in range(mpi.size())])'
    ck.check(ok, rule + '.randind-table', mod, cc[0] if cc else fr, 'randind', u(cc[0]) if cc else '?', 'row r of the table lists the global positions r, r+size, ...', 'the rank table must be built from arange(total)[r::size] per rank with lengths n_states')
    gi = [s for s in walk_local(fr) if isinstance(s, ast.Assign) and u(s.targets[0]) == 'global_index' and isinstance(s.value, ast.Call) and collective_name(s.value) == 'bcast']
    ck.check(len(gi) == 1 and u(kwarg(gi[0].value, 'root')) == '0' and gi[0] in fr.body, rule + '.randind-table', mod, gi[0] if gi else fr, 'randind', u(gi[0]) if gi else '?',
             'the drawn index is broadcast from rank 0 unconditionally', 'global_index must be bcast from root 0 outside any rank test')
    # PAM consumer: medoid_inds pairs (rank, frame_idx) -> distribute_frame(owner_rank=rank, world_index=frame_idx)
    mk = ck.repo.mod(KM)
    for q in ('_kmedoids_pam_update', '_kmedoids_inputs_tree_mpi'):
        f = mk.func(q)
        for l in walk_local(f):
            if isinstance(l, ast.For) and isinstance(l.target, ast.Tuple) and u(l.target).endswith('(rank, frame_idx))'):
                dfs = [c for c in calls_in(l) if (call_name(c) or '').endswith('distribute_frame')]
                ok = len(dfs) == 1 and u(kwarg(dfs[0], 'owner_rank')) == 'rank' and u(kwarg(dfs[0], 'world_index')) == 'frame_idx'
                ck.check(ok, rule + '.consumers', mk, dfs[0] if dfs else l, q, u(dfs[0]) if dfs else u(l.target),
                         'pair consumed as (owner_rank, world_index)', 'the (rank, index) pair must be passed as owner_rank=rank, world_index=frame_idx')
    f = mk.func('ctr_ids_mpi')
    ap = [c for c in calls_in(f) if u(c.func) == 'updated_ctr_inds.append']
    ck.check(len(ap) == 1 and u(ap[0].args[0]) == '(mpi_rank, concat_idx)', rule + '.consumers', mk, ap[0] if ap else f, 'ctr_ids_mpi', u(ap[0]) if ap else '?', 'produces (rank, local index) pairs', 'ctr_ids_mpi must append (mpi_rank, concat_idx)')
    f = mk.func('kmedoids')
    lc = [s for s in walk_local(f) if isinstance(s, ast.Assign) and u(s.targets[0]) == 'local_ctr_inds']
    ck.check(len(lc) == 1 and u(lc[0].value) == '[pair[1] for pair in cluster_center_inds if pair[0] == mpi.rank()]', rule + '.consumers', mk, lc[0] if lc else f, 'kmedoids', u(lc[0]) if lc else '?',
             'local centre frames = index part of pairs owned by this rank', 'local centre indices must be pair[1] of pairs with pair[0] == mpi.rank()')


def d5_fallback(ck):
    rule = 'C14.D5.serial-fallback'
    ut = ck.repo.mod(UT)
    dc = ut.classes.get('DummyComm')
    dm = ut.classes.get('dummy_mpi4py')
    if dc is None or dm is None:
        raise AnalysisIncomplete('DummyComm / dummy_mpi4py not found')
    have_c = {f.name for f in dc.body if isinstance(f, ast.FunctionDef)}
    have_m = {f.name for f in dm.body if isinstance(f, ast.FunctionDef)} | {t for s in dm.body if isinstance(s, ast.Assign) for t in target_names(s.targets[0])}
    n = 0
    for rel in (OPS, IO, KC, KM, HY, CU, APP):
        mod = ck.repo.mod(rel)
        for q, fn in mod.functions.items():
            fi = None
            for c in walk_local(fn):
                if isinstance(c, ast.Attribute):
                    d = dotted(c) or ''
                    parts = d.split('.')
                    attr = owner = None
                    if len(parts) >= 3 and parts[-3:-1] == ['mpi', 'comm']:
                        attr, owner = parts[-1], 'comm'
                    elif len(parts) >= 3 and parts[-3:-1] == ['mpi', 'mpi4py']:
                        attr, owner = parts[-1], 'mpi4py'
                    if attr is None:
                        continue
                    n += 1
                    have = have_c if owner == 'comm' else have_m
                    if attr in have:
                        ck.ok(rule, mod, c, d, 'defined on the serial fallback')
                        continue
                    # reachable with size()==1 ?  look for a dominating `if mpi.size() == 1: return`
                    fi = fi or finfo(mod, fn)
                    st = fi.stmt(c)
                    guards = [g for g in fn.body if isinstance(g, ast.If) and u(g.test) in ('mpi.size() == 1', '1 == mpi.size()') and
                              any(isinstance(x, ast.Return) for x in g.body) and fn.body.index(g) < (fn.body.index(_top(mod, fn, st)) if _top(mod, fn, st) in fn.body else -1)]
                    ck.check(bool(guards), rule, mod, c, q, d,
                             'not on the fallback, but unreachable when size() == 1 (early return)',
                             '`%s` is used on a path that runs with a single rank, but the serial fallback (%s in mpi/util.py) '
                             'does not define `%s`: enspara without MPI fails with AttributeError' % (d, 'DummyComm' if owner == 'comm' else 'dummy_mpi4py', attr))
    ck.floor(rule, n, 15, 'mpi.comm / mpi.mpi4py attribute uses')
    # DummyComm.bcast root must be 0; callers with size()==1 pass root 0 or loop rank 0
    init = ck.repo.mod(INIT)
    handlers = [h for t in init.tree.body if isinstance(t, ast.Try) for h in t.handlers
                if h.type is not None and 'ImportError' in u(h.type) or h.type is None]
    ok = False
    node = None
    for h in handlers:
        consts = {}
        imports = {}
        for st in ast.walk(h):
            if isinstance(st, ast.FunctionDef) and len(st.body) >= 1 and isinstance(st.body[-1], ast.Return):
                consts[st.name] = const_value(st.body[-1].value)
            if isinstance(st, ast.Assign) and isinstance(st.value, ast.Lambda) and isinstance(st.targets[0], ast.Name):
                consts[st.targets[0].id] = const_value(st.value.body)
            if isinstance(st, ast.ImportFrom) and (st.module or '').endswith('util'):
                for a in st.names:
                    imports[a.asname or a.name] = a.name
        node = h
        if consts.get('rank') == 0 and consts.get('size') == 1 and imports.get('comm') == 'DummyComm' and imports.get('mpi4py') == 'dummy_mpi4py':
            ok = True
            break
    ck.check(ok, rule + '.wiring', init, node, 'enspara.mpi', 'ImportError handler of enspara/mpi/__init__.py',
             'without mpi4py: rank() == 0, size() == 1, comm = DummyComm, mpi4py = dummy_mpi4py',
             'the ImportError handler must define rank() -> 0, size() -> 1 and bind comm / mpi4py to DummyComm / dummy_mpi4py of mpi/util.py')


def _top(mod, fn, st):
    cur = st
    par = mod.parent.get(cur)
    while par is not None and par is not fn:
        cur = par
        par = mod.parent.get(cur)
    return cur


def d6_nullness(ck):
    rule = 'C14.D6.checked-none-then-used'
    mod = ck.repo.mod(KM)
    fn = mod.func('_kmedoids_inputs_tree_mpi')
    ck.analysed(mod, fn)
    fi = finfo(mod, fn)
    IN, OUT = nullness.run(fi, {})
    n = 0
    for s in fi.cfg.nodes:
        if s in (ENTRY, EXIT) or isinstance(s, Assume):
            continue
        st = IN.get(s)
        if st is None:
            continue
        from ..cfg import header_exprs
        for e in header_exprs(s):
            for x in walk_expr(e):
                if isinstance(x, ast.Attribute) and isinstance(x.value, ast.Name) and isinstance(x.ctx, ast.Load):
                    n += 1
                    if st.get(x.value.id) == nullness.NONE:
                        ck.bad(rule, mod, s, '_kmedoids_inputs_tree_mpi', u(s)[:120],
                               '`%s` is known to be None on this path (it was just tested `is None`) and `%s` is used on it: '
                               'AttributeError - the MPI cold start cannot work' % (x.value.id, u(x)))
                if isinstance(x, ast.Subscript) and isinstance(x.value, ast.Name) and st.get(x.value.id) == nullness.NONE:
                    n += 1
                    ck.bad(rule, mod, s, '_kmedoids_inputs_tree_mpi', u(s)[:120], '`%s` is None on this path and is subscripted' % x.value.id)
    ck.ok(rule, mod, fn, '_kmedoids_inputs_tree_mpi: %d attribute/subscript uses checked' % n, 'nullness dataflow')
    ar = [c for c in calls_in(fn) if call_name(c) == 'np.arange' and c.args and u(c.args[0]) == 'X']
    for c in ar:
        ck.bad(rule + '.arange', mod, c, '_kmedoids_inputs_tree_mpi', u(c), 'np.arange(X) is given the data array instead of its length: TypeError on the same cold-start path')


def d8_reductions(ck):
    rule = 'C14.D8.reductions'
    mod = ck.repo.mod(OPS)
    fn = mod.func('striped_array_mean')
    ck.analysed(mod, fn)
    fi = finfo(mod, fn)
    r = [x for x in returns_of(fn) if u(x.value) == 'global_sum / global_len']
    ck.check(len(r) == 1, rule, mod, r[0] if r else fn, 'striped_array_mean', 'return global_sum / global_len', 'mean = global sum / global count', 'the striped mean must be global_sum / global_len')
    for g, loc in (('global_sum', 'local_sum'), ('global_len', 'local_len')):
        ds = [s for s in assigns_to(fn, g) if isinstance(s, ast.Assign) and isinstance(s.value, ast.Call) and collective_name(s.value)]
        alld = [s for s in assigns_to(fn, g) if isinstance(s, ast.Assign)]
        last = alld[-1] if alld else None
        ok = len(ds) == 1 and last is ds[0] and collective_name(ds[0].value) == 'allreduce' and u(ds[0].value.args[0]) == loc and \
            u(kwarg(ds[0].value, 'op')) == 'mpi.mpi4py.SUM'
        ck.check(ok, rule, mod, last or fn, 'striped_array_mean', u(last) if last is not None else g,
                 '%s = allreduce(%s, SUM)' % (g, loc),
                 '`%s` must be the all-reduced SUM of `%s` over all ranks: deriving it locally (e.g. %s * mpi.size()) is '
                 'only right when every rank holds the same number of elements' % (g, loc, loc))
    ls = [s for s in assigns_to(fn, 'local_sum') if isinstance(s, ast.Assign)]
    ll = [s for s in assigns_to(fn, 'local_len') if isinstance(s, ast.Assign)]
    ok = len(ls) == 1 and u(ls[0].value) == C('np.sum(%s)' % params(fn)[0]) and len(ll) == 1 and u(ll[0].value) == 'len(%s)' % params(fn)[0]
    ck.check(ok, rule, mod, ls[0] if ls else fn, 'striped_array_mean', '%s ; %s' % (u(ls[0]) if ls else '?', u(ll[0]) if ll else '?'), 'local sum and local count of the same array', 'local_sum/local_len must be np.sum/len of the local array')
    fm = mod.func('striped_array_max')
    ck.analysed(mod, fm)
    gm = [s for s in walk_local(fm) if isinstance(s, ast.Assign) and isinstance(s.value, ast.Call) and collective_name(s.value) == 'allreduce']
    ok = len(gm) == 1 and u(gm[0].value.args[0]) == 'local_max' and u(kwarg(gm[0].value, 'op')) == 'mpi.mpi4py.MAX'
    lm = [s for s in assigns_to(fm, 'local_max') if isinstance(s, ast.Assign)]
    ok = ok and len(lm) == 1 and u(lm[0].value) in CS('%s.max()' % params(fm)[0], 'np.max(%s)' % params(fm)[0])
    r = returns_of(fm)
    ok = ok and len(r) == 1 and u(r[0].value) == u(gm[0].targets[0])
    ck.check(ok, rule, mod, gm[0] if gm else fm, 'striped_array_max', u(gm[0]) if gm else '?', 'global max = allreduce(local max, MAX)', 'the striped max must be allreduce(local_array.max(), op=MAX)')
    # _msq uses the striped mean
    mk = ck.repo.mod(KM)
    f = mk.func('_msq')
    r = returns_of(f)
    ck.check(len(r) == 1 and u(r[0].value) == 'mpi.ops.striped_array_mean(np.square(x))', rule + '.cost', mk, r[0] if r else f, '_msq', u(r[0]) if r else '?',
             'k-medoids cost = global mean of squared distances (uniform on all ranks)', 'the default cost must be the striped (global) mean of squared distances')
    # kcenters maxdist in MPI mode
    kc = ck.repo.mod(KC)
    f = kc.func('kcenters')
    md = [s for s in assigns_to(f, 'maxdist') if isinstance(s, ast.Assign)]
    ok = len(md) == 2 and all(isinstance(s.value, ast.IfExp) and u(s.value.test) == 'mpi_mode' and u(s.value.body) == 'mpi.ops.striped_array_max(distances)' for s in md)
    ck.check(ok, rule + '.stop-test', kc, md[0] if md else f, 'kcenters', '; '.join(u(s) for s in md)[:200],
             'the stopping radius is the GLOBAL maximum in MPI mode (same on every rank)', 'in MPI mode maxdist must be the all-reduced maximum on every evaluation')


def check(ck):
    res, ea = shared(ck.repo)
    spmd = SPMD(ck.repo, res, None)
    d1_matching(ck, spmd)
    d2_roots(ck)
    d3_striping(ck)
    d4_pairs(ck)
    d5_fallback(ck)
    d6_nullness(ck)
    d_striped(ck)
    d8_reductions(ck)
    kc = ck.repo.mod(KC)
    check_running_min_commit(ck, 'C14.D9.commit', kc, '_kcenters_iteration_mpi', True, 'len-before-append')
    from .C02 import d1_farthest
    d1_farthest(ck)
    ck.assume('SPMD calling convention: every rank calls the library with the same kind of arguments '
              '(None-ness, flags, replicated parameters as listed in the uniformity table)')
    ck.assume('a user-supplied k-medoids cost callable returns a rank-uniform value (the default _msq is all-reduced)')
    return EXPLANATION

"""C14 MPI: collective matching (SPMD uniformity), owner/root agreement,
striping convention, pair orientation, serial fallback completeness,
reductions, nullness of the cold-start branch."""
import ast
import copy

from .. import nullness
from ..cfg import ENTRY, EXIT, Assume, header_exprs
from ..core import (AnalysisIncomplete, call_name, const_value, dotted, kwarg,
                    names_loaded, params, target_names, u, walk_expr,
                    walk_local)
from ..patterns import (Cmp, assigns_to, calls_in, conjuncts, finfo,
                        returns_of, shared, subscript_stores)
from ..spmd import SPMD, collective_name
from .cluster_common import KC, KM, HY, CU, check_running_min_commit
from .C15 import d_striped
from ..match import C, canon, _NEUTRAL
from ..match import classify as _classify
from ..normal import PURE_FUNCS, PURE_METHODS, IMPURE_NP

OPS = 'enspara/mpi/ops.py'
IO = 'enspara/mpi/io.py'
INIT = 'enspara/mpi/__init__.py'
UT = 'enspara/mpi/util.py'
APP = 'enspara/apps/cluster.py'

# A.2 uniformity table: parameters holding rank-LOCAL data (everything else
# is replicated on every rank by the SPMD calling convention)
LOCAL_PARAMS = {
    (KC, 'kcenters'): ['traj'],
    (KC, '_kcenters_iteration_mpi'): ['traj', 'distances', 'assignments'],
    (KC, '_kcenters_iteration'): ['traj', 'distances', 'assignments'],
    (OPS, 'distribute_frame'): ['data'],
    (OPS, 'randind'): ['local_array'],
    (OPS, 'striped_array_max'): ['local_array'],
    (OPS, 'striped_array_mean'): ['local_array'],
    (OPS, 'assemble_striped_array'): ['local_arr'],
    (OPS, 'assemble_striped_ragged_array'): ['local_array'],
    (OPS, 'convert_local_indices'): [],
    (IO, 'load_h5_as_striped'): [],
    (IO, 'load_npy_as_striped'): [],
    (IO, 'load_trajectory_as_striped'): [],
    (KM, 'kmedoids'): ['X', 'assignments', 'distances'],
    (KM, '_kmedoids_inputs_tree_mpi'): ['X', 'assignments', 'distances'],
    (KM, '_kmedoids_iterations'): ['X', 'assignments', 'distances'],
    (KM, '_kmedoids_pam_update'): ['X', 'assignments', 'distances'],
    (KM, '_propose_new_center_amongst'): ['X', 'state_inds'],
    (KM, '_msq'): ['x'],
    (KM, 'ctr_ids_mpi'): [],
    (HY, 'hybrid'): ['X'],
    (APP, 'main'): [],
    (CU, 'load_features'): [],
    (CU, 'load_trajectories'): [],
    (CU, 'load_trjs_or_features'): [],
}
# thin wrappers (estimator methods / aliases) that only forward to a function
# of the table
WRAPPERS = {(HY, 'KHybrid.fit'), (KC, 'KCenters.fit'), (KC, 'kcenters_mpi'), (KM, 'KMedoids.fit')}
# names that are rank-local although not parameters
LOCAL_NAMES = {(APP, 'main'): ['data', 'local_dists', 'local_assigs'],
               (KC, 'kcenters'): ['assignments', 'distances']}

EXPLANATION = (
    'Static SPMD analysis (the MPI code cannot be executed in this sandbox at '
    'all). Constructs are located by ROLE (the buffer of the Bcast, the '
    'definitions that reach it, the array that is returned, the value '
    'compared in the loop test, the two names a pair is unpacked into) and '
    'compared after expansion of temporaries, under the path condition the '
    'CFG gives (dominating branch assumptions), so renamed locals, extracted '
    'or inlined temporaries, flipped comparisons, inverted branches and guard '
    'clauses do not matter; an unrecognised shape is reported as incomplete, '
    'never as a violation. (D1) no collective (mpi.comm.* call or package '
    'function that transitively contains one, helpers defined inside a '
    'function included) is control-dependent on a rank-divergent condition '
    'unless both branches issue the same collective sequence with the same '
    'root; no return under a divergent condition is followed, on the other '
    'branch, by a collective; loops containing collectives have rank-uniform '
    'trip counts - the loop condition being the test of the `while` together '
    'with the guard clauses `if not c: break` at the head of its body, and any '
    'other `break` out of such a loop must sit under a rank-uniform condition '
    '(uniformity taint from mpi.rank() and the rank-local '
    'parameters of a frozen table, cleared by allreduce/allgather/bcast '
    'results; a function with collectives that is not in the table makes the '
    'analysis incomplete - except private helpers: one that the front end '
    'inlined into every caller is analysed there, one that is still called '
    'gets its rank-local parameters from its call sites); the taint is '
    'closed under in-place updates of local objects; an argument the table '
    'declares replicated is never updated in place with a rank-divergent '
    'value and the root of every rooted collective (also through '
    'distribute_frame\'s owner_rank) is rank-uniform - both decided on the '
    'definitions that reach the use, three-valued: divergent through pure '
    'operations only = violation, through an opaque helper = incomplete; '
    '(D2) a conditional expression defining the buffer counts as a branch; '
    'the rank that fills the broadcast buffer with '
    'data[world_index] is the Bcast root, the others allocate a receive '
    'buffer, the Bcast is unconditional and an owner >= size() is rejected; '
    'reassembly roots equal the stripe offset, ragged reassembly cuts rank '
    'r\'s data by global_lengths[r::size] and keeps the single-trajectory '
    'special case; (D3) every striping site uses x[r::size] with size = '
    'mpi.size() and r = rank / loop rank / id % size / owner component of a '
    'pair, the local trajectory id is id // size; (D4) (owner_rank, '
    'local_index) pairs are produced and consumed in that order '
    '(convert_local_indices, randind and its rank table and broadcast draw, '
    'every distribute_frame call fed by a pair, the pairs built next to such a '
    'call, ctr_ids_mpi, the local-centre filter of kmedoids); every return of '
    'randind reads the rank table - an arithmetic shortcut (g % size, g // size) '
    'is accepted only where the path condition makes all per-rank counts equal; '
    'a rank-local array is subscripted with the owner-local index of a pair only '
    'under mpi.rank() == <owner of that pair>; (D5) every '
    'mpi.comm / mpi.mpi4py attribute reachable when size() == 1 exists on the '
    'serial fallback classes; (D6) the MPI cold-start branch does not use a '
    'value it has just tested to be None (known finding); (D7) striped '
    'loaders return strided lengths; (D8) striped reductions derive every '
    'global quantity from an allreduce (with the right operator) over the '
    'matching local quantity, the k-medoids cost is the striped mean of the '
    'squares and the k-centers stopping radius is the striped max in MPI mode '
    'at every definition that reaches the loop test; plus the strict '
    'running-minimum commit of the MPI k-centers iteration and the rules of '
    'the serial distance update (triangle-inequality shortcut, plain branch, '
    'candidate copy) applied to it. Fifth wave: (mode dispatch) the arm of a '
    'mode test (mpi_mode / mpi.size() > 1 / == 1) taken with several ranks is '
    'the one that communicates, and a world-size comparison decided by '
    'size() >= 1 leaves no implementation dead; the app hands the reassembly '
    'routines (rank-local field of the result, global lengths) in this order and '
    'stores each reassembled field under its own name; a value bound on one '
    'rank only is read only there; assertions and rejections evaluated on every '
    'rank admit a rank that owns nothing, every drawable (owner, index), '
    'global sum >= local term, equal lengths of the per-frame arrays; a '
    'per-file option is striped exactly when it is given. Equality with the '
    'serial run for every world size is not decided.')


# ---------------------------------------------------------------------------
# helpers: expansion of temporaries with the purity notion of the MPI layer
# (mpi.size()/mpi.rank() are run-time constants, RaggedArray construction and
# ra.where build fresh objects), path conditions from the CFG, role finders

_PURE_CALLS = {'mpi.size', 'mpi.rank', 'ra.RaggedArray', 'RaggedArray', 'ra.where'}
_SWAP = {'<': '>', '>': '<', '<=': '>=', '>=': '<=', '==': '==', '!=': '!='}
_GLOBALS = {'np', 'numpy', 'mpi', 'ra', 'math', 'util'}


def _pure(e):
    """normal.is_pure, plus the calls of _PURE_CALLS."""
    for n in ast.walk(e):
        if isinstance(n, (ast.Yield, ast.YieldFrom, ast.Await, ast.NamedExpr, ast.Lambda)):
            return False
        if isinstance(n, ast.Call):
            cn = call_name(n) or ''
            if cn in _PURE_CALLS:
                continue
            if isinstance(n.func, ast.Name):
                if n.func.id not in PURE_FUNCS:
                    return False
            elif isinstance(n.func, ast.Attribute):
                if cn.startswith(('np.', 'numpy.', 'scipy.', 'math.')):
                    if cn in IMPURE_NP or '.random.' in cn:
                        return False
                elif n.func.attr not in PURE_METHODS:
                    return False
            else:
                return False
    return True


def unpack_source(fi, name, here):
    """`a, b = <value>` (value not a tuple display): for the use of `a` at
    statement `here` return (value, position, site), else None."""
    defs = fi.rd.defs_at(here, name)
    if len(defs) != 1:
        return None
    site = next(iter(defs))
    if not isinstance(site, ast.Assign) or len(site.targets) != 1:
        return None
    t = site.targets[0]
    if isinstance(t, (ast.Tuple, ast.List)) and not isinstance(site.value, (ast.Tuple, ast.List)) and \
            all(isinstance(x, ast.Name) for x in t.elts):
        ids = [x.id for x in t.elts]
        if ids.count(name) == 1:
            return site.value, ids.index(name), site
    return None


def _temp(fi, name, here, strict):
    """(defining expression, definition site) if the use of `name` at
    statement `here` denotes a temporary: exactly one reaching definition
    `name = <pure expression>` (or a component of an unpacked pure call) and
    the object is never mutated in place."""
    defs = fi.rd.defs_at(here, name)
    if len(defs) != 1:
        return None
    site = next(iter(defs))
    if site in ('PARAM', 'UNBOUND') or not isinstance(site, (ast.Assign, ast.AnnAssign)):
        return None
    v = fi.def_value(site, name)
    if v is None:
        us = unpack_source(fi, name, here)
        if us is not None and isinstance(us[0], ast.Call):
            v = ast.Subscript(value=us[0], slice=ast.Constant(value=us[1]), ctx=ast.Load())
    if v is not None and not _pure(v) and any(isinstance(x, ast.Call) and isinstance(x.func, ast.Name) and x.func.id.startswith('_') for x in ast.walk(v)):
        # the only impure-looking part may be a call of a straight-line pure private helper: read it as the value it returns
        v = see_through_value_helpers(fi, copy.deepcopy(v))
    if v is None or isinstance(v, ast.GeneratorExp) or not _pure(v):
        return None
    if fi._mutated_in_place(name):
        return None
    return v, site


def _comp_bound(e):
    out = set()
    for x in ast.walk(e):
        if isinstance(x, ast.comprehension):
            out.update(target_names(x.target))
    return out


def expand(fi, e, here=None, stop=(), strict=True, depth=10):
    """Copy of `e` with every temporary replaced by its definition,
    recursively.  Unlike FuncInfo.expand the operands of a definition are
    expanded in the context of the DEFINITION site, so chains through a
    re-bound name (`a, b = f(x); a, b = a[0], b[0]`) are followed; a name
    that remains in the result must have the same reaching definitions (and,
    with strict, no in-place mutation of its object) at the definition site
    and at the use, otherwise the temporary is left alone."""
    here = here if here is not None else fi.stmt(e)
    stop = set(stop)

    def leaves_ok(sub, site, use, bound):
        for m in ast.walk(sub):
            if not (isinstance(m, ast.Name) and getattr(m, '_at', None) is site) or m.id in bound:
                continue
            if fi.rd.defs_at(site, m.id) != fi.rd.defs_at(use, m.id):
                return False
            if strict:
                for ms in fi._mutated_in_place(m.id):
                    if ms is use or ms is site:
                        continue
                    if fi.cfg.reachable(site, ms, avoiding=[use]) and fi.cfg.reachable(ms, use, avoiding=[site]):
                        return False
        return True

    def ex(x, d, bound, at):
        if isinstance(x, ast.Name):
            if d > 0 and isinstance(x.ctx, ast.Load) and x.id not in stop and x.id not in bound:
                t = _temp(fi, x.id, at, strict)
                if t is not None:
                    v, site = t
                    sub = ex(v, d - 1, bound | _comp_bound(v), site)
                    if leaves_ok(sub, site, at, bound | _comp_bound(v)):
                        for m in ast.walk(sub):
                            if isinstance(m, ast.Name) and getattr(m, '_at', None) is site:
                                m._at = at
                        return sub
            new = ast.copy_location(ast.Name(id=x.id, ctx=x.ctx), x)
            new._at = at
            return new
        if not isinstance(x, ast.AST):
            return x
        if isinstance(x, (ast.expr_context, ast.operator, ast.unaryop, ast.boolop, ast.cmpop)):
            return x
        new = type(x)()
        for f in x._fields:
            val = getattr(x, f, None)
            if isinstance(val, list):
                setattr(new, f, [ex(y, d, bound, at) for y in val])
            elif isinstance(val, ast.AST):
                setattr(new, f, ex(val, d, bound, at))
            else:
                setattr(new, f, val)
        for a in ('lineno', 'col_offset', 'end_lineno', 'end_col_offset'):
            if hasattr(x, a):
                setattr(new, a, getattr(x, a))
        return new
    return see_through_value_helpers(fi, ex(e, depth, _comp_bound(e), here))


# A call `_h(args)` of a module-level private helper whose body is straight
# line - bindings `t = <pure expression>` of distinct fresh names followed by
# one `return <expression>` - denotes the returned expression with the helper's
# temporaries forward substituted and the parameters replaced by the arguments.
# (The front end inlines such helpers only at statement level; as an operand of
# a larger expression the call reaches the rules.)  Refused - the call is left
# alone - whenever the substitution could change the value: decorated /
# generator / star-args helpers, a parameter that is rebound, an impure
# argument whose parameter is read more than once, a free name of the helper
# that is a local of the caller, a comprehension variable that would capture a
# name of an argument, recursion.

def _value_helper(mod, name):
    """(params, defaults, {temp: expression} in binding order, returned
    expression) of the straight-line pure helper `name` of `mod`, or None."""
    memo = mod.__dict__.setdefault('_c14_value_helpers', {})
    if name in memo:
        return memo[name]
    memo[name] = None
    if not name.startswith('_') or name.startswith('__'):
        return None
    defs = [s for s in mod.tree.body if isinstance(s, (ast.FunctionDef, ast.AsyncFunctionDef)) and s.name == name]
    others = [s for s in mod.tree.body if not isinstance(s, ast.FunctionDef) and name in {
        x.id for x in ast.walk(s) if isinstance(x, ast.Name) and isinstance(x.ctx, ast.Store)}]
    if len(defs) != 1 or others or not isinstance(defs[0], ast.FunctionDef):
        return None
    h = defs[0]
    a = h.args
    if h.decorator_list or a.vararg or a.kwarg or a.posonlyargs or a.kwonlyargs:
        return None
    body = [s for s in h.body if not (isinstance(s, ast.Expr) and isinstance(s.value, ast.Constant)) and not isinstance(s, ast.Pass)]
    if not body or not isinstance(body[-1], ast.Return) or body[-1].value is None:
        return None
    ps = [x.arg for x in a.args]
    temps = {}
    for s in body[:-1]:
        if not (isinstance(s, ast.Assign) and len(s.targets) == 1 and isinstance(s.targets[0], ast.Name)):
            return None
        t = s.targets[0].id
        if t in temps or t in ps or not _pure(s.value) or isinstance(s.value, ast.GeneratorExp):
            return None
        temps[t] = s.value
    for x in ast.walk(h):
        if isinstance(x, (ast.Yield, ast.YieldFrom, ast.Await, ast.Lambda, ast.NamedExpr, ast.Global, ast.Nonlocal)):
            return None
        if isinstance(x, ast.Call) and isinstance(x.func, ast.Name) and x.func.id == name:
            return None
        if isinstance(x, ast.Name) and isinstance(x.ctx, ast.Store) and x.id in ps:
            return None
    # a temporary must not be shadowed by a comprehension variable of the helper
    bound = set()
    for s in body:
        bound |= _comp_bound(s)
    if bound & (set(temps) | set(ps)):
        return None
    defaults = dict(zip(ps[len(ps) - len(a.defaults):], a.defaults)) if a.defaults else {}
    memo[name] = (ps, defaults, temps, body[-1].value, bound)
    return memo[name]


class _SubstNames(ast.NodeTransformer):
    def __init__(self, sub):
        self.sub = sub

    def visit_Name(self, n):
        if isinstance(n.ctx, ast.Load) and n.id in self.sub:
            return copy.deepcopy(self.sub[n.id])
        return n


def _loads(e, name):
    return sum(1 for x in ast.walk(e) if isinstance(x, ast.Name) and x.id == name and isinstance(x.ctx, ast.Load))


def see_through_value_helpers(fi, e, depth=2):
    """`e` with every call of a straight-line pure private helper of the
    module replaced by the value the helper returns (see above)."""
    if depth <= 0 or not any(isinstance(x, ast.Call) and isinstance(x.func, ast.Name) and x.func.id.startswith('_') for x in ast.walk(e)):
        return e
    mod = fi.mod
    caller_locals = set(params(fi.fn)) | {x.id for x in ast.walk(fi.fn) if isinstance(x, ast.Name) and isinstance(x.ctx, ast.Store)}

    def value_of(call):
        vh = _value_helper(mod, call.func.id)
        if vh is None or call.func.id in caller_locals:
            return None
        ps, defaults, temps, ret, bound = vh
        if len(call.args) > len(ps) or any(isinstance(x, ast.Starred) for x in call.args) or any(k.arg is None for k in call.keywords):
            return None
        sub = dict(zip(ps, call.args))
        for k in call.keywords:
            if k.arg in sub or k.arg not in ps:
                return None
            sub[k.arg] = k.value
        for p in ps:
            if p not in sub:
                if p not in defaults:
                    return None
                sub[p] = defaults[p]
        # forward substitution of the helper's temporaries, in binding order
        env = {}
        for t, v in temps.items():
            env[t] = _SubstNames(env).visit(copy.deepcopy(v))
        val = _SubstNames(env).visit(copy.deepcopy(ret))
        arg_names = set()
        for p, av in sub.items():
            arg_names |= {x.id for x in ast.walk(av) if isinstance(x, ast.Name)}
            if not _pure(av) and _loads(val, p) > 1:
                return None
        if bound & arg_names:
            return None
        free = {x.id for x in ast.walk(val) if isinstance(x, ast.Name)} - set(ps) - bound
        if free & caller_locals:
            return None
        return ast.copy_location(_SubstNames(sub).visit(val), call)

    class See(ast.NodeTransformer):
        hit = False

        def visit_Call(self, node):
            self.generic_visit(node)
            if isinstance(node.func, ast.Name) and node.func.id.startswith('_'):
                v = value_of(node)
                if v is not None:
                    self.hit = True
                    return v
            return node
    tr = See()
    out = tr.visit(e)
    if not tr.hit:
        return out
    ast.fix_missing_locations(out)
    return see_through_value_helpers(fi, out, depth - 1)


class _NormCalls(ast.NodeTransformer):
    """positional -> keyword for the calls whose argument ROLES the rules
    compare (RaggedArray(array, lengths), distribute_frame(data, world_index,
    owner_rank), collectives (obj, root / op))."""
    SIG = {'ra.RaggedArray': ['array', 'lengths'], 'RaggedArray': ['array', 'lengths'],
           'mpi.comm.bcast': ['obj', 'root'], 'mpi.comm.Bcast': ['buf', 'root'],
           'mpi.comm.allreduce': ['sendobj', 'op']}

    def visit_Call(self, node):
        self.generic_visit(node)
        sig = self.SIG.get(call_name(node) or '')
        if sig and len(node.args) > 1 and not any(isinstance(a, ast.Starred) for a in node.args):
            extra = node.args[1:]
            node.args = node.args[:1]
            for nm, a in zip(sig[1:], extra):
                node.keywords.append(ast.keyword(arg=nm, value=a))
        return node


def norm(e):
    """canonical spelling + keyword normalisation (on a private copy)."""
    n = _NormCalls().visit(canon(e))
    ast.fix_missing_locations(n)
    return n


def xn(fi, e, here=None, **kw):
    return norm(expand(fi, e, here, **kw))


def xt(fi, e, here=None, **kw):
    """canonical text of the expanded expression."""
    return u(xn(fi, e, here, **kw))


def closed_over(node, scope):
    """`node` is a pure function (in the sense of _pure) of the names in
    `scope` and of module-level objects only: a different function of the
    same inputs in an already located role."""
    if not _pure(node):
        return False
    bound = _comp_bound(node)
    for x in ast.walk(node):
        if isinstance(x, ast.Name) and x.id not in scope and x.id not in _NEUTRAL and x.id not in _GLOBALS and x.id not in bound:
            return False
    return True


def ifexp_arms(e, depth=3):
    """The pure expression `e` as a decision list [(conds, value)] over the
    conditional expressions it contains: `f(A if c else B).g` is
    `f(A).g if c else f(B).g` (every context on the way is pure, so only the
    order in which sub-expressions are evaluated changes).  conds is a list
    of (test, polarity); an expression without a conditional - or an impure
    one - is returned as the single arm ([], e)."""
    if depth <= 0 or not _pure(e):
        return [([], e)]
    hit = None
    for x in ast.walk(e):          # breadth first: outermost conditional first
        if isinstance(x, (ast.ListComp, ast.SetComp, ast.DictComp, ast.GeneratorExp)):
            return [([], e)]       # a conditional inside a comprehension is evaluated per element
        if isinstance(x, ast.IfExp) and hit is None:
            hit = x
    if hit is None:
        return [([], e)]

    def repl(node, arm):
        if node is hit:
            return copy.deepcopy(arm)
        if not isinstance(node, ast.AST) or isinstance(node, (ast.expr_context, ast.operator, ast.unaryop, ast.boolop, ast.cmpop)):
            return node
        new = type(node)()
        for f in node._fields:
            val = getattr(node, f, None)
            if isinstance(val, list):
                setattr(new, f, [repl(y, arm) for y in val])
            else:
                setattr(new, f, repl(val, arm) if isinstance(val, ast.AST) else val)
        return ast.copy_location(new, node) if hasattr(node, 'lineno') else new
    out = []
    for arm, pol in ((hit.body, True), (hit.orelse, False)):
        v = repl(e, arm)
        ast.fix_missing_locations(v)
        for conds, w in ifexp_arms(v, depth - 1):
            out.append(([(hit.test, pol)] + conds, w))
    return out


def classify(node, patterns, scope):
    """match.classify with the MPI layer's purity: ('match', binds) /
    ('near', dist, pattern) for a pure function of the names in `scope` (and
    mpi.size()/mpi.rank()/constants) / ('far', ...) otherwise."""
    v = _classify(node, patterns)
    if v[0] == 'match':
        return v
    return ('near' if closed_over(norm(node), set(scope)) else 'far', v[1], v[2])


def path_atoms(fi, stmt):
    """Atomic conditions known to hold whenever `stmt` executes: the
    conjuncts of every branch assumption that dominates it in the CFG
    (nested ifs, both branch orders, guard clauses with early exit)."""
    out = []
    for a in fi.cfg.dom.get(stmt, ()):
        if isinstance(a, Assume):
            test = a.test
            if any(isinstance(x, ast.Name) for x in ([test] + (test.values if isinstance(test, ast.BoolOp) else []) +
                                                     ([test.operand] if isinstance(test, ast.UnaryOp) else []))):
                test = expand(fi, test, a.owner)       # named conditions (`i_own_it = mpi.rank() == owner`)
            cj = conjuncts(test, a.polarity)
            for c in (cj or []):
                out.append((c, a.owner))
    return out


def atom_rel(fi, c, a, b, owner):
    """relation R such that the atom asserts `a R b` (a, b canonical
    expanded texts), or None if the atom does not relate a and b."""
    if not isinstance(c, Cmp) or c.rel not in _SWAP:
        return None
    l, r = xt(fi, c.lhs, owner), xt(fi, c.rhs, owner)
    if (l, r) == (a, b):
        return c.rel
    if (l, r) == (b, a):
        return _SWAP[c.rel]
    return None


def int_range(fi, c, a, owner):
    """For an atom comparing the integer expression `a` with an integer
    constant: the (lo, hi) interval it asserts (None = unbounded); '!=' k is
    returned as ('ne', k).  None if the atom is something else."""
    if not isinstance(c, Cmp) or c.rel not in _SWAP:
        return None
    l, r = c.lhs, c.rhs
    rel = c.rel
    if isinstance(const_value(l), int) and not isinstance(const_value(l), bool):
        l, r, rel = r, l, _SWAP[rel]
    k = const_value(r)
    if not isinstance(k, int) or isinstance(k, bool) or xt(fi, l, owner) != a:
        return None
    return {'<': (None, k - 1), '<=': (None, k), '>': (k + 1, None), '>=': (k, None), '==': (k, k), '!=': ('ne', k)}[rel]


def _permits(rng, k):
    """does the interval / inequality returned by int_range admit the value k"""
    if rng[0] == 'ne':
        return rng[1] != k
    return (rng[0] is None or rng[0] <= k) and (rng[1] is None or k <= rng[1])


def is_size(fi, e, here=None):
    return e is not None and xt(fi, e, here) == 'mpi.size()'


def is_rank_range(fi, e, here=None):
    return e is not None and xt(fi, e, here) in ('range(mpi.size())', 'range(0, mpi.size())', 'range(0, mpi.size(), 1)')


def enclosing(mod, node, kinds, stop=None):
    p = mod.parent.get(node)
    while p is not None and p is not stop:
        if isinstance(p, kinds):
            return p
        p = mod.parent.get(p)
    return None


def inside(mod, node, anc):
    p = node
    while p is not None:
        if p is anc:
            return True
        p = mod.parent.get(p)
    return False


def arg(call, pos, name):
    """argument of a call by position or keyword."""
    if call is None:
        return None
    if len(call.args) > pos and not any(isinstance(a, ast.Starred) for a in call.args[:pos + 1]):
        return call.args[pos]
    return kwarg(call, name)


def value_call(fi, e, here=None):
    """(call, statement) the expression denotes: the expression itself, or
    the call at the end of a chain of single reaching definitions of a Name;
    (None, None) otherwise."""
    here = here if here is not None else fi.stmt(e)
    seen = 0
    while isinstance(e, ast.Name) and seen < 6:
        defs = fi.rd.defs_at(here, e.id)
        if len(defs) != 1:
            return None, None
        site = next(iter(defs))
        if site in ('PARAM', 'UNBOUND'):
            return None, None
        v = fi.def_value(site, e.id)
        if v is None:
            return None, None
        e, here, seen = v, site, seen + 1
    return (e, here) if isinstance(e, ast.Call) else (None, None)


def rank_loops(fi, fn):
    """(node, loop variable name) for every for-loop / comprehension
    generator over range(mpi.size())."""
    out = []
    for n in walk_local(fn):
        if isinstance(n, ast.For) and isinstance(n.target, ast.Name) and is_rank_range(fi, n.iter, n):
            out.append((n, n.target.id))
        if isinstance(n, (ast.ListComp, ast.GeneratorExp, ast.SetComp)):
            for g in n.generators:
                if isinstance(g.target, ast.Name) and is_rank_range(fi, g.iter, fi.stmt(n)):
                    out.append((n, g.target.id))
    return out


def pair_binders(mod, fn):
    """Every place where the elements of a sequence are unpacked into exactly
    two names: `for a, b in S` (also nested in enumerate: `for i, (a, b) in
    enumerate(S)`), comprehension generators, and `for p in S: a, b = p`.
    Returns [(scope node, (a, b), iterable expr)]."""
    out = []

    def two(t):
        return isinstance(t, (ast.Tuple, ast.List)) and len(t.elts) == 2 and all(isinstance(x, ast.Name) for x in t.elts)

    def binder(target, it, node):
        if two(target):
            if isinstance(it, ast.Call) and call_name(it) in ('enumerate', 'zip'):
                return
            out.append((node, (target.elts[0].id, target.elts[1].id), it))
        elif isinstance(target, (ast.Tuple, ast.List)) and len(target.elts) == 2 and two(target.elts[1]) and \
                isinstance(it, ast.Call) and call_name(it) == 'enumerate' and it.args:
            out.append((node, (target.elts[1].elts[0].id, target.elts[1].elts[1].id), it.args[0]))
        elif isinstance(target, ast.Name) and isinstance(node, ast.For):
            for s in node.body:
                if isinstance(s, ast.Assign) and len(s.targets) == 1 and two(s.targets[0]) and \
                        isinstance(s.value, ast.Name) and s.value.id == target.id:
                    out.append((node, (s.targets[0].elts[0].id, s.targets[0].elts[1].id), it))
    for n in walk_local(fn):
        if isinstance(n, ast.For):
            binder(n.target, n.iter, n)
        if isinstance(n, (ast.ListComp, ast.GeneratorExp, ast.SetComp)):
            for g in n.generators:
                binder(g.target, g.iter, n)
    return out


def collected(fi, fn, e, here):
    """The elements gathered into the list an expression denotes:
    `[elt for ... ]` or `L = []` filled by `L.append(elt)`.
    Returns [(elt, scope node)] (scope = comprehension / append statement)."""
    mod = fi.mod
    if isinstance(e, ast.ListComp):
        return [(e.elt, e)]
    if not isinstance(e, ast.Name):
        return []
    out = []
    for site in fi.rd.defs_at(here, e.id):
        v = fi.def_value(site, e.id) if site not in ('PARAM', 'UNBOUND') else None
        if isinstance(v, ast.ListComp):
            out.append((v.elt, v))
    for c in calls_in(fn):
        if isinstance(c.func, ast.Attribute) and c.func.attr == 'append' and isinstance(c.func.value, ast.Name) and \
                c.func.value.id == e.id and len(c.args) == 1:
            out.append((c.args[0], c))
    return out


def is_mpi_mode_test(t):
    """the test selects the MPI arm: the flag itself, or a world size > 1."""
    if isinstance(t, ast.Name) and t.id == 'mpi_mode':
        return True
    cj = conjuncts(t, True)
    if cj and len(cj) == 1 and isinstance(cj[0], Cmp) and cj[0].rel in _SWAP:
        c = cj[0]
        l, r, rel = c.lhs, c.rhs, c.rel
        if const_value(l) is not None:
            l, r, rel = r, l, _SWAP[rel]
        return u(l) == 'mpi.size()' and (rel, const_value(r)) in (('>', 1), ('!=', 1), ('>=', 2))
    return False


def _ctrl_text(ctrl):
    """canonical text of a loop condition (it is part of the construct key of
    a finding): a conjunction of orderings is written with `<` / `<=` only,
    negations pushed inwards, conjuncts in a fixed order."""
    cj = conjuncts(ctrl, True) if not isinstance(ctrl, ast.Call) else None
    if cj and all(isinstance(c, Cmp) and c.as_less() is not None for c in cj):
        parts = []
        for c in cj:
            small, strict, big = c.as_less()
            parts.append('%s %s %s' % (u(small), '<' if strict else '<=', u(big)))
        return ' and '.join(sorted(parts, reverse=True))
    return u(ctrl)


def _strip_noise(stmts):
    return [s for s in stmts if not isinstance(s, ast.Pass) and
            not (isinstance(s, ast.Expr) and isinstance(s.value, ast.Constant))]


def loop_continue_tests(loop):
    """The conditions ALL of which hold whenever the body proper of a loop
    runs, as [(test, polarity, owner statement)]: the test of a `while`
    (unless it is a true constant) and the guard clauses at the head of the
    body - `if c: break` (c false to go on), `if c: <rest> else: break`.
    `while True: if not A: break; if not B: break; S` has the trip count of
    `while A and B: S` (nothing is evaluated between the tests), so rules
    that speak about "the loop condition" look at this list."""
    out = []
    if isinstance(loop, ast.While) and not (isinstance(loop.test, ast.Constant) and loop.test.value in (True, 1)):
        out.append((loop.test, True, loop))

    def only_break(arm):
        arm = _strip_noise(arm)
        return len(arm) == 1 and isinstance(arm[0], ast.Break)

    def peel(stmts):
        stmts = _strip_noise(stmts)
        for k, st in enumerate(stmts):
            if not isinstance(st, ast.If):
                return
            body, orelse = _strip_noise(st.body), _strip_noise(st.orelse)
            if only_break(body) and not orelse:
                out.append((st.test, False, st))
                continue
            if only_break(orelse) and not body:
                out.append((st.test, True, st))
                continue
            if len(stmts) == k + 1:
                # the rest of the body IS the other arm
                if only_break(body) and orelse:
                    out.append((st.test, False, st))
                    peel(orelse)
                elif only_break(orelse) and body:
                    out.append((st.test, True, st))
                    peel(body)
            return
    peel(loop.body)
    return out


def loop_condition(loop):
    """one expression equivalent to loop_continue_tests (the iterable of a
    `for` when it has no guard clauses)."""
    parts = [t if pol else ast.UnaryOp(op=ast.Not(), operand=t) for t, pol, _ in loop_continue_tests(loop)]
    if isinstance(loop, ast.For):
        return loop.iter if not parts else None
    if not parts:
        return loop.test
    e = parts[0] if len(parts) == 1 else ast.BoolOp(op=ast.And(), values=parts)
    return ast.fix_missing_locations(ast.copy_location(e, loop))


def _own_breaks(mod, loop):
    """the `break` statements that leave `loop` (not an inner loop)."""
    return [b for b in ast.walk(loop) if isinstance(b, ast.Break) and enclosing(mod, b, (ast.For, ast.While, ast.AsyncFor)) is loop]


def d1_matching(ck, spmd):
    rule = 'C14.D1.collective-matching'
    n_sites = 0
    nu_of = {}
    for (rel, q), locs in LOCAL_PARAMS.items():
        n_sites += _d1_function(ck, spmd, rule, rel, q, locs, nu_of)
    ck.floor(rule, n_sites, 25, 'collective events (direct and through package functions)')
    _d1_completeness(ck, spmd, rule, nu_of)
    return nu_of


def _d1_function(ck, spmd, rule, rel, q, locs, nu_of):
    """Collective matching inside one function whose rank-local parameters
    are `locs`; returns the number of collective events found.  The taint set
    computed for it is left in nu_of[(rel, q)]."""
    mod = ck.repo.mod(rel)
    fn = mod.func(q)
    ck.analysed(mod, fn)
    from ..resolve import enclosing_class
    cls = enclosing_class(mod, fn)
    seeds = list(locs) + LOCAL_NAMES.get((rel, q), [])
    nu = spmd.nonuniform_names(mod, fn, seeds)
    nu, divergent_updates = _mutation_taint(spmd, mod, fn, cls, seeds, nu)
    # IfExp on mpi_mode: value uniform if the MPI arm is (handled by
    # removing names whose only tainted definitions are serial arms)
    for s in walk_local(fn):
        if isinstance(s, ast.Assign) and isinstance(s.value, ast.IfExp) and is_mpi_mode_test(s.value.test):
            if not spmd.expr_nonuniform(mod, fn, s.value.body, nu - set(target_names(s.targets[0])), cls):
                other = [x for x in walk_local(fn) if isinstance(x, (ast.Assign, ast.AugAssign)) and x is not s and
                         set(target_names(x.targets[0] if isinstance(x, ast.Assign) else x.target)) & set(target_names(s.targets[0]))]
                if all(isinstance(x, ast.Assign) and isinstance(x.value, ast.IfExp) and is_mpi_mode_test(x.value.test) and
                       not spmd.expr_nonuniform(mod, fn, x.value.body, nu - set(target_names(s.targets[0])), cls) for x in other):
                    nu -= set(target_names(s.targets[0]))
    helpers = {h.name: h for h in fn.body if isinstance(h, ast.FunctionDef)}

    def events(node, _spmd=spmd, _mod=mod, _fn=fn, _helpers=helpers, _cls=cls):
        """collective events of a block; a call of a helper defined
        inside this function, or of a function of the same module that is
        not in the uniformity table (an extracted helper; reported as
        incomplete below), contributes the helper's own events."""
        ev = _spmd.events(_mod, _fn, node)
        for n0 in (node if isinstance(node, list) else [node]):
            for c in ast.walk(n0):
                if not isinstance(c, ast.Call):
                    continue
                if isinstance(c.func, ast.Name) and c.func.id in _helpers and not inside(_mod, c, _helpers[c.func.id]):
                    ev = ev + _spmd.events(_mod, _fn, _helpers[c.func.id].body)
                    continue
                t = _spmd.res.resolve_call(_mod, c, _cls)
                if t is not None and t.kind == 'func' and t.rel == _mod.rel and (t.rel, t.qual) not in LOCAL_PARAMS and \
                        (t.rel, t.qual) not in WRAPPERS and _spmd.has_coll.get((t.rel, t.qual)) and (t.qual, '-') in ev:
                    k = ev.index((t.qual, '-'))
                    ev = ev[:k] + _spmd.events(_mod, _mod.functions[t.qual], _mod.functions[t.qual].body) + ev[k + 1:]
        return ev
    all_events = events(fn.body)
    nu_of[(rel, q)] = (nu, cls)
    if not all_events:
        ck.ok(rule, mod, fn, '%s: no collectives' % q, 'nothing to match')
        return 0
    _d1_replicated_state(ck, rule + '.replicated-state', mod, fn, q, divergent_updates)
    _d1_roots(ck, spmd, rule + '.roots', mod, fn, q, cls, nu, seeds)
    # (i) divergent if - in the function and in the helpers defined inside
    # it (a helper parameter is rank-local iff some call passes a
    # rank-local argument; closure variables keep their taint)
    scan = [(n0, nu) for n0 in walk_local(fn)]
    for h in helpers.values():
        nu_h = set(nu)
        for c in walk_local(fn):
            if isinstance(c, ast.Call) and isinstance(c.func, ast.Name) and c.func.id == h.name:
                for pn, a in zip(params(h), c.args):
                    if spmd.expr_nonuniform(mod, fn, a, nu, cls):
                        nu_h.add(pn)
                for k in c.keywords:
                    if k.arg and spmd.expr_nonuniform(mod, fn, k.value, nu, cls):
                        nu_h.add(k.arg)
        nu_h = spmd.nonuniform_names(mod, h, sorted(nu_h))
        scan += [(n0, nu_h) for n0 in walk_local(h)]
    for node, nun in scan:
        if isinstance(node, ast.If):
            div = spmd.expr_nonuniform(mod, fn, node.test, nun, cls)
            eb = events(node.body)
            ee = events(node.orelse)
            if not eb and not ee:
                continue
            if not div:
                ck.ok(rule, mod, node, 'if %s: collectives %s / %s' % (u(node.test)[:60], eb, ee), 'rank-uniform condition')
                continue
            ck.check(eb == ee, rule, mod, node, q, 'if %s: %s else: %s' % (u(node.test)[:80], eb, ee),
                     'rank-divergent branch, but both arms issue the same collective sequence with the same root',
                     'a collective is issued under the rank-divergent condition `%s` and the other arm does not issue the same '
                     'sequence (%s vs %s): ranks that take different arms wait for each other forever (deadlock) or '
                     'exchange mismatched messages' % (u(node.test)[:80], eb, ee))
        if isinstance(node, ast.IfExp):
            if spmd.expr_nonuniform(mod, fn, node.test, nun, cls):
                eb = events(node.body)
                ee = events(node.orelse)
                if eb or ee:
                    ck.check(eb == ee, rule, mod, node, q, u(node)[:120], 'same collectives in both arms',
                             'collective inside one arm of a rank-divergent conditional expression')
        if isinstance(node, (ast.For, ast.While)):
            ev = events(node.body)
            if not ev:
                continue
            # the loop condition: the test of the `while` together with the guard
            # clauses (`if not c: break`) at the head of the body
            guards = loop_continue_tests(node)
            ctrl = loop_condition(node)
            if ctrl is None:        # a `for` with guard clauses: the iterable and the guards are separate conditions
                ctrl = node.iter
            div = spmd.expr_nonuniform(mod, fn, ctrl, nun, cls)
            ck.check(not div, rule + '.loops', mod, node, q, '%s %s: collectives %s' % ('for' if isinstance(node, ast.For) else 'while', _ctrl_text(ctrl)[:80], ev[:4]),
                     'loop containing collectives has a rank-uniform trip count',
                     'the loop controlled by `%s` contains collectives %s but its trip count can differ between ranks: '
                     'some ranks leave the loop while others still wait in a collective' % (u(ctrl)[:80], ev[:3]))
            # every other way out of the loop: a `break` under a rank-divergent condition
            head = {id(o) for _, _, o in guards} if isinstance(node, ast.While) else set()
            _d1_breaks(ck, spmd, rule + '.loops', mod, fn, q, cls, node, nun, seeds, ev, head)
    # (ii) early return under divergent condition before a later collective:
    # the ranks that do NOT return go on (through the other branch of the
    # divergent test) to a collective outside that if-statement
    fi = finfo(mod, fn)

    def has_coll(st, _mod=mod, _cls=cls):
        for e in header_exprs(st):
            for c in walk_expr(e):
                if isinstance(c, ast.Call):
                    if collective_name(c):
                        return True
                    t = spmd.res.resolve_call(_mod, c, _cls)
                    if t is not None and t.kind == 'func' and spmd.has_coll.get((t.rel, t.qual)):
                        return True
        return False
    for r in [x for x in walk_local(fn) if isinstance(x, ast.Return)]:
        for a in fi.cfg.dom.get(r, ()):
            if not (isinstance(a, Assume) and spmd.expr_nonuniform(mod, fn, a.test, nu, cls)):
                continue
            opp = [x for x in fi.cfg.succ.get(a.owner, []) if isinstance(x, Assume) and x is not a]
            # a test inside a loop that the return is NOT part of: the ranks that take this
            # arm LEAVE that loop (guard clause `if not c: break` of a `while True`, a
            # `break` further down) and the others stay in it - the collectives of the loop
            # are a question of its trip count, decided by .loops (loop condition, breaks)
            left = []
            p = mod.parent.get(a.owner)
            while p is not None and p is not fn:
                if isinstance(p, (ast.For, ast.While, ast.AsyncFor)) and not inside(mod, r, p):
                    left.append(p)
                p = mod.parent.get(p)
            later = [st for st in fi.cfg.nodes if st not in (ENTRY, EXIT) and not isinstance(st, Assume) and not inside(mod, st, a.owner)
                     and not any(inside(mod, st, l) for l in left)
                     and has_coll(st) and any(fi.cfg.reachable(o, st) for o in opp)]
            ck.check(not later, rule + '.early-return', mod, r, q, u(r)[:80],
                     'no collective follows this rank-divergent return',
                     'a rank can return here (under `%s`) while the others go on to the collective at L%s' % (u(a.test)[:60], later[0].lineno if later else '?'))
    _d1_continues(ck, spmd, rule + '.loops', mod, fn, q, cls, fi, nu, seeds, has_coll)
    return len(all_events)


def _d1_continues(ck, spmd, rule, mod, fn, q, cls, fi, nu, seeds, has_coll):
    """The third way out of an ITERATION (next to `break` and `return`): a
    `continue` taken under a condition that differs between ranks skips, on
    the ranks that take it, every collective the rest of the loop body still
    issues in this iteration - the trip count stays the same, but the ranks no
    longer execute the same SEQUENCE of collectives.  For every `continue`
    and every rank-divergent branch assumption that dominates it from inside
    its loop: no statement with a collective is reachable, inside the loop
    and without passing the loop head again, from the opposite arm of that
    test.  (Collectives inside the other arm of the same `if` are matched arm
    against arm by the rule for divergent branches.)  Three-valued on the
    definitions that reach the test."""
    for c in [x for x in walk_local(fn) if isinstance(x, ast.Continue)]:
        loop = enclosing(mod, c, (ast.For, ast.While, ast.AsyncFor), stop=fn)
        if loop is None or c not in fi.cfg.dom:
            continue
        worst = None
        for a in fi.cfg.dom.get(c, ()):
            if not isinstance(a, Assume) or a.owner is loop or not inside(mod, a.owner, loop):
                continue
            opp = [x for x in fi.cfg.succ.get(a.owner, []) if isinstance(x, Assume) and x is not a]
            skipped = [st for st in fi.cfg.nodes if st not in (ENTRY, EXIT) and not isinstance(st, Assume) and st is not loop and
                       inside(mod, st, loop) and not inside(mod, st, a.owner) and has_coll(st) and
                       any(fi.cfg.reachable(o, st, avoiding=[loop]) for o in opp)]
            if not skipped:
                continue
            why = []
            lv = _nonuniform_here(spmd, mod, fn, fi, cls, a.test, a.owner, nu, seeds, why=why)
            if worst is None or lv > worst[0]:
                worst = (lv, a, skipped, why)
        if worst is None:
            continue
        lv, a, skipped, why = worst
        v = 'match' if not lv else ('near', 1, None) if lv == 2 else ('far', 1, None)
        ck.decide(v, rule, mod, c, q, 'continue under `%s` before the collective at L%s of the same iteration' % (u(a.test)[:80], skipped[0].lineno),
                  'the rest of the iteration (with its collectives) is skipped under a rank-uniform condition',
                  'the loop body issues collectives after this point (L%s: `%s`) and the iteration is abandoned by `continue` under the rank-divergent '
                  'condition `%s` (%s): the ranks that skip the rest of the iteration do not enter those collectives while the others wait in them '
                  '(deadlock, or a collective of iteration i is paired with one of iteration j)'
                  % (skipped[0].lineno, u(skipped[0]).split('\n')[0][:80], u(a.test)[:80], ' -> '.join(why[:4])))


def _d1_breaks(ck, spmd, rule, mod, fn, q, cls, loop, nu, seeds, ev, head):
    """A `break` out of a loop that contains collectives, taken under a
    condition that differs between ranks, gives the ranks different trip
    counts (the guard clauses at the head of the body are part of the loop
    condition and decided there).  Three-valued on the definitions that
    reach the test."""
    fi = finfo(mod, fn)
    for b in _own_breaks(mod, loop):
        if b not in fi.cfg.dom:
            continue
        for a in fi.cfg.dom.get(b, ()):
            if not isinstance(a, Assume) or id(a.owner) in head or a.owner is loop or not inside(mod, a.owner, loop):
                continue
            why = []
            lv = _nonuniform_here(spmd, mod, fn, fi, cls, a.test, a.owner, nu, seeds, why=why)
            v = 'match' if not lv else ('near', 1, None) if lv == 2 else ('far', 1, None)
            ck.decide(v, rule, mod, b, q, 'break under `%s` in the loop with collectives %s' % (u(a.test)[:80], ev[:3]),
                      'the loop is left under a rank-uniform condition',
                      'the loop contains collectives %s and is left by `break` under the rank-divergent condition `%s` (%s): some ranks leave '
                      'the loop while the others still wait in a collective' % (ev[:3], u(a.test)[:80], ' -> '.join(why[:4])))


_GROWING = {'append', 'extend', 'insert', 'update', 'add', 'setdefault', 'fill', 'put', 'itemset', 'appendleft', 'extendleft'}


def _inplace_updates(fi, fn):
    """In-place updates of the object bound to a plain name: `X[i] = v`,
    `X[i] op= v`, `X.a = v`, `X.append(v)` ...  Yields (statement, X,
    [expressions whose value ends up in X])."""
    from ..core import base_name
    for n in walk_local(fn):
        if isinstance(n, (ast.Assign, ast.AugAssign)):
            for t in (n.targets if isinstance(n, ast.Assign) else [n.target]):
                for t1 in (t.elts if isinstance(t, (ast.Tuple, ast.List)) else [t]):
                    if isinstance(t1, (ast.Subscript, ast.Attribute)) and base_name(t1) is not None:
                        idx = [x.slice for x in ast.walk(t1) if isinstance(x, ast.Subscript)]
                        yield n, base_name(t1), [n.value] + idx
        elif isinstance(n, ast.Call) and isinstance(n.func, ast.Attribute) and n.func.attr in _GROWING and isinstance(n.func.value, ast.Name):
            st = fi.stmt(n)
            if st is not None and (n.args or n.keywords):
                yield st, n.func.value.id, list(n.args) + [k.value for k in n.keywords]


def _sure_leaf(e, sure, bound):
    """a rank-divergent leaf (mpi.rank() or a name of `sure`) reaches the
    value of `e` through pure numpy / builtin operations only: no helper or
    method in between that could make the value uniform again."""
    def walk(x):
        if isinstance(x, ast.Call):
            cn = call_name(x) or ''
            if cn == 'mpi.rank' or cn.endswith('.Get_rank'):
                return True
            if collective_name(x) or cn in ('hasattr', 'callable', 'isinstance'):
                return False
            if not _pure(ast.Call(func=x.func, args=[], keywords=[])):
                return False
        if isinstance(x, ast.Compare) and len(x.ops) == 1 and isinstance(x.ops[0], (ast.Is, ast.IsNot)) and const_value(x.comparators[0]) is None and \
                isinstance(x.comparators[0], ast.Constant):
            return False
        if isinstance(x, ast.Name):
            return x.id in sure and x.id not in bound
        return any(walk(c) for c in ast.iter_child_nodes(x))
    return walk(e)


def _nonuniform_here(spmd, mod, fn, fi, cls, e, here, nu, seeds, _stack=frozenset(), why=None):
    """Flow-sensitive, three-valued refinement of SPMD.expr_nonuniform for
    the expression `e` evaluated at statement `here`: a name of the
    flow-insensitive taint set `nu` counts only if one of the definitions
    that REACH this use is rank-divergent (`idx = 0` / `idx =
    gathered[owner]` are uniform although some other statement binds the same
    name to a local value).  Returns 0 (uniform), 2 (divergent: a rank-local
    parameter / mpi.rank() reaches the value through pure operations only) or
    1 (possibly divergent: the taint passes through a helper, a method or a
    binding this analysis cannot see through).  `why` (a list) receives the
    chain of divergent definitions, source first."""
    why = why if why is not None else []
    bound = _comp_bound(e)
    really, sure = set(), set()
    for x in ast.walk(e):
        if not (isinstance(x, ast.Name) and isinstance(x.ctx, ast.Load) and x.id in nu) or x.id in really:
            continue
        if x.id in bound:
            really.add(x.id)
            continue
        level, note = 0, None
        for site in fi.rd.defs_at(here, x.id):
            if level == 2:
                break
            if site == 'UNBOUND':
                continue
            if site == 'PARAM' or not hasattr(site, 'lineno'):
                if x.id in seeds:
                    level, note = 2, '`%s` is a rank-local parameter' % x.id
                continue
            if x.id in seeds and x.id not in params(fn):
                level, note = 2, '`%s` is rank-local' % x.id       # declared rank-local by name
                continue
            key = (id(site), x.id)
            if key in _stack:
                continue
            v = fi.def_value(site, x.id)
            if v is None and isinstance(site, ast.Assign):
                v = site.value          # component of an unpacked value
            extra = []
            if v is None and isinstance(site, ast.AugAssign):
                v, extra = site.value, [site.target]
            if v is None and isinstance(site, (ast.For, ast.AsyncFor)):
                v = site.iter
            if v is None:
                level = max(level, 1)   # with-as, import, except-as, ...: keep the flow-insensitive answer
                continue
            sub = []
            lv = max(_nonuniform_here(spmd, mod, fn, fi, cls, y, site, nu, seeds, _stack | {key}, sub) for y in [v] + extra)
            if lv and isinstance(v, ast.Call) and not extra:
                # result of a private helper outside the uniformity table: look at what it returns
                us = unpack_source(fi, x.id, here) if fi.def_value(site, x.id) is None else None
                hl = _helper_result_level(spmd, mod, fn, fi, cls, v, site, nu, seeds, _stack | {key}, us[1] if us is not None and us[2] is site else None, sub)
                if hl is not None:
                    lv = hl
            if lv > level:
                level, note = lv, sub + ['`%s`' % u(site).split('\n')[0][:100]]
        if level:
            really.add(x.id)
            if level == 2:
                sure.add(x.id)
            for w in ([note] if isinstance(note, str) else (note or [])):
                if w not in why:
                    why.append(w)
    if not spmd.expr_nonuniform(mod, fn, e, really, cls):
        return 0
    return 2 if _sure_leaf(e, sure, bound) else 1


def _helper_result_level(spmd, mod, fn, fi, cls, call, here, nu, seeds, stack, component, why):
    """Uniformity level (0 / 1 / 2, see _nonuniform_here) of the value - or,
    with `component`, of that element of the result tuple - returned by a
    call of a private package function that is not in the uniformity table
    (an extracted helper): its parameters are rank-local where this call
    passes a rank-divergent argument, and the level is the worst over its
    return statements.  None if the callee is not such a helper."""
    t = spmd.res.resolve_call(mod, call, cls)
    if t is None or t.kind != 'func' or (t.rel, t.qual) in LOCAL_PARAMS or (t.rel, t.qual) in WRAPPERS or '<locals>' in t.qual:
        return None
    bare = t.qual.split('.')[-1]
    if not bare.startswith('_') or bare.startswith('__') or ('helper', t.rel, t.qual) in stack or len(stack) > 12:
        return None
    m2 = spmd.repo.modules.get(t.rel)
    f2 = m2.functions.get(t.qual) if m2 is not None else None
    if f2 is None or f2.args.vararg is not None or f2.args.kwarg is not None or f2.decorator_list or \
            any(isinstance(a, ast.Starred) for a in call.args) or any(k.arg is None for k in call.keywords) or \
            any(isinstance(n, (ast.Yield, ast.YieldFrom)) for n in walk_local(f2)):
        return None
    from ..resolve import enclosing_class
    ps = params(f2)
    if ps and ps[0] == 'self' and '.' in t.qual:
        ps = ps[1:]
    seeds2 = sorted({pn for pn, a in list(zip(ps, call.args)) + [(k.arg, k.value) for k in call.keywords]
                     if _nonuniform_here(spmd, mod, fn, fi, cls, a, here, nu, seeds, stack)})
    cls2 = enclosing_class(m2, f2)
    fi2 = finfo(m2, f2)
    nu2 = spmd.nonuniform_names(m2, f2, seeds2)
    rets = returns_of(f2)
    if not rets:
        return 0
    level = 0
    for r in rets:
        v = r.value
        if v is None:
            continue
        if component is not None:
            if not (isinstance(v, ast.Tuple) and component < len(v.elts) and not any(isinstance(x, ast.Starred) for x in v.elts)):
                v = r.value         # not a tuple display: the whole value decides
            else:
                v = v.elts[component]
        sub = []
        lv = _nonuniform_here(spmd, m2, f2, fi2, cls2, v, r, nu2, seeds2, stack | {('helper', t.rel, t.qual)}, sub)
        if lv > level:
            level = lv
            why[:] = sub + ['`%s` in %s' % (u(r).split('\n')[0][:80], t.qual)]
    return level


def _mutation_taint(spmd, mod, fn, cls, seeds, nu):
    """Closure of the uniformity taint under in-place updates: a local
    object that receives a rank-divergent value (`buf[i] = <local>`,
    `lst.append(<local>)`) is rank-divergent from then on.  A parameter that
    the uniformity table declares REPLICATED is the caller's object: updating
    it with a divergent value is not a taint but a breach of the convention;
    those updates are returned as [(statement, name, (expression, chain of
    divergent definitions, 2 = divergent / 1 = possibly divergent))] (and the
    uniform ones as (statement, name, None))."""
    fi = finfo(mod, fn)
    # (*args / **kwargs are fresh objects of this call, not the caller's)
    ps = set(params(fn)) - {a.arg for a in (fn.args.vararg, fn.args.kwarg) if a is not None}
    breaches = []
    for _ in range(6):
        changed = False
        breaches = []
        for st, X, exprs in _inplace_updates(fi, fn):
            if X in nu:
                continue
            replicated = X in ps and X not in seeds and 'PARAM' in fi.rd.defs_at(st, X)
            why = []
            div = sorted(((_nonuniform_here(spmd, mod, fn, fi, cls, e, st, nu, seeds, why=why), i) for i, e in enumerate(exprs)), reverse=True)
            div = [(exprs[i], lv) for lv, i in div if lv]
            if replicated:
                breaches.append((st, X, (div[0][0], why, div[0][1]) if div else None))
            elif div:
                nu = spmd.nonuniform_names(mod, fn, sorted(set(nu) | {X}))
                changed = True
        if not changed:
            break
    return nu, breaches


def _d1_replicated_state(ck, rule, mod, fn, q, updates):
    """A function that communicates (MPI-mode code) must keep the arguments
    that are replicated on every rank replicated: the (owner, index) list of
    centres, the list of centre coordinates, ... are read by every rank as
    global facts."""
    seen = set()
    for st, X, e in updates:
        if (id(st), X) in seen:
            continue
        seen.add((id(st), X))
        v = 'match' if e is None else ('near', 1, None) if e[2] == 2 else ('far', 1, None)
        ck.decide(v, rule, mod, st, q, u(st)[:160],
                  'the replicated argument `%s` is updated in place with a rank-uniform value' % X,
                  '`%s` is replicated on every rank (SPMD convention of %s), but this statement updates it in place with the rank-LOCAL value `%s` '
                  '(%s; no collective in between): afterwards the ranks disagree on `%s`, e.g. on the '
                  '(owner, index) pairs naming the centres' % (X, q, u(e[0])[:100] if e is not None else '', ' -> '.join(e[1][:4]) if e is not None else '', X))


def _root_of(c):
    """the root argument of a rooted collective call (None: default root 0 /
    not a rooted collective)."""
    cn = collective_name(c)
    if cn in ('bcast', 'Bcast', 'gather', 'Gather', 'scatter', 'Scatter'):
        return arg(c, 1, 'root')
    if cn in ('reduce', 'Reduce'):
        return arg(c, 2, 'root')
    return None


def _root_params(ck, spmd):
    """{(rel, qual): parameter names whose value becomes the root of a
    collective} for the functions of the uniformity table: directly (the
    expanded root expression mentions the parameter) or by being passed on to
    such a parameter of another table function."""
    memo = getattr(spmd, '_c14_root_params', None)
    if memo is not None:
        return memo
    from ..resolve import enclosing_class
    out = {k: set() for k in LOCAL_PARAMS}
    changed = True
    while changed:
        changed = False
        for (rel, q) in LOCAL_PARAMS:
            mod = ck.repo.mod(rel)
            fn = mod.func(q)
            fi = finfo(mod, fn)
            ps = set(params(fn))
            cls = enclosing_class(mod, fn)
            for c in walk_local(fn):
                if not isinstance(c, ast.Call):
                    continue
                st = fi.stmt(c)
                if st is None:
                    continue
                roots = []
                if collective_name(c):
                    roots = [_root_of(c)]
                else:
                    t = spmd.res.resolve_call(mod, c, cls)
                    if t is not None and t.kind == 'func' and out.get((t.rel, t.qual)):
                        roots = [a for pn, a in _bind_args(ck.repo.mod(t.rel).func(t.qual), t.qual, c) if pn in out[(t.rel, t.qual)]]
                for r in roots:
                    if r is None:
                        continue
                    for nm in names_loaded(xn(fi, r, st)) & ps:
                        if fi.rd.defs_at(st, nm) == {'PARAM'} and nm not in out[(rel, q)]:
                            out[(rel, q)].add(nm)
                            changed = True
    spmd._c14_root_params = out
    return out


def _bind_args(f2, qual, call):
    """[(parameter name, argument expression)] of a call (no star-args)."""
    ps = params(f2)
    if ps and ps[0] in ('self', 'cls') and '.' in qual:
        ps = ps[1:]
    if any(isinstance(a, ast.Starred) for a in call.args):
        return [(k.arg, k.value) for k in call.keywords if k.arg]
    return list(zip(ps, call.args)) + [(k.arg, k.value) for k in call.keywords if k.arg]


def _d1_roots(ck, spmd, rule, mod, fn, q, cls, nu, seeds):
    """Every rank must name the SAME root in a rooted collective (a Bcast
    whose root differs between ranks never completes, or delivers the wrong
    rank's buffer): the root expression of each direct collective, and each
    argument that a table function turns into a root (distribute_frame's
    owner_rank), is rank-uniform."""
    fi = finfo(mod, fn)
    rp = _root_params(ck, spmd)
    for c in walk_local(fn):
        if not isinstance(c, ast.Call):
            continue
        st = fi.stmt(c)
        if st is None:
            continue
        if collective_name(c):
            roots = [('root', _root_of(c))]
        else:
            t = spmd.res.resolve_call(mod, c, cls)
            if t is None or t.kind != 'func' or not rp.get((t.rel, t.qual)):
                continue
            roots = [(pn, a) for pn, a in _bind_args(ck.repo.mod(t.rel).func(t.qual), t.qual, c) if pn in rp[(t.rel, t.qual)]]
        for pn, r in roots:
            if r is None:
                continue
            why = []
            lv = _nonuniform_here(spmd, mod, fn, fi, cls, r, st, nu, seeds, why=why)
            v = 'match' if not lv else ('near', 1, None) if lv == 2 else ('far', 1, None)
            ck.decide(v, rule, mod, c, q, '%s=%s in %s' % (pn, u(r), u(c)[:120]), 'the root of the collective is the same on every rank',
                      'the root `%s` of this collective differs between ranks (%s; no collective in between): the ranks do not agree on who '
                      'sends, the broadcast cannot complete' % (u(r), ' -> '.join(why[:4])))


def _d1_completeness(ck, spmd, rule, nu_of):
    """Completeness of the uniformity table: a function that contains
    collectives (directly or through package functions) and is neither in the
    table nor a known thin wrapper.  A private helper that the front end
    inlined into every caller has been analysed there, in the caller's
    context.  A private helper that is still called has its rank-local
    parameters DERIVED from the call sites (a parameter is rank-local iff
    some call passes a rank-divergent argument) - every call site is visible
    because the name is private and never used except as a callee.
    Everything else has not been checked: incomplete."""
    from ..resolve import enclosing_class
    inl = getattr(ck.repo, 'inlined', {}) or {}
    pending = [(rel, q) for (rel, q), has in sorted(spmd.has_coll.items())
               if has and (rel, q) not in LOCAL_PARAMS and (rel, q) not in WRAPPERS and rel in (OPS, IO, KC, KM, HY, CU, APP) and
               not ('.<locals>.' in q and q.count('.<locals>.') == 1 and (rel, q.split('.<locals>.')[0]) in LOCAL_PARAMS)]

    def uses(rel, q):
        """(call sites [(caller rel, caller qual, call)], other references)"""
        bare = q.split('.')[-1]
        calls, refs = [], 0
        for rel2 in (OPS, IO, KC, KM, HY, CU, APP):
            m2 = ck.repo.mod(rel2)
            for q2, f2 in m2.functions.items():
                cls2 = enclosing_class(m2, f2)
                funcs = set()
                for c in walk_local(f2):
                    if isinstance(c, ast.Call):
                        t = spmd.res.resolve_call(m2, c, cls2)
                        if t is not None and t.kind == 'func' and (t.rel, t.qual) == (rel, q):
                            calls.append((rel2, q2, c))
                            funcs.add(id(c.func))
                for c in walk_local(f2):
                    if isinstance(c, (ast.Name, ast.Attribute)) and id(c) not in funcs and isinstance(c.ctx, ast.Load) and \
                            (c.id if isinstance(c, ast.Name) else c.attr) == bare and rel2 == rel:
                        refs += 1
        return calls, refs
    progress = True
    while pending and progress:
        progress = False
        for rel, q in list(pending):
            bare = q.split('.')[-1]
            private = bare.startswith('_') and not bare.startswith('__')
            calls, refs = uses(rel, q)
            was_inlined = any(bare in hs for hs in inl.get(rel, {}).values())
            mod = ck.repo.mod(rel)
            if private and was_inlined and not calls and not refs:
                pending.remove((rel, q))
                progress = True
                ck.ok(rule, mod, mod.func(q), '%s: extracted helper, inlined into every caller' % q,
                      'its collectives were matched inside %s' % ', '.join(sorted(c for c, hs in inl.get(rel, {}).items() if bare in hs)))
                continue
            if not (private and calls and not refs and all((r2, q2) in nu_of for r2, q2, _ in calls)):
                continue
            fn = mod.func(q)
            if fn.args.vararg is not None or fn.args.kwarg is not None or any(isinstance(a, ast.Starred) for _, _, c in calls for a in c.args) or \
                    any(k.arg is None for _, _, c in calls for k in c.keywords):
                continue
            ps = params(fn)
            if ps and ps[0] == 'self' and '.' in q:
                ps = ps[1:]
            locs = set()
            for r2, q2, c in calls:
                nu2, cls2 = nu_of[(r2, q2)]
                m2 = ck.repo.mod(r2)
                for pn, a in list(zip(ps, c.args)) + [(k.arg, k.value) for k in c.keywords]:
                    if spmd.expr_nonuniform(m2, m2.func(q2), a, nu2, cls2):
                        locs.add(pn)
            pending.remove((rel, q))
            progress = True
            ck.ok(rule, mod, fn, '%s: private helper outside the uniformity table' % q,
                  'rank-local parameters derived from its %d call site(s): %s' % (len(calls), sorted(locs)))
            _d1_function(ck, spmd, rule, rel, q, sorted(locs), nu_of)
    for rel, q in pending:
        ck.missing(rule, 'function %s::%s issues collectives but is not in the uniformity table (new or extracted helper): its rank-local '
                         'parameters are unknown, collective matching inside it is not decided' % (rel, q))


def _decide(ck, v, rule, mod, node, fn_name, construct, ok, bad):
    return ck.decide(v, rule, mod, node, fn_name, construct, ok, bad)


def d2_roots(ck):
    """Owner/root agreement.  Everything is located by role: the buffer is
    the first argument of the Bcast, its fills are the definitions that reach
    the Bcast, the side of a fill (owner / receiver) is the relation between
    mpi.rank() and the root in the path condition of the fill."""
    rule = 'C14.D2.owner-root'
    mod = ck.repo.mod(OPS)
    fn = mod.func('distribute_frame')
    ck.analysed(mod, fn)
    fi = finfo(mod, fn)
    F = 'distribute_frame'
    if len(params(fn)) < 3:
        ck.missing(rule, 'distribute_frame(data, world_index, owner_rank): parameters not found')
    else:
        _d2_distribute(ck, rule, mod, fn, fi, F)
    _d2_assemble(ck, rule + '.reassembly', mod)
    _d2_assemble_ragged(ck, rule + '.reassembly', mod)


def _d2_fill(ck, rule, mod, fi, F, site, val, atoms, is_arm, data, widx, owner, is_param):
    """One definition of the broadcast buffer (or one arm of a conditional
    expression defining it): `val` is its expanded value, `atoms` the path
    condition.  Returns 1 if it is a fill on the owner side."""
    side = None
    other = None
    for c, own in atoms:
        if not isinstance(c, Cmp):
            continue
        l, r = xt(fi, c.lhs, own), xt(fi, c.rhs, own)
        if 'mpi.rank()' not in (l, r):
            continue
        o = c.rhs if l == 'mpi.rank()' else c.lhs
        other = (o, own, c)
        if xt(fi, o, own) == owner and is_param(owner, own):
            side = {'==': 'owner', '!=': 'receiver'}.get(c.rel, 'unknown')
        else:
            side = 'foreign'
    xyz = [pol for c, own in atoms if isinstance(c, tuple) and c[0] == 'expr' and xt(fi, c[1], own) in ("hasattr(%s, 'xyz')" % data,) for pol in [c[2]]]
    when = ' and '.join(repr(c) if isinstance(c, Cmp) else ('' if c[2] else 'not ') + u(c[1]) for c, _ in atoms) or 'always'
    desc = '%s  [when %s]' % (u(site) if not is_arm else '%s = %s' % (u(site.targets[0]) if isinstance(site, ast.Assign) else '<buffer>', u(val)), when)
    send = ['%s[%s]' % (data, widx), '%s[%s].xyz' % (data, widx), '%s[%s].copy()' % (data, widx), '%s[%s].xyz.copy()' % (data, widx),
            'np.ascontiguousarray(%s[%s])' % (data, widx), 'np.ascontiguousarray(%s[%s].xyz)' % (data, widx)]
    recv = [f.replace('D', data) for f in (
        'np.empty_like(D[0])', 'np.empty_like(D[0].xyz)', 'np.zeros_like(D[0])', 'np.zeros_like(D[0].xyz)',
        'np.empty(D[0].shape, dtype=D.dtype)', 'np.empty(D.shape[1:], dtype=D.dtype)', 'np.empty(D[0].xyz.shape, dtype=D[0].xyz.dtype)')]
    is_alloc = isinstance(val, ast.Call) and (call_name(val) or '') in ('np.empty_like', 'np.zeros_like', 'np.empty', 'np.zeros')
    if side == 'foreign':
        o, own, c = other
        v2 = ('near', 1, 'mpi.rank() == %s' % owner) if closed_over(xn(fi, o, own), {data, widx, owner}) else ('far', 1, None)
        _decide(ck, v2, rule, mod, site, F, desc, '', 'the buffer is filled under the rank test `%r`, but the Bcast root is `%s`: '
                'the rank that fills the buffer must be the broadcast root' % (c, owner))
        return 0
    if side == 'unknown':
        ck.missing(rule, 'rank test of a buffer fill not understood: %s' % desc[:160])
        return 0
    if side is None:
        if is_alloc:
            side = 'receiver'       # default receive buffer, overwritten on the owner
        elif _classify(val, send[:2])[0] == 'match':
            ck.bad(rule, mod, site, F, desc, 'the buffer is bound to %s[%s] on EVERY rank (no `mpi.rank() == %s` guard): non-owner ranks index their own data '
                   'with the owner\'s position and the Bcast then overwrites their local frame in place' % (data, widx, owner))
            return 0
        else:
            ck.missing(rule, 'buffer definition outside any rank test not understood: %s' % desc[:160])
            return 0
    if side == 'owner':
        vv = classify(val, send, {data, widx, owner})
        ok = _decide(ck, vv, rule, mod, site, F, desc, 'the rank that fills the buffer with data[world_index] is the broadcast root',
                     'on the owner (`mpi.rank() == %s`) the frame sent must be %s[%s] (or its .xyz)' % (owner, data, widx))
    else:
        vv = classify(val, recv, {data, widx, owner})
        ok = _decide(ck, vv, rule, mod, site, F, desc, 'the other ranks allocate a receive buffer of the shape of one frame',
                     'on the non-owner ranks the buffer must be a fresh receive buffer shaped like one frame (np.empty_like(%s[0]))' % data)
    if ok and xyz:
        ck.check(('.xyz' in u(val)) == xyz[-1], rule, mod, site, F, 'trajectory/array arm: ' + desc, 'coordinates (.xyz) are sent/received exactly for trajectories',
                 'the %s arm must %suse the .xyz coordinates: sender and receivers otherwise disagree on the buffer shape' % (
                     'trajectory' if xyz[-1] else 'array', '' if xyz[-1] else 'not '))
    return 1 if side == 'owner' else 0


def _d2_distribute(ck, rule, mod, fn, fi, F):
    data, widx, owner = params(fn)[:3]
    colls = [c for c in calls_in(fn) if collective_name(c)]
    bc = [c for c in colls if collective_name(c) == 'Bcast']
    if len(bc) != 1:
        if not colls:
            ck.bad(rule, mod, fn, F, 'Bcast', 'distribute_frame issues no broadcast at all: the frame never leaves its owner')
        else:
            ck.missing(rule, 'exactly one mpi.comm.Bcast in distribute_frame (found %d; collectives: %s)' % (len(bc), [collective_name(c) for c in colls]))
        return
    bc = bc[0]
    bst = fi.stmt(bc)
    root, buf = arg(bc, 1, 'root'), arg(bc, 0, 'buf')
    is_param = lambda nm, at: fi.rd.defs_at(at, nm) == {'PARAM'}
    if root is None:
        ck.bad(rule, mod, bc, F, u(bc), 'Bcast without root= broadcasts from rank 0, not from the owner of the frame')
    elif xt(fi, root, bst) == owner and is_param(owner, bst):
        ck.ok(rule, mod, bc, u(bc), 'the Bcast is rooted at the owner rank')
    else:
        v = ('near', 1, 'root=%s' % owner) if closed_over(xn(fi, root, bst), {data, widx, owner}) else ('far', 1, None)
        _decide(ck, v, rule, mod, bc, F, u(bc), '', 'distribute_frame must Bcast(frame, root=owner_rank): the root must be the rank that owns the frame')
    rets = returns_of(fn)
    ck.check(bool(rets) and all(fi.cfg.dominates(bst, r) for r in rets), rule, mod, bc, F, 'unconditional: ' + u(bc),
             'every path to a return passes through the Bcast', 'the Bcast of the frame buffer must be executed on every path (by every rank, for arrays and trajectories alike)')
    if not isinstance(buf, ast.Name):
        ck.missing(rule, 'the Bcast buffer is not a plain name: %s' % u(bc))
        return
    B = buf.id
    n_fill = n_owner = 0
    for site in sorted(fi.rd.defs_at(bst, B), key=lambda s: getattr(s, 'lineno', 0)):
        if site in ('PARAM', 'UNBOUND'):
            ck.missing(rule, 'the broadcast buffer `%s` may be %s at the Bcast' % (B, site))
            continue
        v = fi.def_value(site, B)
        if v is None:
            ck.missing(rule, 'definition of the broadcast buffer not understood: %s' % u(site)[:100])
            continue
        # a conditional expression in the value is a branch: one fill per arm,
        # the tests of the arm added to the path condition
        for conds, val in ifexp_arms(xn(fi, v, site)):
            n_fill += 1
            atoms = path_atoms(fi, site)
            for t, pol in conds:
                atoms += [(c, site) for c in (conjuncts(t, pol) or [])]
            n_owner += _d2_fill(ck, rule, mod, fi, F, site, val, atoms, bool(conds), data, widx, owner, is_param)
    ck.floor(rule, n_fill, 2, 'definitions of the broadcast buffer reaching the Bcast in distribute_frame')
    if n_fill and not n_owner:
        ck.missing(rule, 'no fill of the broadcast buffer under `mpi.rank() == %s` found' % owner)
    # an owner outside the world is rejected (on every rank: uniform argument)
    rr = rule + '.range'
    found = None
    mentions = []
    for g in walk_local(fn):
        if not isinstance(g, ast.Raise):
            continue
        gst = fi.stmt(g)
        for c, own in path_atoms(fi, gst):
            rel = atom_rel(fi, c, owner, 'mpi.size()', own)
            if rel is not None:
                found = (rel, own, c)
            elif isinstance(c, Cmp) and owner in names_loaded(c.lhs) | names_loaded(c.rhs):
                mentions.append(c)
    if found is not None:
        rel, own, c = found
        ck.check(rel == '>=' and fi.cfg.dominates(own, bst), rr, mod, own, F, u(own.test),
                 'an owner outside the world is rejected on every rank before the broadcast (uniform argument)',
                 'owner_rank >= mpi.size() must raise before the Bcast; found the test `%r`' % c)
    elif mentions:
        ck.missing(rr, 'range test on the owner not understood: %r' % mentions[0])
    else:
        ck.bad(rr, mod, fn, F, 'raise unless %s < mpi.size()' % owner, 'no test rejects an owner rank outside the world: owner_rank >= mpi.size() must raise '
               '(a Bcast with an invalid root aborts or hangs the job)')


def _stripe_stores(fi, mod, fn, loop, var):
    """Subscript stores inside `loop` (a for over the ranks, variable `var`):
    [(stmt, target, kind)] with kind 'stripe' for X[var::mpi.size()],
    'row' for X[var], 'other' otherwise."""
    out = []
    for st, t in subscript_stores(loop):
        if not isinstance(st, ast.Assign):
            continue
        sl = t.slice
        if isinstance(sl, ast.Slice):
            kind = 'stripe' if (sl.upper is None and sl.lower is not None and sl.step is not None and
                                xt(fi, sl.lower, st) == var and is_size(fi, sl.step, st)) else 'other'
        else:
            kind = 'row' if xt(fi, sl, st) == var else 'other'
        out.append((st, t, kind))
    return out


def _bcast_of(fi, e, here):
    """the mpi.comm.bcast call an expression denotes (directly or through a
    name bound once), with its statement."""
    c, st = value_call(fi, e, here)
    if c is not None and collective_name(c) == 'bcast':
        return c, st
    return None, None


def _d2_assemble(ck, rule, mod):
    fa = mod.func('assemble_striped_array')
    ck.analysed(mod, fa)
    fi = finfo(mod, fa)
    F = 'assemble_striped_array'
    P = params(fa)[0]
    loops = [(l, v) for l, v in rank_loops(fi, fa) if isinstance(l, ast.For)]
    bcs = [c for c in calls_in(fa) if collective_name(c) == 'bcast']
    if len(loops) != 1 or not bcs:
        ck.missing(rule, 'assemble_striped_array: one `for <i> in range(mpi.size())` with a bcast inside (loops: %d, bcasts: %d)' % (len(loops), len(bcs)))
        return
    loop, i = loops[0]
    stores = [(st, t, k) for st, t, k in _stripe_stores(fi, mod, fa, loop, i)]
    rets = returns_of(fa)
    n = 0
    for st, t, kind in stores:
        c, cst = _bcast_of(fi, st.value, st)
        if c is None:
            continue
        n += 1
        root, obj = arg(c, 1, 'root'), arg(c, 0, 'obj')
        if kind != 'stripe':
            sl = t.slice
            v = ('near', 1, '%s::mpi.size()' % i) if closed_over(xn(fi, sl.lower if isinstance(sl, ast.Slice) and sl.lower is not None else ast.Constant(value=0), st), {i}) and \
                (not isinstance(sl, ast.Slice) or sl.step is None or closed_over(xn(fi, sl.step, st), {i})) else ('far', 1, None)
            _decide(ck, v, rule, mod, st, F, u(st), '', 'the array broadcast by rank %s must be stored into the stripe [%s::mpi.size()] of the global array' % (i, i))
            continue
        okroot = root is not None and xt(fi, root, cst) == i
        okobj = obj is not None and xt(fi, obj, cst) == P and inside(mod, cst, loop)
        if okroot and okobj:
            ck.ok(rule, mod, st, u(st), 'stripe i of the global array receives the local array of rank i (root = stripe offset)')
        elif not okroot:
            v = ('near', 1, 'root=%s' % i) if root is None or closed_over(xn(fi, root, cst), {i}) else ('far', 1, None)
            _decide(ck, v, rule, mod, st, F, u(st), '', 'global_arr[i::size] must receive bcast(local_arr, root=i): the broadcast root must equal the stripe offset `%s`' % i)
        else:
            v = ('near', 1, P) if obj is not None and closed_over(xn(fi, obj, cst), {P, i}) else ('far', 1, None)
            _decide(ck, v, rule, mod, st, F, u(st), '', 'every rank must broadcast its local array `%s` inside the loop over the ranks' % P)
        # the filled array is what the function returns
        G = u(t.value)
        outs = [r for r in rets if not any(atom_rel(fi, c2, 'mpi.size()', '1', o2) == '==' for c2, o2 in path_atoms(fi, r))]
        ck.check(bool(outs) and all(xt(fi, r.value, r) == G for r in outs), rule, mod, st, F, 'return %s' % G, 'the reassembled array is returned',
                 'the array filled stripe by stripe (`%s`) must be the one returned when more than one rank runs' % G)
    if not n:
        ck.missing(rule, 'assemble_striped_array: no store of a bcast result into the global array inside the rank loop')


def _d2_assemble_ragged(ck, rule, mod):
    fr = mod.func('assemble_striped_ragged_array')
    ck.analysed(mod, fr)
    fi = finfo(mod, fr)
    F = 'assemble_striped_ragged_array'
    if len(params(fr)) < 2:
        ck.missing(rule, 'assemble_striped_ragged_array(local_array, global_lengths): parameters not found')
        return
    P, GL = params(fr)[:2]
    loops = [(l, v) for l, v in rank_loops(fi, fr) if isinstance(l, ast.For)]
    if len(loops) != 1:
        ck.missing(rule, 'assemble_striped_ragged_array: exactly one `for <rank> in range(mpi.size())` (found %d)' % len(loops))
        return
    loop, r = loops[0]
    bcs = [c for c in calls_in(loop) if collective_name(c) == 'bcast']
    if len(bcs) != 1:
        ck.missing(rule, 'assemble_striped_ragged_array: exactly one bcast inside the rank loop (found %d)' % len(bcs))
        return
    bc = bcs[0]
    bst = fi.stmt(bc)
    root, obj = arg(bc, 1, 'root'), arg(bc, 0, 'obj')
    uncond = enclosing(mod, bst, (ast.If, ast.While, ast.For, ast.Try), stop=loop) is None and enclosing(mod, bc, (ast.IfExp, ast.BoolOp), stop=bst) is None
    ok = root is not None and xt(fi, root, bst) == r and obj is not None and xt(fi, obj, bst) == P and uncond
    if ok:
        ck.ok(rule, mod, bst, u(bst), 'each rank broadcasts its local array in turn, unconditionally inside the loop')
    else:
        sc = {r, P, GL}
        v = ('near', 1, 'mpi.comm.bcast(%s, root=%s)' % (P, r)) if (not uncond or root is None or obj is None or
                                                                     (closed_over(xn(fi, root, bst), sc) and closed_over(xn(fi, obj, bst), sc))) else ('far', 1, None)
        _decide(ck, v, rule, mod, bst, F, u(bst), '', 'rank_array = bcast(local_array, root=rank) must run unconditionally for every rank in range(size)')
    if not (isinstance(bst, ast.Assign) and isinstance(bst.targets[0], ast.Name)):
        ck.missing(rule, 'the result of the bcast is not bound to a name: %s' % u(bst)[:100])
        return
    RA = bst.targets[0].id
    stripe_len = C('%s[%s::mpi.size()]' % (GL, r))
    if _d2_ragged_offsets(ck, rule, mod, fr, fi, F, loop, r, RA, P, GL):
        return
    stores = [(st, t, k) for st, t, k in _stripe_stores(fi, mod, fr, loop, r)]
    # which object do the stores fill?  the one whose flat data are returned
    by_kind = {}
    for st, t, k in stores:
        by_kind.setdefault(k, []).append((st, t))
    if not by_kind.get('stripe') and not by_kind.get('row'):
        ck.missing(rule, 'no store global_ra[rank::size] / global_ra[rank] inside the rank loop')
        return
    for st, t in by_kind.get('other', []):
        if RA in names_loaded(st.value) or any(RA in names_loaded(x) for x in [xn(fi, st.value, st)]):
            sl = t.slice
            parts = [x for x in ((sl.lower, sl.upper, sl.step) if isinstance(sl, ast.Slice) else (sl,)) if x is not None]
            v = ('near', 1, '%s::mpi.size()' % r) if all(closed_over(xn(fi, x, st), {r}) for x in parts) else ('far', 1, None)
            _decide(ck, v, rule, mod, st, F, u(st), '', 'rows r, r+size, ... of the global ragged array must receive rank r\'s rows (index `%s::mpi.size()`)' % r)
    n = 0
    guarded = False
    for st, t in by_kind.get('stripe', []):
        n += 1
        val = xn(fi, st.value, st)
        vv = classify(val, ['ra.RaggedArray(%s, lengths=%s)' % (RA, stripe_len)], {RA, GL, r, P})
        _decide(ck, vv, rule, mod, st, F, u(st) + '  [value: %s]' % u(val), 'rows r, r+size, ... of the global ragged array receive rank r\'s rows, cut by global_lengths[r::size]',
                'global_ra[rank::size] must receive RaggedArray(rank_array, lengths=global_lengths[rank::size]): the lengths of rank r are the stripe r of the global lengths')
        if vv[0] == 'match':
            _d2_ragged_representation(ck, rule + '.representation', mod, st, F, GL, r)
        # RaggedArray.__setitem__ cannot take a one-row RaggedArray through a slice: needs > 1 rows
        rng = [int_range(fi, c, 'len(%s)' % stripe_len, o) for c, o in path_atoms(fi, st)]
        rng = [x for x in rng if x is not None]
        if any(x[0] not in (None, 'ne') and x[0] >= 2 for x in rng):
            guarded = True
            ck.ok(rule, mod, st, 'guard of ' + u(st), 'the slice store runs only when the rank owns more than one trajectory')
        elif all(_permits(x, 1) for x in rng):
            ck.bad(rule, mod, st, F, 'guard of ' + u(st),
                   'the slice store global_ra[rank::size] = RaggedArray(...) is not guarded by len(global_lengths[rank::size]) > 1: for a rank that owns a '
                   'single trajectory RaggedArray.__setitem__ cannot assign a one-row RaggedArray through a slice (ValueError/DataInvalid on every rank)')
        else:
            ck.missing(rule, 'guard of the slice store not understood: %s' % rng)
    rows = by_kind.get('row', [])
    for st, t in rows:
        n += 1
        ck.check(xt(fi, st.value, st) == RA, rule, mod, st, F, u(st), 'the single row of a rank that owns one trajectory is stored directly',
                 'global_ra[rank] must receive the array broadcast by `rank` (%s)' % RA)
        rng = [x for x in (int_range(fi, c, 'len(%s)' % stripe_len, o) for c, o in path_atoms(fi, st)) if x is not None]
        if any(x in ((None, 1), (1, 1)) for x in rng):
            ck.ok(rule, mod, st, 'guard of ' + u(st), 'runs only when the rank owns at most one trajectory')
            # ... and exactly one: a rank beyond the number of trajectories owns the EMPTY stripe
            # (len(global_lengths[rank::size]) == 0 iff rank >= len(global_lengths)); row `rank` does not exist then
            if all(_permits(x, 0) for x in rng):
                ck.bad(rule + '.empty-stripe', mod, st, F, 'single-row store for a rank that owns no trajectory',
                       'the single-row store global_ra[rank] = rank_array also runs when len(global_lengths[rank::size]) == 0 (the guard '
                       'admits 0): with more ranks than trajectories `rank` >= len(global_lengths) and the store raises IndexError on '
                       'every rank; a rank that owns nothing must contribute nothing')
            else:
                ck.ok(rule + '.empty-stripe', mod, st, 'guard of ' + u(st), 'the single-row store is skipped for a rank that owns no trajectory')
        elif all(_permits(x, 2) for x in rng):
            ck.bad(rule, mod, st, F, 'guard of ' + u(st), 'the single-row store global_ra[rank] = rank_array must be limited to ranks that own one trajectory '
                   '(len(global_lengths[rank::size]) <= 1); as it stands it also runs for ranks with several trajectories and overwrites row `rank` with the whole array of the rank')
        else:
            ck.missing(rule, 'guard of the single-row store not understood: %s' % rng)
    if by_kind.get('stripe') and guarded and not rows:
        ck.bad(rule, mod, by_kind['stripe'][0][0], F, 'single-trajectory case of ' + u(by_kind['stripe'][0][0]),
               'no `global_ra[rank] = rank_array` for ranks that own exactly one trajectory: the slice assignment of a one-row RaggedArray fails, so the '
               'special case is load-bearing (e.g. 3 trajectories on 2 ranks)')
    # the filled object: a RaggedArray over the global lengths whose flat data are returned
    Gs = {u(t.value) for k in ('stripe', 'row') for st, t in by_kind.get(k, [])}
    if len(Gs) == 1:
        G = next(iter(Gs))
        gdefs = [s for s in assigns_to(fr, G) if isinstance(s, ast.Assign)]
        if len(gdefs) == 1:
            vv = classify(xn(fi, gdefs[0].value, gdefs[0]), ['ra.RaggedArray(__, lengths=%s)' % GL], {GL, P})
            _decide(ck, vv, rule, mod, gdefs[0], F, u(gdefs[0]), 'the global ragged array is partitioned by the global lengths', 'the reassembly target must be a RaggedArray with lengths=%s' % GL)
        rets = returns_of(fr)
        ck.check(bool(rets) and all(G in names_loaded(xn(fi, x.value, x)) for x in rets), rule, mod, rets[0] if rets else fr, F, 'return ' + (u(rets[0].value) if rets else '?'),
                 'the reassembled data are returned', 'the function must return the data of the reassembled array `%s`' % G)
    else:
        ck.missing(rule, 'stores of the rank loop fill different objects: %s' % sorted(Gs))
    ck.floor(rule, n, 1, 'stores into the global ragged array inside the rank loop')


RAMOD = 'enspara/ra/ra.py'


def _ra_two_representations(ck):
    """Facts read from enspara/ra/ra.py (None if the class is not found):
    (rect, obj, raw) - the constructor stores `self._array` as a reshape of
    the flat data on some path (rectangular block, taken when all lengths are
    equal) and as an object array of rows on another, and __setitem__ stores
    `value._array` of a RaggedArray value into `self._array[<index>]` as it
    is.  With all three, `X[a::b] = Y` (both RaggedArrays) is defined only
    when X and Y have the same representation, i.e. when `all lengths of Y
    equal` implies `all lengths of X equal`."""
    m = ck.repo.mod(RAMOD)
    init = m.functions.get('RaggedArray.__init__')
    seti = m.functions.get('RaggedArray.__setitem__')
    if init is None or seti is None:
        return None
    me = params(init)[0]
    rect = obj = False
    for st in walk_local(init):
        if isinstance(st, ast.Assign) and any(isinstance(t, ast.Attribute) and t.attr == '_array' and u(t.value) == me for t in st.targets):
            calls = [c for c in ast.walk(st.value) if isinstance(c, ast.Call)]
            if any(isinstance(c.func, ast.Attribute) and c.func.attr == 'reshape' for c in calls):
                rect = True
            if any(kwarg(c, 'dtype') is not None and const_value(kwarg(c, 'dtype')) in ('O', 'object') or
                   (kwarg(c, 'dtype') is not None and u(kwarg(c, 'dtype')) == 'object') for c in calls):
                obj = True
    me2 = params(seti)[0]
    val = params(seti)[2] if len(params(seti)) > 2 else 'value'
    unwrap = any(isinstance(st, ast.Assign) and u(st.value) == '%s._array' % val and val in target_names(st.targets[0]) for st in walk_local(seti))
    raw = unwrap and any(isinstance(st, ast.Assign) and isinstance(st.targets[0], ast.Subscript) and u(st.targets[0].value) == '%s._array' % me2 and
                         isinstance(st.targets[0].slice, ast.Name) and u(st.value) == val for st in walk_local(seti))
    return rect, obj, raw


def _d2_ragged_representation(ck, rule, mod, st, F, GL, r):
    """finding assemble-ragged-equal-local-lengths: the stripe store assigns
    RaggedArray(<rank data>, lengths=GL[r::size]) through a slice of
    RaggedArray(<global>, lengths=GL)."""
    facts = _ra_two_representations(ck)
    if facts is None:
        ck.missing(rule, 'RaggedArray.__init__ / __setitem__ not found in %s' % RAMOD)
        return
    rect, obj, raw = facts
    if rect and obj and raw:
        ck.bad(rule, mod, st, F, 'slice store of a RaggedArray over the stripe lengths into the RaggedArray over the global lengths',
               'RaggedArray keeps rows of equal length as a rectangular 2-d block and rows of unequal length as a 1-d object array '
               '(RaggedArray.__init__), and __setitem__ stores value._array as it is: the store is defined only if `%s[%s::size] all equal` '
               'implies `%s all equal`, which does not hold (e.g. lengths [3, 5, 3, 7] on 2 ranks: rank 0 owns [3, 3]) -> ValueError '
               '"could not broadcast" on every rank at the end of the clustering run; write rank r\'s rows through flat offsets instead' % (GL, r, GL))
    else:
        ck.ok(rule, mod, st, u(st), 'RaggedArray item assignment does not depend on the row representation of the value '
              '(constructor/__setitem__ of %s no longer have the rectangular special case)' % RAMOD)


_EXCL_CUMSUM = ['np.cumsum(%(L)s) - %(L)s', '%(L)s.cumsum() - %(L)s', 'np.append([0], np.cumsum(%(L)s)[:-1])', 'np.append([0], %(L)s.cumsum()[:-1])',
                'np.concatenate([[0], np.cumsum(%(L)s)])', 'np.concatenate(([0], np.cumsum(%(L)s)))', 'np.concatenate([[0], %(L)s.cumsum()])',
                'np.insert(np.cumsum(%(L)s), 0, 0)', 'np.r_[0, np.cumsum(%(L)s)]', 'np.concatenate([[0], np.cumsum(%(L)s)[:-1]])',
                'np.concatenate(([0], np.cumsum(%(L)s)[:-1]))']


def _d2_ragged_offsets(ck, rule, mod, fr, fi, F, loop, r, RA, P, GL):
    """The reassembly written with flat offsets (the repaired form): inside
    the rank loop, `for row in range(rank, len(GL), size)` copies
    RA[pos:pos + GL[row]] to <flat>[S[row]:S[row] + GL[row]] with S the
    exclusive cumulative sum of GL and pos a running offset that starts at 0
    for every rank.  Returns False when the loop has no such inner loop (the
    caller then analyses the RaggedArray form)."""
    inner = []
    for l in walk_local(loop):
        if isinstance(l, ast.For) and l is not loop and isinstance(l.target, ast.Name) and isinstance(l.iter, ast.Call) and \
                call_name(l.iter) == 'range' and len(l.iter.args) == 3 and is_size(fi, l.iter.args[2], l):
            inner.append(l)
    if len(inner) != 1:
        return False
    il = inner[0]
    row = il.target.id
    sc = {r, GL, row, RA, P}

    def dec(ok, node, site, construct, okmsg, badmsg, scope=sc):
        if ok:
            ck.ok(rule, mod, site, construct, okmsg)
        elif node is not None and closed_over(node, scope):
            ck.bad(rule, mod, site, F, construct, badmsg)
        else:
            ck.missing(rule, 'construct not recognised at %s: %s (%s)' % (mod.loc(site), construct[:120], badmsg[:120]))
        return ok
    it = xn(fi, il.iter, il)
    vv = classify(it, ['range(%s, len(%s), mpi.size())' % (r, GL), 'range(%s, %s.shape[0], mpi.size())' % (r, GL), 'range(%s, %s.size, mpi.size())' % (r, GL)], {r, GL})
    _decide(ck, vv, rule, mod, il, F, 'rows of rank %s: %s' % (r, u(it)), 'rank r owns rows r, r + size, ... below len(%s)' % GL,
            'the rows of rank `%s` are range(%s, len(%s), mpi.size())' % (r, r, GL))
    sts = [(st, t) for st, t in subscript_stores(il) if isinstance(st, ast.Assign) and isinstance(t.slice, ast.Slice)]
    if len(sts) != 1:
        ck.missing(rule, 'exactly one slice store inside the per-row loop of %s (found %d)' % (F, len(sts)))
        return True
    st, t = sts[0]
    n_t = C('%s[%s]' % (GL, row))
    lo, hi = t.slice.lower, t.slice.upper
    if lo is None or hi is None or t.slice.step is not None:
        dec(False, ast.Constant(value=0), st, u(st), '', 'the destination must be <flat>[start_of_row:start_of_row + %s]' % n_t)
        return True
    lo_x, hi_x = xn(fi, lo, st), xn(fi, hi, st)
    lo_t = u(lo_x)
    dec(u(hi_x) in (C('%s + %s' % (lo_t, n_t)), C('%s + %s' % (n_t, lo_t))), hi_x, st, 'destination length: ' + u(t),
        'row `%s` occupies %s cells of the flat array' % (row, n_t), 'the destination slice of row `%s` must be %s cells long' % (row, n_t), sc | set(names_loaded(lo_x)))
    # start of the row in the flat array = exclusive cumulative sum of the global lengths
    okS = False
    Sx = None
    if isinstance(lo_x, ast.Subscript) and u(lo_x.slice) == row:
        Sx = lo_x.value
        if isinstance(Sx, ast.Attribute) and Sx.attr == 'starts' and isinstance(Sx.value, ast.Name):
            gd = [d for d in assigns_to(fr, Sx.value.id) if isinstance(d, ast.Assign)]
            okS = len(gd) == 1 and _classify(norm(gd[0].value), ['ra.RaggedArray(__, lengths=%s)' % GL, 'RaggedArray(__, lengths=%s)' % GL])[0] == 'match'
        else:
            okS = _classify(Sx, [C(f % {'L': GL}) for f in _EXCL_CUMSUM])[0] == 'match'
    dec(okS, lo_x, st, 'destination start: ' + u(lo_x), 'row k starts at sum(%s[:k]) of the flat array' % GL,
        'row `%s` must be written at the exclusive cumulative sum of `%s` (sum of the lengths of all earlier rows)' % (row, GL), {r, GL, row})
    # the source: RA[pos:pos + n] with a running offset that restarts at 0 for every rank
    src = xn(fi, st.value, st, strict=False)
    pos = None
    ok_src = False
    if isinstance(src, ast.Subscript) and isinstance(src.slice, ast.Slice) and u(src.value) == RA and src.slice.step is None and \
            isinstance(src.slice.lower, ast.Name) and src.slice.upper is not None:
        pos = src.slice.lower.id
        ok_src = u(src.slice.upper) in (C('%s + %s' % (pos, n_t)), C('%s + %s' % (n_t, pos)))
    dec(ok_src, src, st, 'source: ' + u(src), 'the next %s values of the array broadcast by rank %s' % (n_t, r),
        'the source must be %s[pos:pos + %s] with pos the running offset into the data of rank `%s`' % (RA, n_t, r), sc | ({pos} if pos else set()))
    if pos is not None and ok_src:
        inits = [d for d in assigns_to(fr, pos) if isinstance(d, ast.Assign) and not inside(mod, d, il)]
        advs = [d for d in assigns_to(fr, pos) if inside(mod, d, il)]
        ok_init = len(inits) == 1 and const_value(inits[0].value) == 0 and inside(mod, inits[0], loop) and fi.cfg.dominates(inits[0], il)
        dec(ok_init, inits[0].value if len(inits) == 1 else None, inits[0] if inits else il, '%s = 0 for every rank' % pos,
            'the running offset restarts at 0 for the data of every rank',
            'the running offset `%s` must be reset to 0 inside the rank loop, before the rows of that rank are copied' % pos)
        ok_adv = False
        av = None
        if len(advs) == 1:
            a = advs[0]
            if isinstance(a, ast.AugAssign) and isinstance(a.op, ast.Add):
                av = ast.BinOp(left=ast.Name(id=pos, ctx=ast.Load()), op=ast.Add(), right=xn(fi, a.value, a))
            elif isinstance(a, ast.Assign):
                av = xn(fi, a.value, a, stop=(pos,), strict=False)
            ok_adv = av is not None and u(norm(av)) in (C('%s + %s' % (pos, n_t)), C('%s + %s' % (n_t, pos))) and \
                fi.cfg.dominates(st, a) and not any(isinstance(x, (ast.If, ast.Try, ast.While)) for x in [mod.parent.get(a)])
        dec(ok_adv, av, advs[0] if advs else il, '%s advances by %s after the copy' % (pos, n_t), 'running offset advances by the row length',
            'the running offset `%s` must advance by %s exactly once per row, after the copy' % (pos, n_t), sc | {pos})
    # the flat array that is filled is what the function returns
    root = t.value
    while isinstance(root, (ast.Attribute, ast.Subscript)):
        root = root.value
    rets = returns_of(fr)
    ck.check(isinstance(root, ast.Name) and bool(rets) and all(root.id in names_loaded(xn(fi, x.value, x)) for x in rets), rule, mod, rets[0] if rets else fr, F,
             'return ' + (u(rets[0].value) if rets else '?'), 'the reassembled data are returned', 'the function must return the flat data it fills (`%s`)' % u(t.value))
    ck.floor(rule, 1, 1, 'stores into the global ragged array inside the rank loop')
    return True


def _pair_component(binders, mod, node, name):
    """0 / 1 if `name` (used at `node`) is the first / second name of a
    two-name unpacking whose scope contains node, else None."""
    for scope, (a, b), it in binders:
        if inside(mod, node, scope) and name in (a, b):
            return 0 if name == a else 1
    return None


def d3_striping(ck):
    """Striping convention.  A striping site is any slice whose step IS the
    world size or whose offset IS the own rank (after expansion of
    temporaries); the offset is classified by the role of its value."""
    rule = 'C14.D3.striping'
    n = 0
    for rel in (OPS, IO, KM, KC, CU, APP):
        mod = ck.repo.mod(rel)
        for q, fn in mod.functions.items():
            fi = None
            for sub in walk_local(fn):
                if not (isinstance(sub, ast.Subscript) and isinstance(sub.slice, ast.Slice)):
                    continue
                sl = sub.slice
                if sl.step is None and sl.lower is None:
                    continue
                fi = fi or finfo(mod, fn)
                here = fi.stmt(sub)
                if here is None:
                    continue
                step_is_size = sl.step is not None and is_size(fi, sl.step, here)
                lo_is_rank = sl.lower is not None and xt(fi, sl.lower, here) == 'mpi.rank()'
                if not step_is_size:
                    if lo_is_rank and sl.step is not None:
                        n += 1
                        ck.analysed(mod, fn)
                        v = ('near', 1, 'x[mpi.rank()::mpi.size()]') if closed_over(xn(fi, sl.step, here), set()) else ('far', 1, None)
                        ck.decide(v, rule, mod, sub, q, u(sub), '', 'the stripe of the own rank must advance by the world size mpi.size(); found step `%s`' % u(sl.step))
                    continue
                n += 1
                ck.analysed(mod, fn)
                lo = sl.lower
                if sl.upper is not None or lo is None:
                    ck.bad(rule, mod, sub, q, u(sub), 'striping must be x[r::mpi.size()] with an offset r and no stop; found `%s`' % u(sub.slice))
                    continue
                t = xn(fi, lo, here)
                why = None
                verdict = None
                if lo_is_rank:
                    why = 'own stripe'
                elif isinstance(t, ast.BinOp) and isinstance(t.op, ast.Mod) and u(t.right) == 'mpi.size()':
                    why = 'owner = trajectory id mod size'
                elif isinstance(t, ast.Name):
                    ranks = [v for l, v in rank_loops(fi, fn) if inside(mod, sub, l)]
                    comp = _pair_component(pair_binders(mod, fn), mod, sub, t.id)
                    if t.id in ranks:
                        why = 'stripe of loop rank'
                    elif comp == 0:
                        why = 'owner rank of an (owner, index) pair'
                    elif comp == 1:
                        verdict = ('near', 1, 'x[<owner>::mpi.size()]')
                        bad = 'the stripe offset `%s` is the SECOND component of an (owner_rank, local_index) pair: the owner rank is the first' % t.id
                if why is None and verdict is None:
                    verdict = ('near', 1, 'x[r::mpi.size()]') if closed_over(t, set()) else ('far', 1, None)
                    bad = ('striping must be x[r::mpi.size()] with r the rank / the loop rank / id %% size and no stop; found offset `%s`' % u(lo))
                if why is not None:
                    ck.ok(rule, mod, sub, u(sub), 'round-robin stripe x[r::size] (%s)' % why)
                else:
                    ck.decide(verdict, rule, mod, sub, q, u(sub), '', bad)
    ck.floor(rule, n, 10, 'striping sites')
    _d3_local_id(ck, rule + '.local-id')


def _d3_local_id(ck, rule):
    """ctr_ids_mpi: (global trajectory g, frame f) -> (g % size, position of
    f in the concatenation of the owner's trajectories), the owner's local
    trajectory number being g // size."""
    mod = ck.repo.mod(KM)
    fn = mod.func('ctr_ids_mpi')
    ck.analysed(mod, fn)
    fi = finfo(mod, fn)
    F = 'ctr_ids_mpi'
    rets = returns_of(fn)
    items = []
    for r in rets:
        items += collected(fi, fn, r.value, r)
    items = [(e, node) for e, node in items if isinstance(e, ast.Tuple) and len(e.elts) == 2]
    if not items:
        ck.missing(rule, 'ctr_ids_mpi: no (owner, index) tuple collected into the returned list')
        return
    binders = pair_binders(mod, fn)
    for e, node in items:
        here = fi.stmt(node)
        comps = [b for b in binders if inside(mod, node, b[0])]
        if not comps:
            ck.missing(rule, 'ctr_ids_mpi: the (trajectory, frame) pair feeding %s is not unpacked into two names' % u(e))
            continue
        g, f = comps[-1][1]
        o = xn(fi, e.elts[0], here)
        vv = classify(o, ['%s %% mpi.size()' % g], {g, f})
        ck.decide(vv, rule, mod, node, F, 'owner: ' + u(o), 'owner of trajectory g = g % size', 'the owner rank of trajectory `%s` must be `%s %% mpi.size()`' % (g, g))
        # local index: <ragged index table>[<local trajectory>][f]
        c = e.elts[1]
        seen = 0
        while isinstance(c, ast.Name) and seen < 4:
            d = fi.rd.defs_at(here, c.id)
            site = next(iter(d)) if len(d) == 1 else None
            v = fi.def_value(site, c.id) if site not in (None, 'PARAM', 'UNBOUND') else None
            if v is None:
                break
            c, here, seen = v, site, seen + 1
        if not (isinstance(c, ast.Subscript) and isinstance(c.value, ast.Subscript)):
            ck.missing(rule, 'ctr_ids_mpi: local index is not <table>[<local trajectory>][<frame>]: %s' % u(c)[:100])
            continue
        ck.check(xt(fi, c.slice, here) == f, rule, mod, node, F, 'frame: ' + u(c), 'frame position inside the trajectory is the second component',
                 'the frame looked up in the owner\'s table must be `%s`' % f)
        lt = xn(fi, c.value.slice, here)
        vv = classify(lt, ['int(%s / mpi.size())' % g, '%s // mpi.size()' % g, 'int(%s // mpi.size())' % g], {g, f})
        ck.decide(vv, rule, mod, node, F, 'local trajectory: ' + u(lt), 'position of trajectory g on its owner = g // size', 'the local trajectory id must be `%s // mpi.size()`' % g)
        # the table: positions 0..n-1 of the owner's concatenated frames, cut by the lengths of the trajectories the owner holds (lengths[o::size])
        L = params(fn)[1] if len(params(fn)) > 1 else 'lengths'
        tb = xn(fi, c.value.value, here)
        v1 = _classify(tb, ['ra.RaggedArray(np.arange(sum(_T.lengths)), lengths=_T.lengths)', 'ra.RaggedArray(np.arange(_T.lengths.sum()), lengths=_T.lengths)'])
        if v1[0] == 'match':
            owned = ['ra.RaggedArray(np.arange(%s), lengths=%s)[np.arange(len(%s))[%s %% mpi.size()::mpi.size()]]' % (tot, L, L, g) for tot in ('sum(%s)' % L, '%s.sum()' % L)]
            v1 = classify(v1[1]['_T'], owned, {g, f, L})
        else:
            v1 = ('near' if closed_over(tb, {g, f, L}) and v1[1] <= 3 else 'far', v1[1], v1[2])
        ck.decide(v1, rule, mod, node, F, 'table: ' + u(tb)[:160], 'local positions are counted over the trajectories the owner holds (lengths[g % size::size])',
                  'the local index table must number the frames of the trajectories owned by rank g %% size, i.e. be cut by %s[g %% size::size]' % L)


def _in_message(mod, node):
    """node sits inside a logging / formatting construct (its order there is
    presentation, not data)."""
    p = mod.parent.get(node)
    while p is not None and not isinstance(p, ast.stmt):
        if isinstance(p, ast.Call):
            cn = call_name(p) or ''
            if cn.split('.')[0] in ('logger', 'logging', 'log', 'print', 'warnings') or cn.endswith('.format'):
                return True
        if isinstance(p, ast.BinOp) and isinstance(p.op, ast.Mod) and isinstance(p.left, ast.Constant) and isinstance(p.left.value, str):
            return True
        if isinstance(p, ast.JoinedStr):
            return True
        p = mod.parent.get(p)
    return isinstance(p, ast.Assert) and node is not p.test and not inside(mod, node, p.test)


def _same(fi, a, b):
    """two expressions denote the same value: same Name with the same
    reaching definitions, or identical canonical text of constants/params."""
    if isinstance(a, ast.Name) and isinstance(b, ast.Name):
        return a.id == b.id and fi.rd.defs_at(fi.stmt(a), a.id) == fi.rd.defs_at(fi.stmt(b), b.id)
    return False


def d4_pairs(ck):
    """(owner_rank, local_index) orientation at every producer and consumer."""
    rule = 'C14.D4.pair-orientation'
    mod = ck.repo.mod(OPS)
    _d4_convert(ck, rule, mod)
    _d4_randind(ck, rule, mod)
    _d4_distribute_sites(ck, rule)
    _d4_ctr_ids(ck, rule + '.consumers')
    _d4_local_centres(ck, rule + '.consumers')


def _d4_convert(ck, rule, mod):
    fn = mod.func('convert_local_indices')
    ck.analysed(mod, fn)
    fi = finfo(mod, fn)
    F = 'convert_local_indices'
    if len(params(fn)) < 2:
        ck.missing(rule, 'convert_local_indices(local_ctr_inds, global_lengths): parameters not found')
        return
    P, GL = params(fn)[:2]
    items = []
    for r in returns_of(fn):
        items += collected(fi, fn, r.value, r)
    binders = pair_binders(mod, fn)
    n = 0
    for e, node in items:
        comps = [b for b in binders if inside(mod, node, b[0]) and xt(fi, b[2], fi.stmt(b[0])) == P]
        if not comps:
            ck.missing(rule, 'convert_local_indices: the element `%s` is not computed inside an unpacking `for <owner>, <index> in %s`' % (u(e)[:60], P))
            continue
        n += 1
        a, b = comps[-1][1]
        here = fi.stmt(node)
        val = xn(fi, e, here, stop=(a, b))
        table = ['ra.RaggedArray(np.arange(%s), lengths=%s)' % (t, GL) for t in ('%s.sum()' % GL, 'sum(%s)' % GL)]
        forms = ['%s[%s::mpi.size()].flatten()[%s]' % (t, a, b) for t in table]
        vv = classify(val, forms, {a, b, GL, P})
        if vv[0] != 'match':
            # separate the orientation of the pair from the shape of the lookup table
            v2 = classify(val, ['_T[%s::mpi.size()].flatten()[%s]' % (a, b)], {a, b, GL, P})
            if v2[0] == 'match':
                vv = classify(v2[1]['_T'], table, {GL, P})
                ck.decide(vv, rule, mod, node, F, 'table: ' + u(v2[1]['_T']), '', 'the lookup table must be RaggedArray(arange(total frames), lengths=%s): global frame ids partitioned by trajectory' % GL)
                continue
        ck.decide(vv, rule, mod, node, F, u(val), '(owner rank, local frame) -> frames of that rank\'s stripe of trajectories, flattened, at the local position',
                  'convert_local_indices must unpack (owner, local index) IN THAT ORDER and read <frame-id table>[owner::size].flatten()[local index]')
    if not n and not ck.incomplete:
        ck.missing(rule, 'convert_local_indices: no converted element found')
    ck.floor(rule, n, 1, 'converted (owner, index) pairs in convert_local_indices')


def _d4_randind(ck, rule, mod):
    fr = mod.func('randind')
    ck.analysed(mod, fr)
    fi = finfo(mod, fr)
    F = 'randind'
    P = params(fr)[0]
    rets = returns_of(fr)
    if not rets:
        ck.missing(rule, 'randind: no return')
        return
    forms = ['(ra.where(_A == _G)[0][0], ra.where(_A == _G)[1][0])', '(ra.where(_G == _A)[0][0], ra.where(_G == _A)[1][0])']
    okmsg = 'returns (row, column) = (owner_rank, local_index) of the drawn element in the rank-by-rank table'
    badmsg = ('randind must return (owner_rank, local_index): row and column, in this order, of ra.where(<rank table> == <drawn global index>)')
    # every return is decided: the ones that read the rank table, and any other way out (a shortcut)
    table, others = [], []
    for r in rets:
        val = xn(fi, r.value, r) if r.value is not None else ast.Constant(value=None)
        vv = classify(val, forms, set())
        (table if vv[0] == 'match' else others).append((r, val, vv))
    if not table:
        for r, val, vv in others:
            # near iff the value is built from ra.where components only (e.g. swapped)
            rough = _classify(val, ['(ra.where(_A == _G)[_I][0], ra.where(_A == _G)[_J][0])'])
            vv = ('near', 1, vv[2]) if rough[0] == 'match' else ('far', vv[1], vv[2])
            ck.decide(vv, rule, mod, r, F, u(val)[:200], okmsg, badmsg)
        return
    if len({(u(vv[1]['_A']), u(vv[1]['_G'])) for _, _, vv in table}) != 1:
        ck.missing(rule, 'randind: %d returns read different rank tables' % len(table))
        return
    for r, val, vv in table:
        ck.decide(vv, rule, mod, r, F, u(val)[:200], okmsg, badmsg)
    r, val, vv = table[0]
    facts = {}
    _d4_randind_table(ck, rule, mod, fr, fi, F, P, r, vv, facts)
    for r2, val2, vv2 in others:
        _d4_randind_shortcut(ck, rule + '.randind-shortcut', mod, fr, fi, F, r, r2, val2, facts, badmsg)


def _spread_range(fi, c, N, owner):
    """interval the atom asserts for max(N) - min(N) (the spread of the
    per-rank counts), or None."""
    for a in (C('%s.max() - %s.min()' % (N, N)), C('np.ptp(%s)' % N), C('%s.ptp()' % N)):
        rg = int_range(fi, c, a, owner)
        if rg is not None:
            return rg
    if isinstance(c, Cmp) and c.rel in _SWAP:
        # max(N) REL min(N)
        rel = atom_rel(fi, c, C('%s.max()' % N), C('%s.min()' % N), owner)
        if rel is not None:
            return {'==': (0, 0), '<=': (None, 0), '<': (None, -1), '!=': ('ne', 0), '>': (1, None), '>=': (0, None)}[rel]
    return None


def _d4_randind_shortcut(ck, rule, mod, fr, fi, F, main, r, val, facts, badmsg):
    """A return of randind that does not read the rank table.  The element
    with global position g of a striped array lives on rank g % size at local
    position g // size exactly when the stripes are PACKED (rank r holds
    len(range(r, total, size)) elements); for a symmetric condition on the
    per-rank counts that is guaranteed only when all counts are equal.  So:
    the arithmetic pair under a path condition that bounds max(counts) -
    min(counts) by 0 is accepted; the same pair on a path that admits a
    spread of 1 (or any spread) names, for counts [1, 2] on two ranks and the
    drawn position 2, element 1 of rank 0, which does not exist - violation;
    any other pure function of the drawn index and the counts in this role
    likewise; a guard this rule cannot interpret, or a value computed from
    other operands: incomplete."""
    G, N = facts.get('G'), facts.get('N')
    construct = 'return %s' % u(val)[:160]
    if G is None or N is None:
        ck.missing(rule, 'randind: a second way out (%s at %s) cannot be decided because the rank table was not understood' % (construct, mod.loc(r)))
        return
    rough = _classify(val, ['(ra.where(_A == _G)[_I][0], ra.where(_A == _G)[_J][0])'])
    if rough[0] == 'match':
        ck.bad(rule, mod, r, F, construct, badmsg)
        return
    scope = {G, N}
    if not closed_over(val, scope):
        ck.missing(rule, 'construct not recognised at %s: %s (a return of randind that does not read the rank table)' % (mod.loc(r), construct))
        return
    # what is known on this path and not on the path to the table lookup
    shared_ = {id(a) for a in fi.cfg.dom.get(main, ())}
    ranges, opaque = [], []
    for a in fi.cfg.dom.get(r, ()):
        if not isinstance(a, Assume) or id(a) in shared_:
            continue
        test = expand(fi, a.test, a.owner)
        cj = conjuncts(test, a.polarity)
        if cj is None:
            if N in names_loaded(test):
                opaque.append(u(a.test))
            continue
        for c in cj:
            rg = _spread_range(fi, c, N, a.owner)
            if rg is not None:
                ranges.append((rg, c))
            elif N in (names_loaded(c.lhs) | names_loaded(c.rhs) if isinstance(c, Cmp) else names_loaded(c[1])):
                opaque.append(repr(c) if isinstance(c, Cmp) else u(c[1]))
    arith = ['(%s %% mpi.size(), %s // mpi.size())' % (G, G), '(%s %% mpi.size(), int(%s / mpi.size()))' % (G, G),
             '(%s %% mpi.size(), int(%s // mpi.size()))' % (G, G), 'divmod(%s, mpi.size())[::-1]' % G]
    va = classify(val, arith, scope)
    equal_counts = any(not _permits(rg, 1) and _permits(rg, 0) for rg, _ in ranges)
    if va[0] == 'match' and equal_counts:
        ck.ok(rule, mod, r, construct, 'arithmetic shortcut on a path where all per-rank counts are equal (equal stripes are packed)')
        return
    if opaque:
        ck.missing(rule, 'construct not recognised at %s: %s under the condition `%s` (is it limited to packed stripes?)' % (mod.loc(r), construct, ' and '.join(opaque)[:120]))
        return
    when = ' and '.join(repr(c) for _, c in ranges) or 'no condition on the per-rank counts'
    ck.bad(rule, mod, r, F, construct,
           'randind returns `%s` without looking the drawn position up in the rank table [path condition: %s]. Position g of a striped array is '
           '(g %% size, g // size) only for PACKED stripes (rank r holds len(range(r, total, size)) elements); a bound on the spread of the counts '
           'that admits 1 does not give that: counts [1, 2] on two ranks, drawn position 2 -> (0, 1), but rank 0 holds one element - the pair points '
           'past the end of the owner\'s array and element 1 of rank 1 can never be drawn (choice neither valid nor uniform)' % (u(val)[:100], when))


# ---------------------------------------------------------------------------
# hidden state: module-level mutable containers (memo tables).  The striped
# operations are specified as functions of their arguments (and of what the
# collectives deliver in this call); a value taken from a table that outlives
# the call is the value of THIS call only if the key it is stored under
# determines everything the stored value was computed from.

_CONTAINER_CTORS = {'dict', 'list', 'set', 'OrderedDict', 'defaultdict', 'WeakValueDictionary', 'WeakKeyDictionary', 'Counter', 'deque'}
_CONTAINER_WRITERS = _GROWING | {'pop', 'popitem', 'clear', 'remove', 'discard', 'popleft', 'move_to_end', 'sort', 'reverse'}
# key components that determine the whole VALUE of the array / sequence _X
_INJECTIVE_KEYS = ['tuple(_X)', 'tuple(_X.tolist())', '_X.tobytes()', 'bytes(_X)', '_X.tostring()', 'tuple(map(int, _X))',
                   'tuple(int(_I) for _I in _X)', 'tuple([int(_I) for _I in _X])']


def module_containers(mod):
    """{name: binding statement} of the names bound at module level to a
    mutable container (display, comprehension or constructor call)."""
    memo = getattr(mod, '_c14_containers', None)
    if memo is not None:
        return memo
    out = {}

    def scan(body):
        for s in body:
            if isinstance(s, (ast.Assign, ast.AnnAssign)) and s.value is not None:
                v = s.value
                if isinstance(v, (ast.Dict, ast.List, ast.Set, ast.DictComp, ast.ListComp, ast.SetComp)) or \
                        (isinstance(v, ast.Call) and (call_name(v) or '').split('.')[-1] in _CONTAINER_CTORS):
                    for t in (s.targets if isinstance(s, ast.Assign) else [s.target]):
                        if isinstance(t, ast.Name):
                            out[t.id] = s
            elif isinstance(s, (ast.If, ast.Try, ast.With)):
                scan(s.body)
                scan(getattr(s, 'orelse', []) or [])
                scan(getattr(s, 'finalbody', []) or [])
                for h in getattr(s, 'handlers', []) or []:
                    scan(h.body)
    scan(mod.tree.body)
    mod._c14_containers = out
    return out


def _module_level_names(mod):
    import builtins
    memo = getattr(mod, '_c14_module_names', None)
    if memo is not None:
        return memo
    out = set(dir(builtins))
    for s in ast.walk(mod.tree):
        if mod.enclosing_function(s) is not None:
            continue
        if isinstance(s, (ast.Import, ast.ImportFrom)):
            out.update((a.asname or a.name).split('.')[0] for a in s.names)
        elif isinstance(s, (ast.FunctionDef, ast.AsyncFunctionDef, ast.ClassDef)):
            out.add(s.name)
        elif isinstance(s, ast.Assign) and mod.parent.get(s) is mod.tree:
            for t in s.targets:
                out.update(target_names(t))
    mod._c14_module_names = out
    return out


def _rebinds_locally(fn, name):
    if name in params(fn):
        return True
    if any(isinstance(s, ast.Global) and name in s.names for s in walk_local(fn)):
        return False
    return any(isinstance(x, ast.Name) and x.id == name and isinstance(x.ctx, (ast.Store, ast.Del)) for x in walk_local(fn))


def container_uses(mod, fn, name):
    """Uses of the module-level container `name` inside `fn`, by kind:
    'lookup' (`G[K]` read; node = the Subscript), 'member' (`K in G`),
    'store' ((statement, key, value) of `G[K] = V` / `G.setdefault(K, V)`),
    'write' (any other in-place update), 'other' (anything else: G.get(K),
    iteration, len, passing the object on)."""
    out = {'lookup': [], 'member': [], 'store': [], 'write': [], 'other': []}
    if _rebinds_locally(fn, name):
        return out
    for x in walk_local(fn):
        if not (isinstance(x, ast.Name) and x.id == name):
            continue
        p = mod.parent.get(x)
        if isinstance(p, ast.Subscript) and p.value is x:
            if isinstance(p.ctx, ast.Load):
                out['lookup'].append(p)
                continue
            st = mod.enclosing_stmt(p)
            if isinstance(st, ast.Assign) and len(st.targets) == 1 and st.targets[0] is p:
                out['store'].append((st, p.slice, st.value))
            else:
                out['write'].append(st)
            continue
        if isinstance(p, ast.Compare) and any(c is x for c in p.comparators) and all(isinstance(o, (ast.In, ast.NotIn)) for o in p.ops):
            out['member'].append(p)
            continue
        if isinstance(p, ast.Attribute) and p.value is x and isinstance(mod.parent.get(p), ast.Call) and mod.parent.get(p).func is p:
            call = mod.parent.get(p)
            if p.attr == 'setdefault' and len(call.args) == 2:
                out['store'].append((mod.enclosing_stmt(call), call.args[0], call.args[1]))
                out['lookup'].append(call)
                continue
            if p.attr in _CONTAINER_WRITERS:
                out['write'].append(mod.enclosing_stmt(call))
                continue
        out['other'].append(x)
    return out


class _TupleItem(ast.NodeTransformer):
    """`(a, b)[0]` -> `a` (what the expansion of `key[0]` leaves behind)."""

    def visit_Subscript(self, node):
        self.generic_visit(node)
        k = const_value(node.slice)
        if isinstance(node.value, (ast.Tuple, ast.List)) and isinstance(k, int) and not isinstance(k, bool) and \
                -len(node.value.elts) <= k < len(node.value.elts) and not any(isinstance(e, ast.Starred) for e in node.value.elts):
            return node.value.elts[k]
        return node


class _SubstKey(ast.NodeTransformer):
    def __init__(self, texts):
        self.texts = texts

    def visit(self, node):
        if isinstance(node, ast.expr) and not isinstance(node, ast.Constant):
            k = self.texts.get(u(node))
            if k is not None:
                return ast.Name(id='__key%d__' % k, ctx=ast.Load())
        return self.generic_visit(node)


def memo_verdict(mod, fn, fi, uses, lookup):
    """Does the key of the memo read `lookup` (`G[K]` / `G.setdefault(K, V)`)
    determine the value found there?  Every store `G[K'] = V` of the function
    must use the same key expression (after expansion), and every operand V
    was computed from - a name that is neither module-level nor bound by a
    comprehension, after the temporaries have been expanded - must be a
    component of the key, or be covered by a component that encodes its whole
    value (tuple(x), x.tobytes(), ...).  A key that contains only a lossy
    function of an operand (its sum, its length, its id) does not determine
    it.  Returns (verdict, stored value or None, explanation): 'match' /
    'near' (V is a pure function of operands the key leaves open) / 'far'."""
    here = fi.stmt(lookup)
    key = lookup.slice if isinstance(lookup, ast.Subscript) else lookup.args[0]
    kx = _TupleItem().visit(copy.deepcopy(xn(fi, key, here)))
    if not uses['store']:
        return 'far', None, 'no store into the table in this function'
    if uses['write'] or uses['other']:
        return 'far', None, 'the table is also used in a way this rule does not interpret'
    glob = _module_level_names(mod)
    value, open_ = None, []
    for st, k2, v in uses['store']:
        k2x = _TupleItem().visit(copy.deepcopy(xn(fi, k2, st)))
        if u(k2x) != u(kx):
            return 'far', None, 'stored under `%s`, read under `%s`' % (u(k2x)[:80], u(kx)[:80])
        vx = _TupleItem().visit(copy.deepcopy(xn(fi, v, st)))
        comps = list(k2x.elts) if isinstance(k2x, ast.Tuple) else [k2x]
        texts = {}
        for i, c in enumerate(comps):
            texts.setdefault(u(c), i)
        covered = set()
        for c in comps:
            m = _classify(c, _INJECTIVE_KEYS)
            if m[0] == 'match' and isinstance(m[1].get('_X'), ast.Name):
                covered.add(m[1]['_X'].id)
        rest = _SubstKey(texts).visit(copy.deepcopy(vx))
        bound = _comp_bound(rest)
        deps = {x.id for x in ast.walk(rest) if isinstance(x, ast.Name) and isinstance(x.ctx, ast.Load) and not x.id.startswith('__key') and
                x.id not in bound and x.id not in glob and x.id not in _GLOBALS and x.id not in _NEUTRAL}
        left = sorted(deps - covered)
        if left:
            lossy = [u(c) for c in comps if names_loaded(c) & set(left)]
            open_.append((st, vx, left, lossy))
        value = vx
    if not open_:
        return 'match', (value if len(uses['store']) == 1 else None), 'the key `%s` determines every operand of the stored value' % u(kx)[:100]
    st, vx, left, lossy = open_[0]
    msg = ('the value stored under the key `%s` is computed from %s (`%s`), which the key does not determine%s: a later call with the same key and a '
           'different %s is answered with the value of the EARLIER call (state that outlives the call; the result is no longer a function of this '
           'call\'s data)' % (u(kx)[:100], ', '.join('`%s`' % x for x in left), u(vx)[:160],
                              ' (it enters the key only through %s)' % ', '.join('`%s`' % t[:60] for t in lossy) if lossy else '', left[0]))
    # a violation only if each open operand is a datum of THIS call: a parameter, or a value computed directly from
    # parameters (e.g. the all-gathered local lengths); a name built up by statements this rule does not follow (a loop
    # filling a table) may well be determined by the key: incomplete
    ps = set(params(fn))

    def per_call(x):
        defs = fi.rd.defs_at(st, x)
        if defs == {'PARAM'}:
            return True
        if len(defs) != 1:
            return False
        site = next(iter(defs))
        v = fi.def_value(site, x) if site not in ('PARAM', 'UNBOUND') and isinstance(site, (ast.Assign, ast.AnnAssign)) else None
        if v is None:
            return False
        free = {n for n in names_loaded(v) if n not in glob and n not in _GLOBALS and n not in _NEUTRAL and n not in _comp_bound(v)}
        return bool(free) and free <= ps and all(fi.rd.defs_at(site, n) == {'PARAM'} for n in free)
    return ('near' if _pure(vx) and all(per_call(x) for x in left) else 'far'), None, msg


HIDDEN_STATE_MODULES = (OPS, IO, KC, KM, HY)


def d24_hidden_state(ck):
    """No function of the MPI layer / the distributed clustering code answers
    from module-level mutable state unless the key of the lookup determines
    the stored value (see memo_verdict)."""
    rule = 'C14.D11.hidden-state'
    for rel in HIDDEN_STATE_MODULES:
        mod = ck.repo.mod(rel)
        found = 0
        for G in sorted(module_containers(mod)):
            per_fn = [(q, f, container_uses(mod, f, G)) for q, f in sorted(mod.functions.items())]
            if not any(us['store'] or us['write'] for _, _, us in per_fn):
                continue            # never updated by a function: a constant table
            for q, f, us in per_fn:
                if not (us['lookup'] or us['other']):
                    continue
                found += 1
                fi = finfo(mod, f)
                for x in us['other']:
                    ck.missing(rule, 'construct not recognised at %s: the module-level container `%s` (updated by functions of the module) is read in %s '
                                     'other than by `%s[key]` / `key in %s`: %s' % (mod.loc(x), G, q, G, G, u(mod.enclosing_stmt(x)).split('\n')[0][:100]))
                for lk in us['lookup']:
                    v, _, msg = memo_verdict(mod, f, fi, us, lk)
                    ck.decide(v if v == 'match' else (v, 1, None), rule + '.memo-key', mod, lk, q, u(lk)[:160], msg, msg)
        if not found:
            ck.ok(rule, mod, None, '%s: functions reading module-level mutable containers' % rel, 'none: results depend on the arguments (and the collectives) of the call only')


def _d4_randind_table(ck, rule, mod, fr, fi, F, P, r, vv, facts):
    """the rank table, the per-rank counts and the drawn index behind the
    return `r` that reads the table; facts['G'] / facts['N'] receive the
    names of the drawn index and of the counts once they are identified."""
    A, G = vv[1]['_A'], vv[1]['_G']
    if isinstance(A, ast.Name) and not isinstance(G, ast.Name):
        A, G = G, A
    if isinstance(G, ast.Name):
        facts['G'] = G.id
    rr = rule + '.randind-table'
    if isinstance(A, ast.Subscript) and isinstance(A.value, ast.Name) and A.value.id in module_containers(mod):
        # the table is taken from a module-level memo: the hidden-state rule (C14.D11) decides whether the key
        # determines it; if it does, the stored value is the table of this call
        us = container_uses(mod, fr, A.value.id)
        mv = memo_verdict(mod, fr, fi, us, us['lookup'][0]) if len(us['lookup']) == 1 else ('far', None, '')
        if mv[0] != 'match' or mv[1] is None:
            if mv[0] == 'match' or not us['lookup']:
                ck.missing(rr, 'randind: the rank table is read from the module-level container `%s` in a way that was not understood' % A.value.id)
            return
        A = norm(mv[1])
    v2 = _classify(A, ['ra.RaggedArray(np.concatenate([np.arange(_T)[_R::mpi.size()] for _R in range(mpi.size())]), lengths=_N, error_checking=False)',
                       'ra.RaggedArray(np.concatenate([np.arange(_T)[_R::mpi.size()] for _R in range(mpi.size())]), lengths=_N)',
                       'ra.RaggedArray(np.concatenate(tuple(np.arange(_T)[_R::mpi.size()] for _R in range(mpi.size()))), lengths=_N, error_checking=False)'])
    if v2[0] != 'match' or not isinstance(v2[1]['_N'], ast.Name):
        names = {x.id for x in ast.walk(A) if isinstance(x, ast.Name)} - _comp_bound(A)
        v2 = ('near' if closed_over(A, names) and v2[1] <= 4 else 'far', v2[1], v2[2])
        ck.decide(v2, rr, mod, r, F, u(A)[:200], '', 'the rank table must be RaggedArray(concatenate([arange(total)[r::size] for r in range(size)]), lengths=<per-rank counts>): '
                  'row r lists the global positions r, r+size, ...')
        return
    N = v2[1]['_N'].id
    facts['N'] = N
    ck.check(u(v2[1]['_T']) in ('sum(%s)' % N, '%s.sum()' % N), rr, mod, r, F, u(A)[:200], 'row r of the table lists the global positions r, r+size, ... below the total count',
             'the positions striped over the ranks must be arange(sum(%s)), found arange(%s)' % (N, u(v2[1]['_T'])))
    # per-rank counts: all-gathered local lengths
    nd = [s for s in fi.rd.defs_at(r, N) if s not in ('PARAM', 'UNBOUND')]
    if len(nd) == 1 and fi.def_value(nd[0], N) is not None:
        v3 = classify(norm(fi.def_value(nd[0], N)), ['np.array(mpi.comm.allgather(len(%s)))' % P, 'mpi.comm.allgather(len(%s))' % P, 'np.array(mpi.comm.allgather(%s.shape[0]))' % P,
                                                    'np.asarray(mpi.comm.allgather(len(%s)))' % P], set())
        ck.decide(v3 if v3[0] == 'match' else ('far', v3[1], v3[2]), rr, mod, nd[0], F, u(nd[0]), 'row lengths = all-gathered local lengths', 'the per-rank counts must be the all-gathered len(%s)' % P)
    else:
        ck.missing(rr, 'randind: definition of the per-rank counts `%s`' % N)
    # the drawn index: bcast from the rank that draws, executed by every rank
    if not isinstance(G, ast.Name):
        ck.missing(rr, 'randind: drawn index is not a name: %s' % u(G))
        return
    facts['G'] = G.id
    gd = fi.rd.defs_at(r, G.id)
    site = next(iter(gd)) if len(gd) == 1 else None
    c = fi.def_value(site, G.id) if site not in (None, 'PARAM', 'UNBOUND') else None
    if not (isinstance(c, ast.Call) and collective_name(c) == 'bcast'):
        if c is not None and not any(collective_name(x) for x in ast.walk(c) if isinstance(x, ast.Call)) and len(gd) == 1:
            ck.bad(rr, mod, site, F, u(site), 'the drawn index is not broadcast: every rank draws (or keeps) its own value and the ranks disagree on the chosen element')
        else:
            ck.missing(rr, 'randind: the drawn index `%s` is not the result of one bcast on every path (%d definitions reach the return)' % (G.id, len(gd)))
        return
    root, obj = arg(c, 1, 'root'), arg(c, 0, 'obj')
    k = const_value(root) if root is not None else 0
    if not isinstance(k, int):
        ck.missing(rr, 'randind: bcast root is not a constant rank: %s' % u(c))
        return
    # who draws: the non-None definitions of the payload must sit under mpi.rank() == k
    draws = []
    if isinstance(obj, ast.Name):
        for s2 in fi.rd.defs_at(site, obj.id):
            v4 = fi.def_value(s2, obj.id) if s2 not in ('PARAM', 'UNBOUND') else None
            if v4 is None:
                draws.append((None, s2))
            elif not (isinstance(v4, ast.Constant) and v4.value is None):
                draws.append((v4, s2))
    elif isinstance(obj, ast.IfExp):
        cj = conjuncts(obj.test, True) or []
        ok = any(atom_rel(fi, x, 'mpi.rank()', str(k), site) == '==' for x in cj)
        draws.append((obj.body if ok else None, site))
    else:
        draws.append((None, site))
    okd = bool(draws)
    for v4, s2 in draws:
        if v4 is None:
            okd = None
            break
        if s2 is not site and not any(atom_rel(fi, x, 'mpi.rank()', str(k), o) == '==' for x, o in path_atoms(fi, s2)):
            okd = False
    if okd is None:
        ck.missing(rr, 'randind: the payload of the bcast is not understood: %s' % u(c))
    else:
        ck.check(okd, rr, mod, site, F, u(site), 'the drawn index is broadcast from the rank that draws it (rank %d), by every rank' % k,
                 'the index is drawn on a rank other than the bcast root %d: the root broadcasts a value it never drew' % k)
        for v4, s2 in draws:
            v5 = classify(xn(fi, v4, s2), ['_RS.randint(sum(%s))' % N, '_RS.randint(%s.sum())' % N, '_RS.randint(0, sum(%s))' % N, '_RS.randint(0, %s.sum())' % N,
                                           '_RS.randint(low=0, high=sum(%s))' % N, '_RS.integers(sum(%s))' % N, '_RS.integers(0, sum(%s))' % N], {N})
            if v5[0] == 'far':
                # a draw through the RandomState of this function is not "pure": decide on the argument
                m = _classify(xn(fi, v4, s2), ['_RS.randint(_X)', '_RS.randint(0, _X)', '_RS.integers(_X)', '_RS.integers(0, _X)'])
                if m[0] == 'match' and closed_over(m[1]['_X'], {N}):
                    v5 = ('near', v5[1], v5[2])
            ck.decide(v5, rr, mod, s2, F, u(s2), 'uniform draw over all positions 0 .. total-1', 'the global index must be drawn uniformly from range(sum(%s))' % N)


def _df_sites(mod, fn):
    return [c for c in calls_in(fn) if (call_name(c) or '').split('.')[-1] == 'distribute_frame']


def _d4_distribute_sites(ck, rule):
    """Consumers: every distribute_frame(data, world_index, owner_rank) call
    whose owner/index arguments are the two components of one pair must take
    the FIRST component as owner and the second as index.  Producers: a pair
    built from the owner and index values of such a call must be (owner,
    index)."""
    nc = npd = 0
    for rel in (KM, KC):
        mod = ck.repo.mod(rel)
        for q, fn in mod.functions.items():
            sites = _df_sites(mod, fn)
            if not sites:
                continue
            ck.analysed(mod, fn)
            fi = finfo(mod, fn)
            binders = pair_binders(mod, fn)
            for c in sites:
                here = fi.stmt(c)
                o, w = arg(c, 2, 'owner_rank'), arg(c, 1, 'world_index')
                if o is None or w is None:
                    ck.missing(rule + '.consumers', '%s: owner/index arguments of %s not found' % (q, u(c)[:100]))
                    continue
                io = iw = None
                src = ''
                if isinstance(o, ast.Name) and isinstance(w, ast.Name):
                    io, iw = _pair_component(binders, mod, c, o.id), _pair_component(binders, mod, c, w.id)
                    same_binder = any(inside(mod, c, b[0]) and {o.id, w.id} == set(b[1]) for b in binders)
                    if not same_binder:
                        io = iw = None
                    src = 'unpacked pair'
                    if io is None:
                        uo, uw = unpack_source(fi, o.id, here), unpack_source(fi, w.id, here)
                        is_randind = uo is not None and isinstance(uo[0], ast.Call) and (call_name(uo[0]) or '').split('.')[-1] == 'randind'
                        if uo is not None and uw is not None and uo[2] is uw[2] and isinstance(uo[0], ast.Call) and not is_randind:
                            # the two results of some other function (an extracted helper):
                            # the order of ITS result tuple is its own business, not a pair
                            ck.ok(rule + '.consumers', mod, c, u(c), 'owner and index are two results of %s, not the components of a stored pair' % u(uo[0].func))
                            continue
                        if uo is not None and uw is not None and uo[2] is uw[2]:
                            io, iw, src = uo[1], uw[1], 'components of ' + u(uo[0])[:60]
                        elif uo is not None and isinstance(uo[0], ast.Call) and (call_name(uo[0]) or '').split('.')[-1] == 'randind':
                            # owner from randind; the index is broadcast by the owner
                            io, src = uo[1], 'randind'
                            iw = _bcast_index_component(ck, rule + '.consumers', mod, fn, fi, q, c, o, w, uo)
                            if iw is None:
                                continue
                elif isinstance(o, ast.Subscript) and isinstance(w, ast.Subscript) and isinstance(o.value, ast.Name) and isinstance(w.value, ast.Name) and \
                        o.value.id == w.value.id and isinstance(const_value(o.slice), int) and isinstance(const_value(w.slice), int):
                    io, iw, src = const_value(o.slice), const_value(w.slice), 'components of ' + o.value.id
                if io is None or iw is None:
                    continue        # not the two components of one pair (e.g. k-centers: argmax owner / gathered index)
                nc += 1
                ck.check((io, iw) == (0, 1), rule + '.consumers', mod, c, q, u(c), 'pair consumed as (owner_rank, world_index) [%s]' % src,
                         'the (owner rank, local index) pair must be passed as owner_rank=<first component>, world_index=<second component>; '
                         'found owner_rank=component %s, world_index=component %s' % (io, iw))
            # producers
            for t in walk_local(fn):
                if not (isinstance(t, ast.Tuple) and len(t.elts) == 2 and isinstance(t.ctx, ast.Load)) or _in_message(mod, t):
                    continue
                for c in sites:
                    o, w = arg(c, 2, 'owner_rank'), arg(c, 1, 'world_index')
                    if o is None or w is None:
                        continue
                    a, b = t.elts
                    if _same(fi, a, o) and _same(fi, b, w):
                        npd += 1
                        ck.ok(rule + '.producers', mod, t, '%s: %s' % (q, u(t)), 'pair produced as (owner rank, index on the owner) of the frame that was distributed')
                    elif _same(fi, a, w) and _same(fi, b, o):
                        npd += 1
                        ck.bad(rule + '.producers', mod, t, q, u(t), 'the pair is built as (index, owner): every consumer (distribute_frame, convert_local_indices, '
                               'the PAM update) reads pairs as (owner_rank, local_index)')
    ck.floor(rule + '.consumers', nc, 4, 'distribute_frame calls fed by an (owner, index) pair')
    ck.floor(rule + '.producers', npd, 2, '(owner, index) pairs built next to a distribute_frame call')


def _bcast_index_component(ck, rule, mod, fn, fi, q, call, o, w, uo):
    """_propose_new_center_amongst: `r, idx = randind(...)`; the frame index
    is state_inds[idx] broadcast by rank r.  Returns the component of the
    randind result that indexes the candidate list (expected 1), or None
    (reported)."""
    here = fi.stmt(call)
    rcall, rpos, rsite = uo
    subs = []
    roots = []
    for site in fi.rd.defs_at(here, w.id):
        v = fi.def_value(site, w.id) if site not in ('PARAM', 'UNBOUND') else None
        if not (isinstance(v, ast.Call) and collective_name(v) == 'bcast'):
            ck.missing(rule, '%s: the index passed to distribute_frame is not a bcast result: %s' % (q, u(site)[:100] if hasattr(site, 'lineno') else site))
            return None
        roots.append((arg(v, 1, 'root'), site))
        payloads = [arg(v, 0, 'obj')]
        if isinstance(payloads[0], ast.Name):
            payloads = [fi.def_value(s2, payloads[0].id) for s2 in fi.rd.defs_at(site, payloads[0].id) if s2 not in ('PARAM', 'UNBOUND')]
        for pl in payloads:
            for x in (ast.walk(pl) if pl is not None else []):
                if isinstance(x, ast.Subscript) and isinstance(x.slice, ast.Name):
                    us = unpack_source(fi, x.slice.id, site)
                    if us is not None and us[2] is rsite:
                        subs.append(us[1])
    for root, site in roots:
        ck.check(isinstance(root, ast.Name) and _same(fi, root, o), rule, mod, site, q, u(site), 'the local frame number is broadcast by the owner drawn by randind',
                 'the frame index must be broadcast with root = the owner rank returned by randind (`%s`)' % o.id)
    if not subs:
        ck.missing(rule, '%s: no <candidates>[<local index from randind>] in the broadcast payload' % q)
        return None
    if len(set(subs)) != 1:
        ck.missing(rule, '%s: the broadcast payload is indexed by different components of the randind result' % q)
        return None
    return subs[0]


def _d4_ctr_ids(ck, rule):
    mk = ck.repo.mod(KM)
    f = mk.func('ctr_ids_mpi')
    fi = finfo(mk, f)
    items = []
    for r in returns_of(f):
        items += collected(fi, f, r.value, r)
    n = 0
    for e, node in items:
        if not (isinstance(e, ast.Tuple) and len(e.elts) == 2):
            continue
        here = fi.stmt(node)
        mods = [isinstance(x, ast.BinOp) and isinstance(x.op, ast.Mod) and u(x.right) == 'mpi.size()' for x in (xn(fi, y, here) for y in e.elts)]
        if mods.count(True) != 1:
            ck.missing(rule, 'ctr_ids_mpi: cannot tell the owner component (<trajectory> %% size) of %s' % u(e))
            continue
        n += 1
        ck.check(mods[0], rule, mk, node, 'ctr_ids_mpi', u(node), 'produces (rank, local index) pairs', 'ctr_ids_mpi must append (owner rank, local index): the owner (trajectory % size) comes first')
    if not n:
        ck.missing(rule, 'ctr_ids_mpi: no (owner, index) pair collected into the result')


def _d4_local_centres(ck, rule):
    """kmedoids: the centre frames of THIS rank are the index parts of the
    pairs whose owner part equals mpi.rank()."""
    mk = ck.repo.mod(KM)
    f = mk.func('kmedoids')
    fi = finfo(mk, f)
    n = 0
    for comp in walk_local(f):
        if not isinstance(comp, (ast.ListComp, ast.GeneratorExp)) or len(comp.generators) != 1:
            continue
        g = comp.generators[0]
        here = fi.stmt(comp)

        def component(e):
            if isinstance(g.target, ast.Name) and isinstance(e, ast.Subscript) and isinstance(e.value, ast.Name) and e.value.id == g.target.id and \
                    isinstance(const_value(e.slice), int):
                return const_value(e.slice)
            if isinstance(g.target, (ast.Tuple, ast.List)) and len(g.target.elts) == 2 and isinstance(e, ast.Name):
                ids = [x.id if isinstance(x, ast.Name) else None for x in g.target.elts]
                return ids.index(e.id) if e.id in ids else None
            return None
        sel = None
        for t in g.ifs:
            for c in (conjuncts(t, True) or []):
                if isinstance(c, Cmp) and c.rel == '==':
                    l, r = c.lhs, c.rhs
                    if xt(fi, l, here) == 'mpi.rank()':
                        l, r = r, l
                    if xt(fi, r, here) == 'mpi.rank()' and component(l) is not None:
                        sel = component(l)
        if sel is None:
            continue
        n += 1
        got = component(comp.elt)
        if got is None:
            ck.missing(rule, 'kmedoids: element of the rank-filtered comprehension not understood: %s' % u(comp)[:120])
            continue
        ck.check((sel, got) == (0, 1), rule, mk, comp, 'kmedoids', u(comp), 'local centre frames = index part of pairs owned by this rank',
                 'local centre indices must be the SECOND component of the pairs whose FIRST component equals mpi.rank(); found filter on component %d, value component %d' % (sel, got))
    if not n:
        ck.missing(rule, 'kmedoids: selection of the centre pairs owned by this rank (`... if pair[0] == mpi.rank()`) not found')


def _on_owner(fi, mod, node, owner):
    """Is the expression `node` evaluated only on the rank `owner` (canonical
    text of the owner component)?  True: the path condition of its statement,
    the arm of a conditional expression, an earlier operand of an `and` or
    the filter of a comprehension asserts mpi.rank() == owner; False: no test
    on the rank at all; None: some test on the rank this rule cannot relate to
    the owner."""
    here = fi.stmt(node)
    other = False

    def atoms_say(cj, at):
        nonlocal other
        for c in (cj or []):
            if isinstance(c, Cmp):
                if atom_rel(fi, c, 'mpi.rank()', owner, at) == '==':
                    return True
                if 'mpi.rank()' in (xt(fi, c.lhs, at), xt(fi, c.rhs, at)):
                    other = True
            elif 'mpi.rank' in u(c[1]):
                other = True
        return False
    for a in fi.cfg.dom.get(here, ()):
        if isinstance(a, Assume):
            test = expand(fi, a.test, a.owner)
            cj = conjuncts(test, a.polarity)
            if cj is None:
                other = other or 'mpi.rank' in u(test)
            elif atoms_say(cj, a.owner):
                return True
    child, p = node, mod.parent.get(node)
    while p is not None and p is not here:
        if isinstance(p, ast.IfExp) and child is not p.test:
            cj = conjuncts(p.test, child is p.body)
            if cj is None:
                other = other or 'mpi.rank' in u(p.test)
            elif atoms_say(cj, here):
                return True
        if isinstance(p, ast.BoolOp) and isinstance(p.op, ast.And) and child in p.values:
            for prev in p.values[:p.values.index(child)]:
                if atoms_say(conjuncts(prev, True), here):
                    return True
        if isinstance(p, (ast.ListComp, ast.SetComp, ast.GeneratorExp, ast.DictComp)) and not any(child is g for g in p.generators):
            for g in p.generators:
                for t in g.ifs:
                    if atoms_say(conjuncts(t, True), here):
                        return True
        child, p = p, mod.parent.get(p)
    return None if other else False


def _owner_pairs(fi, mod, fn):
    """The (owner rank, owner-local index) pairs a function holds, as
    [(owner name, index name, valid(node))]: the two results of a randind
    call, and the two names a pair is unpacked into when the first one is
    used as an owner (compared with mpi.rank(), root of a collective,
    owner_rank of distribute_frame)."""
    out = []
    for st in walk_local(fn):
        if isinstance(st, ast.Assign) and len(st.targets) == 1 and isinstance(st.targets[0], (ast.Tuple, ast.List)) and len(st.targets[0].elts) == 2 and \
                all(isinstance(x, ast.Name) for x in st.targets[0].elts) and isinstance(st.value, ast.Call) and (call_name(st.value) or '').split('.')[-1] == 'randind':
            o, k = (x.id for x in st.targets[0].elts)

            def valid(node, _st=st, _o=o, _k=k):
                at = fi.stmt(node)
                return at is not None and fi.rd.defs_at(at, _k) == {_st} and fi.rd.defs_at(at, _o) == {_st}
            out.append((o, k, valid, 'the result of %s' % u(st.value.func)))
    owner_uses = set()
    for c in walk_local(fn):
        if isinstance(c, ast.Call):
            roots = [_root_of(c)] if collective_name(c) else ([arg(c, 2, 'owner_rank')] if (call_name(c) or '').split('.')[-1] == 'distribute_frame' else [])
            owner_uses |= {r.id for r in roots if isinstance(r, ast.Name)}
        if isinstance(c, ast.Compare) and len(c.ops) == 1 and isinstance(c.ops[0], (ast.Eq, ast.NotEq)):
            l, r = c.left, c.comparators[0]
            for x, y in ((l, r), (r, l)):
                if isinstance(x, ast.Name) and u(y) == 'mpi.rank()':
                    owner_uses.add(x.id)
    for scope, (a, b), it in pair_binders(mod, fn):
        if a in owner_uses:
            out.append((a, b, (lambda node, _sc=scope: inside(mod, node, _sc)), 'a pair of %s' % u(it)[:40]))
    return out


def d4_owner_local_index(ck, nu_of):
    """The second component of an (owner_rank, local_index) pair is a position
    in the OWNER's rank-local array.  Another rank's array is in general
    shorter (or empty): subscripting a rank-local array with that index
    anywhere but on the owner raises IndexError there - before the collective
    the other ranks are already waiting in.  Every such subscript must be
    evaluated under mpi.rank() == <owner component of the same pair>."""
    rule = 'C14.D4.pair-orientation.owner-local-index'
    n = 0
    for (rel, q), (nu, cls) in sorted(nu_of.items()):
        mod = ck.repo.mod(rel)
        fn = mod.functions.get(q)
        if fn is None:
            continue
        fi = finfo(mod, fn)
        pairs = _owner_pairs(fi, mod, fn)
        if not pairs:
            continue
        for sub in walk_local(fn):
            if not (isinstance(sub, ast.Subscript) and isinstance(sub.ctx, ast.Load) and isinstance(sub.value, ast.Name) and sub.value.id in nu):
                continue
            idx = sub.slice.elts[0] if isinstance(sub.slice, ast.Tuple) and sub.slice.elts else sub.slice
            if not isinstance(idx, ast.Name) or _in_message(mod, sub):
                continue
            for o, k, valid, src in pairs:
                if idx.id != k or not valid(sub):
                    continue
                n += 1
                ck.analysed(mod, fn)
                Y = sub.value.id
                where = _on_owner(fi, mod, sub, o)
                construct = 'rank-local `%s` subscripted with the owner-local index of (%s, %s)' % (Y, o, k)
                if where is True:
                    ck.ok(rule, mod, sub, construct, 'evaluated only on the owner (mpi.rank() == %s)' % o)
                elif where is None:
                    ck.missing(rule, 'construct not recognised at %s: %s - the rank test around it is not understood' % (mod.loc(sub), construct))
                else:
                    ck.bad(rule, mod, sub, q, construct,
                           '`%s` is a position in the array of rank `%s` (%s), but `%s` is evaluated by EVERY rank on its own rank-local `%s` (no '
                           '`mpi.rank() == %s` on the path): a rank that holds fewer than %s + 1 elements raises IndexError before it reaches the '
                           'next collective, and the other ranks wait there forever; a value passed to bcast by a non-root rank is ignored, but it is '
                           'still evaluated' % (k, o, src, u(sub), Y, o, k))
                break
    ck.floor(rule, n, 1, 'subscripts of a rank-local array with the owner-local index of an (owner, index) pair')


def d5_fallback(ck):
    rule = 'C14.D5.serial-fallback'
    ut = ck.repo.mod(UT)
    dc = ut.classes.get('DummyComm')
    dm = ut.classes.get('dummy_mpi4py')
    if dc is None or dm is None:
        raise AnalysisIncomplete('DummyComm / dummy_mpi4py not found')
    have_c = {f.name for f in dc.body if isinstance(f, ast.FunctionDef)}
    have_m = {f.name for f in dm.body if isinstance(f, ast.FunctionDef)} | {t for s in dm.body if isinstance(s, ast.Assign) for t in target_names(s.targets[0])}
    n = 0
    for rel in (OPS, IO, KC, KM, HY, CU, APP):
        mod = ck.repo.mod(rel)
        for q, fn in mod.functions.items():
            fi = None
            for c in walk_local(fn):
                if isinstance(c, ast.Attribute):
                    d = dotted(c) or ''
                    parts = d.split('.')
                    attr = owner = None
                    if len(parts) >= 3 and parts[-3:-1] == ['mpi', 'comm']:
                        attr, owner = parts[-1], 'comm'
                    elif len(parts) >= 3 and parts[-3:-1] == ['mpi', 'mpi4py']:
                        attr, owner = parts[-1], 'mpi4py'
                    if attr is None:
                        continue
                    n += 1
                    have = have_c if owner == 'comm' else have_m
                    if attr in have:
                        ck.ok(rule, mod, c, d, 'defined on the serial fallback')
                        continue
                    # reachable with size()==1 ?  the path condition of the use must exclude a single rank
                    fi = fi or finfo(mod, fn)
                    st = fi.stmt(c)
                    guards = [x for x in (int_range(fi, a, 'mpi.size()', o) for a, o in path_atoms(fi, st)) if x is not None and not _permits(x, 1)]
                    ck.check(bool(guards), rule, mod, c, q, d,
                             'not on the fallback, but unreachable when size() == 1 (early return)',
                             '`%s` is used on a path that runs with a single rank, but the serial fallback (%s in mpi/util.py) '
                             'does not define `%s`: enspara without MPI fails with AttributeError' % (d, 'DummyComm' if owner == 'comm' else 'dummy_mpi4py', attr))
    ck.floor(rule, n, 15, 'mpi.comm / mpi.mpi4py attribute uses')
    # DummyComm.bcast root must be 0; callers with size()==1 pass root 0 or loop rank 0
    init = ck.repo.mod(INIT)
    handlers = [h for t in init.tree.body if isinstance(t, ast.Try) for h in t.handlers
                if h.type is not None and 'ImportError' in u(h.type) or h.type is None]
    ok = False
    node = None
    for h in handlers:
        consts = {}
        imports = {}
        for st in ast.walk(h):
            if isinstance(st, ast.FunctionDef) and len(st.body) >= 1 and isinstance(st.body[-1], ast.Return):
                consts[st.name] = const_value(st.body[-1].value)
            if isinstance(st, ast.Assign) and isinstance(st.value, ast.Lambda) and isinstance(st.targets[0], ast.Name):
                consts[st.targets[0].id] = const_value(st.value.body)
            if isinstance(st, ast.ImportFrom) and (st.module or '').endswith('util'):
                for a in st.names:
                    imports[a.asname or a.name] = a.name
        node = h
        if consts.get('rank') == 0 and consts.get('size') == 1 and imports.get('comm') == 'DummyComm' and imports.get('mpi4py') == 'dummy_mpi4py':
            ok = True
            break
    ck.check(ok, rule + '.wiring', init, node, 'enspara.mpi', 'ImportError handler of enspara/mpi/__init__.py',
             'without mpi4py: rank() == 0, size() == 1, comm = DummyComm, mpi4py = dummy_mpi4py',
             'the ImportError handler must define rank() -> 0, size() -> 1 and bind comm / mpi4py to DummyComm / dummy_mpi4py of mpi/util.py')


def d6_nullness(ck):
    rule = 'C14.D6.checked-none-then-used'
    mod = ck.repo.mod(KM)
    fn = mod.func('_kmedoids_inputs_tree_mpi')
    ck.analysed(mod, fn)
    fi = finfo(mod, fn)
    IN, OUT = nullness.run(fi, {})
    n = 0
    for s in fi.cfg.nodes:
        if s in (ENTRY, EXIT) or isinstance(s, Assume):
            continue
        st = IN.get(s)
        if st is None:
            continue
        from ..cfg import header_exprs
        for e in header_exprs(s):
            for x in walk_expr(e):
                if isinstance(x, ast.Attribute) and isinstance(x.value, ast.Name) and isinstance(x.ctx, ast.Load):
                    n += 1
                    if st.get(x.value.id) == nullness.NONE:
                        ck.bad(rule, mod, s, '_kmedoids_inputs_tree_mpi', u(s)[:120],
                               '`%s` is known to be None on this path (it was just tested `is None`) and `%s` is used on it: '
                               'AttributeError - the MPI cold start cannot work' % (x.value.id, u(x)))
                if isinstance(x, ast.Subscript) and isinstance(x.value, ast.Name) and st.get(x.value.id) == nullness.NONE:
                    n += 1
                    ck.bad(rule, mod, s, '_kmedoids_inputs_tree_mpi', u(s)[:120], '`%s` is None on this path and is subscripted' % x.value.id)
    ck.ok(rule, mod, fn, '_kmedoids_inputs_tree_mpi: %d attribute/subscript uses checked' % n, 'nullness dataflow')
    X = params(fn)[0]       # the data array
    ar = [c for c in calls_in(fn) if call_name(c) == 'np.arange' and len(c.args) == 1 and isinstance(c.args[0], ast.Name) and c.args[0].id == X and
          fi.rd.defs_at(fi.stmt(c), X) == {'PARAM'}]
    for c in ar:
        ck.bad(rule + '.arange', mod, c, '_kmedoids_inputs_tree_mpi', u(c), 'np.arange(X) is given the data array instead of its length: TypeError on the same cold-start path')


def _allreduce_of(ck, rule, mod, fi, fn, F, name_expr, here, op, local_forms, P, what):
    """`name_expr` (evaluated at `here`) must be mpi.comm.allreduce(<local>,
    op=<op>) with <local> one of local_forms (a function of the local array P).
    Decides on the reaching definitions of the name, so dead stores, renamed
    or inlined temporaries do not matter."""
    sites = [(name_expr, here)]
    if isinstance(name_expr, ast.Name):
        sites = []
        for s in fi.rd.defs_at(here, name_expr.id):
            v = fi.def_value(s, name_expr.id) if s not in ('PARAM', 'UNBOUND') else None
            if v is None:
                ck.missing(rule, '%s: definition of `%s` not understood (%s)' % (F, name_expr.id, u(s)[:80] if hasattr(s, 'lineno') else s))
                return False
            sites.append((v, s))
    ok = True
    for v, s in sites:
        val = norm(v)
        scope = {P} | {x.id for x in ast.walk(val) if isinstance(x, ast.Name) and _temp(fi, x.id, s, False) is not None}
        vv = classify(val, ['mpi.comm.allreduce(_L, op=mpi.mpi4py.%s)' % op], scope)
        node = s if hasattr(s, 'lineno') else fn
        if vv[0] != 'match':
            if vv[0] == 'far' and not any(collective_name(x) for x in ast.walk(val) if isinstance(x, ast.Call)) and closed_over(xn(fi, v, s), {P}):
                vv = ('near', vv[1], vv[2])
            if isinstance(val, ast.Call) and collective_name(val) and (collective_name(val) != 'allreduce' or (
                    kwarg(val, 'op') is not None and (dotted(kwarg(val, 'op')) or '').startswith('mpi.mpi4py.'))):
                vv = ('near', vv[1], vv[2])      # a collective, but another one / another reduction operator
            ok = False
            ck.decide(vv, rule, mod, node, F, u(node) if node is not fn else u(v), '',
                      '%s must be the all-reduced %s of the local value over all ranks; deriving it without a collective (e.g. <local> * mpi.size()) is '
                      'only right when every rank holds the same share' % (what, op))
            continue
        loc = xn(fi, vv[1]['_L'], s)
        v2 = classify(loc, local_forms, {P})
        ok = ck.decide(v2, rule, mod, node, F, u(node) + '  [local: %s]' % u(loc), '%s = allreduce(%s, %s)' % (what, u(loc), op),
                       'the value reduced with %s must be %s of the local array `%s`' % (op, ' / '.join(local_forms), P)) and ok
    return ok


def _inline_local_call(fi, fn, call):
    """`f(args)` where f is a def nested in fn whose body is a chain of
    `if c: return A else: return B` / `return X`: the equivalent conditional
    expression over the ARGUMENTS, else None."""
    if not isinstance(call.func, ast.Name):
        return None
    defs = [s for s in fn.body if isinstance(s, ast.FunctionDef) and s.name == call.func.id]
    if len(defs) != 1 or call.keywords or len(call.args) != len(params(defs[0])) or defs[0].args.defaults:
        return None
    sub = dict(zip(params(defs[0]), call.args))

    def subst(e):
        class S(ast.NodeTransformer):
            def visit_Name(self, n):
                return copy.deepcopy(sub[n.id]) if n.id in sub and isinstance(n.ctx, ast.Load) else n
        return S().visit(copy.deepcopy(e))

    def body(stmts):
        stmts = [s for s in stmts if not (isinstance(s, ast.Expr) and isinstance(s.value, ast.Constant)) and not isinstance(s, ast.Pass)]
        if not stmts:
            return None
        s = stmts[0]
        if isinstance(s, ast.Return) and s.value is not None:
            return subst(s.value)
        if isinstance(s, ast.If):
            a = body(s.body)
            b = body(s.orelse if s.orelse else stmts[1:])
            if a is None or b is None:
                return None
            return ast.IfExp(test=subst(s.test), body=a, orelse=b)
        return None
    return body(defs[0].body)


def _mode_flag(t):
    """True / False if the atomic test `t` is the MPI-mode flag / its exact
    negation (`mpi.size() == 1`, `mpi.size() <= 1`, `mpi.size() < 2`), else None."""
    if is_mpi_mode_test(t):
        return True
    if isinstance(t, ast.Compare) and len(t.ops) == 1:
        c = Cmp(t.left, type(t.ops[0]), t.comparators[0]).negated()
        try:
            neg = ast.fix_missing_locations(ast.Compare(left=c.lhs, ops=[c.op()], comparators=[c.rhs]))
        except Exception:
            return None
        if is_mpi_mode_test(neg):
            return False
    return None


def _test_atoms(t, out):
    """the atomic conditions of a boolean test as {key: set of names}; the
    MPI-mode flag is not an atom (it is a constant of the evaluation)."""
    from ..patterns import canon_atom
    if isinstance(t, ast.BoolOp):
        for v in t.values:
            _test_atoms(v, out)
    elif isinstance(t, ast.UnaryOp) and isinstance(t.op, ast.Not):
        _test_atoms(t.operand, out)
    elif _mode_flag(t) is None:
        if isinstance(t, ast.Compare) and len(t.ops) == 1:
            key = canon_atom(Cmp(t.left, type(t.ops[0]), t.comparators[0]))[0]
        else:
            key = u(t)
        out[key] = {x.id for x in ast.walk(t) if isinstance(x, ast.Name)}
    return out


def _test_value(t, env):
    """truth value of a boolean test in MPI mode under the assignment `env`
    of its atomic conditions."""
    from ..patterns import canon_atom
    if isinstance(t, ast.BoolOp):
        vals = [_test_value(v, env) for v in t.values]
        return all(vals) if isinstance(t.op, ast.And) else any(vals)
    if isinstance(t, ast.UnaryOp) and isinstance(t.op, ast.Not):
        return not _test_value(t.operand, env)
    m = _mode_flag(t)
    if m is not None:
        return m
    if isinstance(t, ast.Compare) and len(t.ops) == 1:
        key, pol = canon_atom(Cmp(t.left, type(t.ops[0]), t.comparators[0]))
        return env[key] if pol else not env[key]
    return env[u(t)]


def _mentions_mode(t):
    return any(isinstance(x, ast.expr) and _mode_flag(x) is not None for x in ast.walk(t))


def mpi_reach(conds):
    """Can the conditions [(test, polarity)] all hold in MPI mode?  Truth
    table over the atomic conditions of the tests that mention the mode flag
    (mpi_mode / world size > 1 := True; a condition that does not mention the
    flag is taken to be independent of the mode).  'no': they imply the serial
    mode; 'yes': they hold in MPI mode for some values of at most one further
    condition per input (the remaining atoms speak about pairwise different
    names, so every combination of their truth values occurs); 'maybe':
    satisfiable in the table, but the atoms share operands (they need not be
    independent) or there are too many of them."""
    import itertools
    rel = [(t, p) for t, p in conds if _mentions_mode(t)]
    atoms = {}
    for t, _ in rel:
        _test_atoms(t, atoms)
    keys = sorted(atoms, key=repr)
    if len(keys) > 6:
        return 'maybe'
    sat = False
    for vals in itertools.product((False, True), repeat=len(keys)):
        env = dict(zip(keys, vals))
        if all(bool(_test_value(t, env)) == bool(p) for t, p in rel):
            sat = True
            break
    if not sat:
        return 'no'
    seen = set()
    for k in keys:
        if atoms[k] & seen:
            return 'maybe'
        seen |= atoms[k]
    return 'yes'


def top_arms(e):
    """ifexp_arms for an expression that IS a (nested) conditional
    expression: `A if c else B` evaluates c and then exactly one arm, so the
    decomposition needs no purity of the arms; inside each arm the
    conditionals in pure contexts are pulled out by ifexp_arms."""
    if isinstance(e, ast.IfExp):
        return [([(e.test, True)] + c, v) for c, v in top_arms(e.body)] + \
               [([(e.test, False)] + c, v) for c, v in top_arms(e.orelse)]
    return ifexp_arms(e)


def _local_max_forms(P):
    """the local term of a MAX reduction: the maximum of the local array, or -
    on a rank that owns nothing - the identity of max (-inf)."""
    forms = ['%s.max()' % P, '%s.max(initial=-np.inf)' % P]
    for g in ('0 < len(%s)', 'len(%s)', '%s.size', '0 < %s.size', 'len(%s) != 0', '0 < %s.shape[0]', '1 <= len(%s)'):
        forms.append('%s.max() if %s else -np.inf' % (P, g % P))
        forms.append("%s.max() if %s else -float('inf')" % (P, g % P))
    for g in ('len(%s) == 0', '%s.size == 0', 'len(%s) < 1'):
        forms.append('-np.inf if %s else %s.max()' % (g % P, P))
    return forms


def d8_reductions(ck):
    rule = 'C14.D8.reductions'
    mod = ck.repo.mod(OPS)
    # ---- striped mean
    fn = mod.func('striped_array_mean')
    ck.analysed(mod, fn)
    fi = finfo(mod, fn)
    F = 'striped_array_mean'
    P = params(fn)[0]
    n = 0
    for r in returns_of(fn):
        serial = any(atom_rel(fi, c, 'mpi.size()', '1', o) == '==' for c, o in path_atoms(fi, r))
        val = xn(fi, r.value, r)
        if serial:
            vv = classify(val, ['%s.sum() / len(%s)' % (P, P), '%s.mean()' % P, '%s.sum() / %s.shape[0]' % (P, P)], {P})
            ck.decide(vv, rule, mod, r, F, 'single rank: ' + u(val), 'with one rank the mean is the local mean', 'with a single rank the striped mean must be sum/len of the local array')
            continue
        n += 1
        if not (isinstance(r.value, ast.BinOp) and isinstance(r.value.op, ast.Div)):
            vv = ('near', 1, 'global_sum / global_len') if closed_over(val, {P}) else ('far', 1, None)
            ck.decide(vv, rule, mod, r, F, 'return ' + u(r.value), '', 'the striped mean must be <all-reduced sum> / <all-reduced count>')
            continue
        ck.ok(rule, mod, r, 'return ' + u(r.value), 'mean = global sum / global count')
        _allreduce_of(ck, rule, mod, fi, fn, F, r.value.left, r, 'SUM', ['%s.sum()' % P], P, 'the numerator (global sum)')
        _allreduce_of(ck, rule, mod, fi, fn, F, r.value.right, r, 'SUM', ['len(%s)' % P, '%s.shape[0]' % P], P, 'the denominator (global element count)')
    ck.floor(rule, n, 1, 'multi-rank return of striped_array_mean')
    # ---- striped max
    fm = mod.func('striped_array_max')
    ck.analysed(mod, fm)
    fim = finfo(mod, fm)
    Pm = params(fm)[0]
    rets = returns_of(fm)
    if not rets:
        ck.missing(rule, 'striped_array_max: no return')
    for r in rets:
        if any(atom_rel(fim, c, 'mpi.size()', '1', o) == '==' for c, o in path_atoms(fim, r)):
            vv = classify(xn(fim, r.value, r), ['%s.max()' % Pm], {Pm})
            ck.decide(vv, rule, mod, r, 'striped_array_max', 'single rank: ' + u(r.value), 'with one rank the max is the local max', 'with a single rank the striped max must be the local max')
            continue
        _allreduce_of(ck, rule, mod, fim, fm, 'striped_array_max', r.value, r, 'MAX', _local_max_forms(Pm), Pm, 'the striped max')
    # ---- _msq uses the striped mean
    mk = ck.repo.mod(KM)
    f = mk.func('_msq')
    fk = finfo(mk, f)
    x = params(f)[0]
    for r in returns_of(f):
        vv = classify(xn(fk, r.value, r), ['mpi.ops.striped_array_mean(np.square(%s))' % x, 'mpi.ops.striped_array_mean(%s ** 2)' % x, 'mpi.ops.striped_array_mean(%s * %s)' % (x, x),
                                           'mpi.ops.striped_array_mean(np.power(%s, 2))' % x], {x})
        if vv[0] == 'far':
            # striped_array_mean is a known package reduction: any other arrangement of it with numpy functions of x is a different cost
            t = copy.deepcopy(xn(fk, r.value, r))
            calls = [c for c in ast.walk(t) if isinstance(c, ast.Call)]
            if all((call_name(c) or '') == 'mpi.ops.striped_array_mean' or _pure(ast.Call(func=c.func, args=[], keywords=[])) for c in calls) and \
                    all(y.id in (x,) or y.id in _GLOBALS or y.id in _NEUTRAL for y in ast.walk(t) if isinstance(y, ast.Name)):
                vv = ('near', vv[1], vv[2])
        ck.decide(vv, rule + '.cost', mk, r, '_msq', u(r), 'k-medoids cost = global mean of squared distances (uniform on all ranks)',
                  'the default cost must be the striped (global) mean of squared distances')
    if not returns_of(f):
        ck.missing(rule + '.cost', '_msq: no return')
    # ---- kcenters: the stopping radius in MPI mode
    kc = ck.repo.mod(KC)
    f = kc.func('kcenters')
    fc = finfo(kc, f)
    ps = params(f)
    cut = 'dist_cutoff' if 'dist_cutoff' in ps else (ps[3] if len(ps) > 3 else None)
    # the loop condition is located by role: an atom `<cutoff> < <radius>` among the
    # conditions under which the loop goes on (its test and the guard clauses
    # `if not c: break` at the head of its body)
    loops = []
    for l in walk_local(f):
        if isinstance(l, ast.While):
            for test, pol, owner in loop_continue_tests(l):
                for c in (conjuncts(test, pol) or []):
                    if isinstance(c, Cmp) and c.as_less() is not None:
                        small, strict, big = c.as_less()
                        if u(small) == cut:
                            loops.append((l, big, owner))
    rs = rule + '.stop-test'
    if len(loops) != 1:
        ck.missing(rs, 'kcenters: the loop `while ... <radius> > %s` (found %d)' % (cut, len(loops)))
        return
    loop, radius, use = loops[0]
    # the distance array handed to / returned by the iteration inside the loop
    D = None
    for s in walk_local(loop):
        if isinstance(s, ast.Assign) and isinstance(s.targets[0], ast.Tuple) and len(s.targets[0].elts) == 4 and isinstance(s.value, ast.Call) and \
                isinstance(s.targets[0].elts[1], ast.Name):
            D = s.targets[0].elts[1].id
    if D is None:
        # the same result read by index: `out = iteration(...)` ... `X = out[1]`
        for s in walk_local(loop):
            if isinstance(s, ast.Assign) and len(s.targets) == 1 and isinstance(s.targets[0], ast.Name) and isinstance(s.value, ast.Subscript) and \
                    const_value(s.value.slice) == 1 and isinstance(s.value.value, ast.Name) and not isinstance(s.value.slice, ast.Slice):
                c, _ = value_call(fc, s.value.value, s)
                if c is not None and not _pure(c):
                    D = s.targets[0].id
    D = D or 'distances'
    if isinstance(radius, ast.Name):
        M = radius.id
        sites = sorted(fc.rd.defs_at(use, M), key=lambda s: getattr(s, 'lineno', 0))
    else:
        # the radius is computed in the condition itself: one evaluation site
        M = u(radius)
        sites = [use]
    nd = 0
    for site in sites:
        if site in ('PARAM', 'UNBOUND'):
            ck.missing(rs, 'kcenters: `%s` may be %s at the loop test' % (M, site))
            continue
        v = fc.def_value(site, M) if isinstance(radius, ast.Name) else radius
        if v is None:
            ck.missing(rs, 'kcenters: definition of `%s` not understood: %s' % (M, u(site)[:80]))
            continue
        nd += 1
        # the conditions under which this definition executes (dominating branch
        # assumptions, named conditions expanded) ...
        path = []
        for a in fc.cfg.dom.get(site, ()):
            if isinstance(a, Assume):
                t = a.test
                if any(isinstance(x, ast.Name) and x.id != 'mpi_mode' for x in ast.walk(t)):
                    t = expand(fc, t, a.owner, stop=('mpi_mode',))
                path.append((t, a.polarity))
        if mpi_reach(path) == 'no':
            ck.ok(rs, kc, site, u(site), 'serial arm')
            continue
        e = xn(fc, v, site, stop=(D,))
        if isinstance(e, ast.Call):
            inl = _inline_local_call(fc, f, e)
            if inl is not None:
                e = norm(inl)
        # ... and the value as a decision list over its conditional expressions: EVERY arm
        # that can be taken in MPI mode - whatever else its condition asks for (a cutoff
        # that was given, a first iteration ...) - must be the all-reduced maximum
        saw_mode = any(_mentions_mode(t) for t, _ in path)
        for conds, arm in top_arms(e):
            saw_mode = saw_mode or any(_mentions_mode(t) for t, _ in conds)
            reach = mpi_reach(path + conds)
            if reach == 'no':
                continue
            arm = norm(arm)
            vv = classify(arm, ['mpi.ops.striped_array_max(%s)' % D], {D})
            if vv[0] == 'far' and not saw_mode:
                ck.missing(rs, 'kcenters: cannot see the MPI-mode value of the stopping radius in `%s`' % u(site)[:120])
                continue
            if vv[0] == 'near' and reach != 'yes':
                vv = ('far', vv[1], vv[2])        # wrong value, but under conditions the table cannot show to be satisfiable in MPI mode
            under = ' and '.join(('%s' if p else 'not (%s)') % u(t)[:60] for t, p in conds)
            ck.decide(vv, rs, kc, site, 'kcenters', u(site)[:200] + ('  [arm under %s: %s]' % (under, u(arm)[:80]) if len(conds) > 1 or
                                                                       (conds and not is_mpi_mode_test(conds[0][0])) else ''),
                      'the stopping radius is the GLOBAL maximum in MPI mode (same on every rank)',
                      'in MPI mode maxdist must be the all-reduced maximum mpi.ops.striped_array_max(%s) on every evaluation%s' %
                      (D, '; this arm is taken in MPI mode when %s and holds `%s` (a rank-local value: the ranks leave the loop at different '
                          'iterations)' % (under, u(arm)[:80]) if conds else ''))
    ck.floor(rs, nd, 2 if isinstance(radius, ast.Name) else 1, 'definitions of the stopping radius reaching the loop test of kcenters')


# ---------------------------------------------------------------------------
# Rules added after the bug hunt (notes/findings/clmpi): a rank may own NOTHING
# (more ranks than trajectories - the quantifier of C14 includes such worlds;
# load_npy_as_striped and striped_array_mean accept them since 940cbb2/69f66b9)

_REDUCE_NO_IDENTITY = ('max', 'min', 'argmax', 'argmin')
# rank-local parameters whose emptiness is checked: the striped operations and
# the MPI k-centers iteration (the path kcenters(mpi_mode=True) takes)
EMPTY_LOCAL_SCOPE = [(OPS, q) for (rel, q) in LOCAL_PARAMS if rel == OPS] + [(KC, '_kcenters_iteration_mpi')]


def _nonempty_test(fi, test, P, here):
    """True: the test being TRUE implies len(P) > 0; False: the test being
    FALSE implies it; None: unrelated."""
    t = xt(fi, test, here)
    pos = {C(f % P) for f in ('0 < len(%s)', 'len(%s)', '%s.size', '0 < %s.size', 'len(%s) != 0', '0 < %s.shape[0]', '1 <= len(%s)', '%s.shape[0]')}
    neg = {C(f % P) for f in ('len(%s) == 0', '%s.size == 0', 'len(%s) < 1', 'not len(%s)', 'not %s.size', '%s.shape[0] == 0')}
    if t in pos:
        return True
    if t in neg:
        return False
    return None


def _guarded_nonempty(fi, mod, node, P, fn):
    """the expression node is evaluated only when the rank-local array P is
    non-empty: a dominating branch assumption on len(P) / P.size, or the arm
    of a conditional expression / `and` chain with such a test."""
    here = fi.stmt(node)
    for c, o in path_atoms(fi, here):
        if isinstance(c, tuple) and c[0] == 'expr':
            v = _nonempty_test(fi, c[1], P, o)
            if v is not None and v == c[2]:
                return True
            continue
        for a in ('len(%s)' % P, C('%s.size' % P), C('%s.shape[0]' % P)):
            rg = int_range(fi, c, a, o)
            if rg is not None and not _permits(rg, 0):
                return True
    child, p = node, mod.parent.get(node)
    while p is not None and p is not here and p is not fn:
        if isinstance(p, ast.IfExp) and child is not p.test:
            v = _nonempty_test(fi, p.test, P, here)
            if v is not None and v == (child is p.body):
                return True
        if isinstance(p, ast.BoolOp) and isinstance(p.op, ast.And):
            for prev in p.values[:p.values.index(child)] if child in p.values else []:
                if _nonempty_test(fi, prev, P, here) is True:
                    return True
        child, p = p, mod.parent.get(p)
    return False


def d11_empty_local(ck):
    """On a rank that owns no frame every rank-local array has length 0.  An
    identity-less reduction of it (max/min/argmax/argmin without initial=)
    raises ValueError and reading its element 0 raises IndexError - on that
    rank only, so the others are left waiting in the next collective.  Every
    such site on a rank-local parameter (uniformity table) must be guarded by
    a non-emptiness test."""
    rule = 'C14.D10.every-rank.empty-local'
    n = 0
    for rel, q in EMPTY_LOCAL_SCOPE:
        mod = ck.repo.mod(rel)
        fn = mod.functions.get(q)
        if fn is None:
            ck.missing(rule, 'function %s in %s' % (q, rel))
            continue
        fi = finfo(mod, fn)
        ck.analysed(mod, fn)
        for P in LOCAL_PARAMS[(rel, q)]:
            if P not in params(fn):
                ck.missing(rule, 'rank-local parameter `%s` of %s' % (P, q))
                continue

            def is_P(e, here):
                return isinstance(e, ast.Name) and e.id == P and fi.rd.defs_at(here, P) == {'PARAM'}
            red, elt = [], []
            for x in walk_local(fn):
                here = fi.stmt(x) if isinstance(x, (ast.Call, ast.Subscript)) else None
                if here is None:
                    continue
                if isinstance(x, ast.Call) and isinstance(x.func, ast.Attribute) and x.func.attr in _REDUCE_NO_IDENTITY and \
                        is_P(x.func.value, here) and kwarg(x, 'initial') is None and kwarg(x, 'axis') is None and not x.args:
                    red.append(x)
                if isinstance(x, ast.Subscript) and isinstance(x.ctx, ast.Load) and is_P(x.value, here) and const_value(x.slice) in (0, -1) and \
                        not isinstance(const_value(x.slice), bool):
                    elt.append(x)
            n += 1
            for kind, sites, construct, what in (
                    ('red', red, 'identity-less reduction (max/min/argmax/argmin) of the rank-local array `%s`' % P,
                     'raises ValueError (zero-size array to reduction operation) on a rank that owns no frame'),
                    ('elt', elt, 'element 0 of the rank-local array `%s`' % P, 'raises IndexError on a rank that owns no frame')):
                bad = [x for x in sites if not _guarded_nonempty(fi, mod, x, P, fn)]
                for x in sites:
                    if x not in bad:
                        ck.ok(rule, mod, x, u(x), 'evaluated only when `%s` is non-empty' % P)
                if bad:
                    ck.bad(rule, mod, bad[0], q, construct,
                           '%s %s (`%s` is empty there; more ranks than trajectories: the quantifier of C14 includes such worlds, and the '
                           'striped loaders hand out empty blocks); the other ranks then wait in the next collective. Guard it with a '
                           'non-emptiness test / use the identity of the reduction' % (
                               ', '.join(sorted({'`%s` (line %d)' % (u(x)[:40], getattr(x, 'lineno', 0)) for x in bad})), what, P))
                elif not sites:
                    ck.ok(rule, mod, fn, '%s(%s): no %s' % (q, P, 'identity-less reduction' if kind == 'red' else 'read of element 0'), 'nothing to guard')
    ck.floor(rule, n, 8, 'rank-local parameters of the striped operations and the MPI k-centers iteration')


def _same_length_as_param(fi, name, here, param, depth=4):
    """some value `name` may hold at statement `here` has one element per
    element of the caller-supplied parameter `param` (the parameter itself,
    list(p), sorted(p), tuple(p), [f(x) for x in p], ...)."""
    for site in fi.rd.defs_at(here, name):
        if site == 'PARAM':
            if name == param:
                return True
            continue
        if site == 'UNBOUND' or depth <= 0 or not isinstance(site, (ast.Assign, ast.AnnAssign)):
            continue
        v = fi.def_value(site, name)
        src = None
        if isinstance(v, ast.Call) and call_name(v) in ('list', 'tuple', 'sorted', 'np.array', 'np.asarray') and len(v.args) >= 1:
            src = v.args[0]
        elif isinstance(v, ast.ListComp) and len(v.generators) == 1 and not v.generators[0].ifs:
            src = v.generators[0].iter
        if isinstance(src, ast.Name) and _same_length_as_param(fi, src.id, site, param, depth - 1):
            return True
    return False


def _needs_nonempty(mod, fn, param):
    """[(subscript node, text)]: reads of element 0 / -1 of the parameter (or
    of a list with one element per element of it) that the callee evaluates
    without having established that the parameter is non-empty.  Reads inside
    comprehensions are ignored (a comprehension over an empty list evaluates
    nothing)."""
    fi = finfo(mod, fn)
    out = []
    for x in walk_local(fn):
        if not (isinstance(x, ast.Subscript) and isinstance(x.ctx, ast.Load) and isinstance(x.value, ast.Name)):
            continue
        k = const_value(x.slice)
        if k not in (0, -1) or isinstance(k, bool):
            continue
        if enclosing(mod, x, (ast.ListComp, ast.SetComp, ast.DictComp, ast.GeneratorExp, ast.Lambda), stop=fn) is not None:
            continue
        here = fi.stmt(x)
        if here is None or not _same_length_as_param(fi, x.value.id, here, param):
            continue
        guarded = False
        for c, o in path_atoms(fi, here):
            if isinstance(c, tuple):
                if c[0] == 'expr' and c[2] and isinstance(c[1], ast.Name) and _same_length_as_param(fi, c[1].id, o, param):
                    guarded = True
                continue
            for nm in {param, x.value.id}:
                rg = int_range(fi, c, 'len(%s)' % nm, o)
                if rg is not None and not _permits(rg, 0):
                    guarded = True
        if not guarded:
            out.append((x, u(x)))
    return out


def _own_stripe(fi, e, here):
    """base text X if the expression denotes X[mpi.rank()::mpi.size()], else None."""
    t = xn(fi, e, here)
    if isinstance(t, ast.Subscript) and isinstance(t.slice, ast.Slice) and t.slice.upper is None and t.slice.lower is not None and \
            t.slice.step is not None and u(t.slice.lower) == 'mpi.rank()' and u(t.slice.step) == 'mpi.size()':
        return u(t.value), u(t)
    return None


def _every_rank_owns_one(fi, here, base, stripe):
    """the path condition of `here` implies that the own stripe is non-empty:
    len(<base>) >= mpi.size() (a smaller list was rejected), or a test on the
    length / truth value of the stripe itself."""
    for c, o in path_atoms(fi, here):
        if isinstance(c, tuple):
            if c[0] == 'expr' and c[2] and xt(fi, c[1], o) == stripe:
                return True
            continue
        if atom_rel(fi, c, 'len(%s)' % base, 'mpi.size()', o) in ('>=', '>'):
            return True
        rg = int_range(fi, c, 'len(%s)' % stripe, o)
        if rg is not None and not _permits(rg, 0):
            return True
    return False


def d12_empty_stripe(ck):
    """A striped loader hands its OWN stripe x[rank::size] - empty on a rank
    beyond len(x) - to a package function.  If that function reads element 0
    of the corresponding parameter (or of a list with one entry per element)
    without a non-emptiness test, the call must itself be limited to ranks
    that own something (or the loader must reject len(x) < size up front, as
    load_trajectory_as_striped does)."""
    rule = 'C14.D10.every-rank.empty-stripe'
    res, _ea = shared(ck.repo)
    mod = ck.repo.mod(IO)
    n = 0
    for q in ('load_h5_as_striped', 'load_npy_as_striped', 'load_trajectory_as_striped'):
        fn = mod.functions.get(q)
        if fn is None:
            ck.missing(rule, 'function %s in %s' % (q, IO))
            continue
        fi = finfo(mod, fn)
        for call in calls_in(fn):
            t = res.resolve_call(mod, call)
            m2, f2 = res.function_node(t)
            if f2 is None:
                continue
            here = fi.stmt(call)
            ps2 = params(f2)
            bound = [(ps2[i], a) for i, a in enumerate(call.args) if i < len(ps2) and not isinstance(a, ast.Starred)] + \
                [(k.arg, k.value) for k in call.keywords if k.arg]
            for pname, a in bound:
                os_ = _own_stripe(fi, a, here)
                if os_ is None or pname not in ps2:
                    continue
                base, stripe = os_
                n += 1
                ck.analysed(mod, fn)
                needs = _needs_nonempty(m2, f2, pname)
                role = '%s(%s=<own stripe of %s>)' % (call_name(call), pname, base)
                if not needs:
                    ck.ok(rule, mod, call, role, '%s tolerates an empty `%s`' % (t.qual, pname))
                elif _every_rank_owns_one(fi, here, base, stripe):
                    ck.ok(rule, mod, call, role, 'the call runs only on ranks that own at least one element of `%s`' % base)
                else:
                    ck.bad(rule, mod, call, q, role,
                           'on a rank r >= len(%s) (more ranks than rows/files) the own stripe %s is empty, and %s::%s reads %s without a '
                           'non-emptiness test (line %d): IndexError on that rank only, the other ranks return and wait in the next collective. '
                           'Neither the call is limited to ranks that own something nor does %s reject len(%s) < mpi.size()'
                           % (base, stripe, t.rel, t.qual, needs[0][1], getattr(needs[0][0], 'lineno', 0), q, base))
    ck.floor(rule, n, 2, 'calls of the striped loaders that hand their own stripe to a package function')


def d13_per_file_options(ck):
    """argument/parameter agreement of the striped trajectory loader: it hands
    load_as_concatenated its own stripe of the file list and forwards
    **kwargs.  Every option of the callee that is PER FILE - the callee itself
    compares its length with len(filenames) - must be striped in the same way
    before it is forwarded (finding traj-striped-lengths-kwarg)."""
    rule = 'C14.D3.striping.per-file-options'
    res, _ea = shared(ck.repo)
    mod = ck.repo.mod(IO)
    q = 'load_trajectory_as_striped'
    fn = mod.functions.get(q)
    if fn is None:
        ck.missing(rule, 'function %s in %s' % (q, IO))
        return
    fi = finfo(mod, fn)
    kw = fn.args.kwarg.arg if fn.args.kwarg is not None else None
    n = 0
    for call in calls_in(fn):
        t = res.resolve_call(mod, call)
        m2, f2 = res.function_node(t)
        if f2 is None or kw is None or not any(k.arg is None and isinstance(k.value, ast.Name) and k.value.id == kw for k in call.keywords):
            continue
        here = fi.stmt(call)
        ps2 = params(f2)
        striped = [k.arg for k in call.keywords if k.arg and _own_stripe(fi, k.value, here) is not None] + \
            [ps2[i] for i, a in enumerate(call.args) if i < len(ps2) and not isinstance(a, ast.Starred) and _own_stripe(fi, a, here) is not None]
        if not striped:
            continue
        ck.analysed(mod, fn)
        f2i = finfo(m2, f2)
        per_file = []
        for cmp_ in [x for x in walk_local(f2) if isinstance(x, ast.Compare) and len(x.ops) == 1 and isinstance(x.ops[0], (ast.Eq, ast.NotEq))]:
            # the two sides after expansion of temporaries (`n_files = len(filenames)` hoisted, a count passed to an inlined helper)
            cst = f2i.stmt(cmp_)
            sides = [xn(f2i, sd, cst) if cst is not None else sd for sd in (cmp_.left, cmp_.comparators[0])]
            lens = [s.args[0].id for s in sides if isinstance(s, ast.Call) and call_name(s) == 'len' and len(s.args) == 1 and isinstance(s.args[0], ast.Name)]
            if len(lens) == 2 and set(lens) & set(striped):
                per_file += [p for p in lens if p not in striped and p in ps2 and p not in per_file]
        passed = {k.arg for k in call.keywords if k.arg}
        for p in per_file:
            n += 1
            construct = 'per-file option `%s` forwarded to %s with the striped `%s`' % (p, t.qual, striped[0])
            if p in passed:
                v = next(k.value for k in call.keywords if k.arg == p)
                ck.check(_own_stripe(fi, v, here) is not None or const_value(v) is None and isinstance(v, ast.Constant), rule, mod, call, q, construct,
                         'passed explicitly, striped like the files', '`%s` is passed unstriped next to the striped `%s`' % (p, striped[0]))
                continue
            stores = [(st, tg) for st, tg in subscript_stores(fn, kw) if const_value(tg.slice) == p and isinstance(st, ast.Assign)]
            ok_store = [st for st, tg in stores if _own_stripe(fi, st.value, st) is not None and fi.cfg.reachable(st, here)]
            mentions = [x for x in walk_local(fn) if isinstance(x, ast.Constant) and x.value == p]
            if ok_store:
                ck.ok(rule, mod, ok_store[0], construct, '%s[%r] is replaced by its own stripe before the call' % (kw, p))
                _d13_option_guard(ck, rule + '.guard', mod, fn, fi, q, ok_store[0], kw, p)
                _d13_option_asserts(ck, rule + '.assert', mod, fn, fi, q, kw, p, striped)
            elif not mentions:
                ck.bad(rule, mod, call, q, construct,
                       '%s compares len(%s) with len(%s) (one entry per file), and %s hands it `%s[mpi.rank()::mpi.size()]` but forwards '
                       '`%s` untouched through **%s: on a world of more than one rank the callee\'s own consistency check rejects the (correct) '
                       'option on every rank, although it is documented for %s as a speed benefit only. It must be striped like the files '
                       '(as is done for the other per-file option%s)' % (t.qual, p, striped[0], q, striped[0], p, kw, q,
                                                                        ' ' + ', '.join('`%s`' % x for x in per_file if x != p) if len(per_file) > 1 else ''))
            else:
                ck.missing(rule, 'handling of the per-file option `%s` in %s not recognised' % (p, q))
    ck.floor(rule, n, 2, 'per-file options of load_as_concatenated reachable through **kwargs of load_trajectory_as_striped')


def _option_test_value(t, kw, p, st):
    """Value of a test on the keyword dictionary `kw` in the abstract state
    st = (present, n): True / False, 'err' (evaluating it raises: KeyError on
    kw[p] when the option is absent, len(None)), or None (not a test this rule
    interprets).  `and` / `or` are evaluated left to right like Python does."""
    present, n = st

    def is_p(e):
        return isinstance(e, ast.Constant) and e.value == p

    def option(e):
        """'sub' for kw[p], 'get' for kw.get(p) / kw.get(p, None)"""
        if isinstance(e, ast.Subscript) and isinstance(e.value, ast.Name) and e.value.id == kw and is_p(e.slice):
            return 'sub'
        if isinstance(e, ast.Call) and isinstance(e.func, ast.Attribute) and e.func.attr == 'get' and isinstance(e.func.value, ast.Name) and \
                e.func.value.id == kw and e.args and is_p(e.args[0]) and (len(e.args) == 1 or (isinstance(e.args[1], ast.Constant) and e.args[1].value is None)):
            return 'get'
        return None
    if isinstance(t, ast.UnaryOp) and isinstance(t.op, ast.Not):
        r = _option_test_value(t.operand, kw, p, st)
        return (not r) if isinstance(r, bool) else r
    if isinstance(t, ast.BoolOp):
        stop_at = not isinstance(t.op, ast.And)
        for v in t.values:
            r = _option_test_value(v, kw, p, st)
            if not isinstance(r, bool):
                return r
            if r == stop_at:
                return stop_at
        return not stop_at
    if option(t) is not None:
        if not present:
            return 'err' if option(t) == 'sub' else False
        if n is None:
            return False            # the option given explicitly as None is falsy
        return n > 0
    if isinstance(t, ast.Compare) and len(t.ops) == 1:
        l, op, r = t.left, t.ops[0], t.comparators[0]
        if is_p(l) and isinstance(r, ast.Name) and r.id == kw and isinstance(op, (ast.In, ast.NotIn)):
            return present == isinstance(op, ast.In)
        if option(l) is not None and isinstance(r, ast.Constant) and r.value is None and isinstance(op, (ast.Is, ast.IsNot, ast.Eq, ast.NotEq)):
            if not present and option(l) == 'sub':
                return 'err'
            return (not present or n is None) == isinstance(op, (ast.Is, ast.Eq))
        c = Cmp(l, type(op), r)
        k = const_value(c.rhs)
        if isinstance(const_value(c.lhs), int) and not isinstance(const_value(c.lhs), bool):
            c, k = c.flipped(), const_value(c.lhs)
        if isinstance(c.lhs, ast.Call) and call_name(c.lhs) == 'len' and len(c.lhs.args) == 1 and option(c.lhs.args[0]) is not None and \
                isinstance(k, int) and not isinstance(k, bool) and c.rel in _SWAP:
            if not present or n is None:
                return 'err'            # len(None)
            return {'<': n < k, '<=': n <= k, '>': n > k, '>=': n >= k, '==': n == k, '!=': n != k}[c.rel]
    return None


def _d13_option_guard(ck, rule, mod, fn, fi, q, store, kw, p):
    """The statement that replaces the per-file option kw[p] by its own
    stripe reads kw[p]: it must not run when the option was not given
    (KeyError on every rank), and it must run whenever the option has one
    entry per file for two or more files (otherwise the callee receives all
    entries next to the striped file list and rejects them).  Decided by
    evaluating the tests around the store on the abstract states {absent,
    given with 0 / 1 / 2 / 5 entries}; a test on anything else: no decision."""
    tests = []
    child, par = store, mod.parent.get(store)
    while par is not None and par is not fn:
        if isinstance(par, ast.If):
            tests.append((expand(fi, par.test, par), any(child is x for x in par.body)))
        elif isinstance(par, (ast.For, ast.While, ast.Try)):
            return
        child, par = par, mod.parent.get(par)
    tests.reverse()
    construct = 'condition under which %s[%r] is striped: %s' % (kw, p, ' and '.join(('%s' if pol else 'not (%s)') % u(t)[:80] for t, pol in tests) or 'always')
    verdicts = {}
    for st in ((False, 0), (True, None), (True, 0), (True, 1), (True, 2), (True, 5)):
        val = True
        for t, pol in tests:
            r = _option_test_value(t, kw, p, st)
            if not isinstance(r, bool):
                val = r
                break
            if r != pol:
                val = False
                break
        verdicts[st] = val
    if any(v is None for v in verdicts.values()):
        ck.missing(rule, 'construct not recognised at %s: %s' % (mod.loc(store), construct))
        return
    absent = verdicts[(False, 0)]
    many = [verdicts[(True, 2)], verdicts[(True, 5)]]
    if absent is not False:
        ck.bad(rule, mod, store, q, construct,
               'when the option `%s` is not given, %s: %s raises KeyError on every rank for a call without the option' % (
                   p, 'the test itself subscripts %s[%r]' % (kw, p) if absent == 'err' else 'the store still runs and reads %s[%r]' % (kw, p), q))
    elif verdicts[(True, None)] is not False:
        ck.bad(rule, mod, store, q, construct + ' [option given as None]',
               'when `%s=None` is passed explicitly (the documented default of the serial loader, which accepts it) %s: TypeError on every rank '
               'before any file is opened; the serial definition returns the data' % (
                   p, 'the test evaluates len(None)' if verdicts[(True, None)] == 'err' else 'the store runs and subscripts None'))
    elif any(v is not True for v in many) or verdicts[(True, 0)] == 'err' or verdicts[(True, 1)] == 'err':
        ck.bad(rule, mod, store, q, construct,
               'when `%s` is given with one entry per file for two or more files the store does not run: the callee receives ALL entries next to its '
               'own stripe of the files and rejects them (len(%s) != len(filenames)) on every rank' % (p, p))
    else:
        ck.ok(rule, mod, store, construct, 'skipped when the option is absent, executed whenever it has an entry per file (>= 2 files)')


def _d13_option_asserts(ck, rule, mod, fn, fi, q, kw, p, striped):
    """the loader's own assertion relating the number of entries of a
    per-file option to the number of files must admit the consistent case
    (one entry per file)."""
    def role(e, here):
        t = xn(fi, e, here)
        if not (isinstance(t, ast.Call) and call_name(t) == 'len' and len(t.args) == 1):
            return None
        a = t.args[0]
        if isinstance(a, ast.Name) and a.id in striped and fi.rd.defs_at(here, a.id) == {'PARAM'}:
            return 'files'
        for x in ast.walk(a):
            if isinstance(x, ast.Subscript) and isinstance(x.value, ast.Name) and x.value.id == kw and const_value(x.slice) == p:
                return 'option'
            if isinstance(x, ast.Call) and isinstance(x.func, ast.Attribute) and x.func.attr == 'get' and isinstance(x.func.value, ast.Name) and \
                    x.func.value.id == kw and x.args and const_value(x.args[0]) == p:
                return 'option'
        return None
    for s in walk_local(fn):
        if not isinstance(s, ast.Assert):
            continue
        for c, kind in _assert_atoms(s.test):
            if kind != 'scalar' or c.rel not in _SWAP:
                continue
            if {role(c.lhs, s), role(c.rhs, s)} == {'files', 'option'}:
                ck.check(c.rel in ('==', '<=', '>='), rule, mod, s, q, 'assertion relating the entries of the per-file option `%s` to the number of files' % p,
                         'admits one entry per file', '`%s` rejects the consistent case len(%s) == len(files): the loader fails for every correct per-file option' % (u(s)[:100], p))


def _ragged_valued(e):
    """the (expanded) expression is a RaggedArray by construction: a
    constructor call, or an elementwise comparison / arithmetic with one."""
    if isinstance(e, ast.Call) and (call_name(e) or '') in ('ra.RaggedArray', 'RaggedArray'):
        return True
    if isinstance(e, ast.Compare) and len(e.ops) == 1:
        return _ragged_valued(e.left) or _ragged_valued(e.comparators[0])
    if isinstance(e, ast.BinOp):
        return _ragged_valued(e.left) or _ragged_valued(e.right)
    if isinstance(e, ast.UnaryOp):
        return _ragged_valued(e.operand)
    return False


def d14_ragged_where(ck):
    """type provenance: numpy's where/nonzero/argwhere cannot index a ragged
    container (numpy converts it through the sequence protocol: rows of
    unequal length are an inhomogeneous sequence -> ValueError; it only works
    by accident when all rows have the same length).  The package's
    ragged-aware counterpart is ra.where (finding ctr-ids-mpi-flat-ragged)."""
    rule = 'C14.D4.pair-orientation.ragged-where'
    n = 0
    seen_bad = set()
    for rel in (OPS, KM, KC):
        mod = ck.repo.mod(rel)
        for q, fn in mod.functions.items():
            fi = None
            for c in calls_in(fn):
                cn = call_name(c) or ''
                if cn not in ('np.where', 'np.nonzero', 'np.argwhere', 'ra.where', 'numpy.where') or len(c.args) != 1:
                    continue
                fi = fi or finfo(mod, fn)
                here = fi.stmt(c)
                if here is None:
                    continue
                e = xn(fi, c.args[0], here)
                if not _ragged_valued(e):
                    continue
                n += 1
                ck.analysed(mod, fn)
                if cn != 'ra.where' and (rel, q) in seen_bad:
                    continue
                if cn != 'ra.where':
                    seen_bad.add((rel, q))
                ck.check(cn == 'ra.where', rule, mod, c, q, '%s(<RaggedArray-valued mask>)' % ('ra.where' if cn == 'ra.where' else 'numpy where/nonzero'),
                         'ragged-aware where on a ragged mask',
                         '`%s` receives a RaggedArray (%s): numpy converts it through the sequence protocol, which fails for rows of unequal '
                         'length (ValueError: inhomogeneous shape) - the (trajectory, frame) lookup works only when all trajectories have the same '
                         'length; use ra.where' % (u(c)[:80], u(e)[:100]))
    ck.floor(rule, n, 2, 'where() calls on RaggedArray-valued masks (randind, ctr_ids_mpi)')


def d10_every_rank(ck):
    """Rules added after the seeding rounds (DESIGN.md 11.2, G1/G2): the
    striped loaders and reductions must work on a rank that owns nothing
    (more ranks than files: its per-file loops run zero times) and for data of
    any sign."""
    from . import extra
    io = ck.repo.mod(IO)
    ops = ck.repo.mod(OPS)
    n = extra.definite_assignment(
        ck, 'C14.D10.every-rank.definite-assignment', io,
        [q for q in ('load_h5_as_striped', 'load_npy_as_striped', 'load_trajectory_as_striped') if q in io.functions],
        why='a rank that owns no file: its loop over filenames[rank::size] runs zero times')
    n += extra.definite_assignment(
        ck, 'C14.D10.every-rank.definite-assignment', ops,
        [q for q in ops.functions if '.' not in q],
        why='a rank that owns nothing')
    ck.floor('C14.D10.every-rank.definite-assignment', n, 60, 'reads of locals in the striped loaders and reductions')
    m = extra.reduction_asserts(ck, 'C14.D10.reduction-assert', ops, [q for q in ops.functions if '.' not in q])
    ck.notes.setdefault('instance_floors', {})['C14.D10.reduction-assert'] = {'found': m, 'floor': 0}


# ---------------------------------------------------------------------------
# Fifth wave (survivors of the generic mutants): necessary conditions no rule
# stated yet.  Each of them is located by role and decided three-valued.

def _strip_not(t):
    pol = True
    while isinstance(t, ast.UnaryOp) and isinstance(t.op, ast.Not):
        t, pol = t.operand, not pol
    return t, pol


def _mode_polarity(fi, test, here):
    """True if the test being TRUE selects the MPI mode, False if it selects
    the serial mode, None if the test is not (the negation of) a mode test
    (`mpi_mode`, `mpi.size() > 1`, `mpi.size() == 1`, a flag bound to one)."""
    t, pol = _strip_not(test)
    if isinstance(t, ast.Name) and t.id != 'mpi_mode':
        t2, pol2 = _strip_not(expand(fi, t, here))
        t, pol = t2, pol == pol2
    m = _mode_flag(t)
    if m is None and isinstance(t, ast.Compare) and len(t.ops) == 1:
        m = _mode_flag(norm(expand(fi, t, here)))
    return None if m is None else (m == pol)


def _terminates(stmts):
    stmts = _strip_noise(stmts)
    return bool(stmts) and isinstance(stmts[-1], (ast.Return, ast.Raise, ast.Continue, ast.Break))


def _if_arms(mod, node):
    """(statements that run only when the test holds, statements that run
    only when it does not) of an `if`: an arm that ends in return / raise /
    continue / break makes the statements that follow the `if` in its block
    part of the other arm (guard-clause form)."""
    body, orelse = list(node.body), list(node.orelse)
    parent = mod.parent.get(node)
    followers = []
    for f in ('body', 'orelse', 'finalbody'):
        blk = getattr(parent, f, None)
        if isinstance(blk, list):
            for k, x in enumerate(blk):
                if x is node:
                    followers = blk[k + 1:]
    if _terminates(body) and not _terminates(orelse):
        orelse = orelse + followers
    elif _terminates(orelse) and not _terminates(body):
        body = body + followers
    return body, orelse


def _arm_events(spmd, mod, fn, nodes):
    """collective events of an arm: the calls (SPMD.events) and the
    references to functions of the module that issue collectives
    (`iteration = _kcenters_iteration_mpi`)."""
    nodes = nodes if isinstance(nodes, list) else [nodes]
    ev = list(spmd.events(mod, fn, nodes)) if nodes else []
    for n0 in nodes:
        for x in ast.walk(n0):
            if isinstance(x, ast.Name) and isinstance(x.ctx, ast.Load) and x.id in mod.functions and spmd.has_coll.get((mod.rel, x.id)):
                p = mod.parent.get(x)
                if not (isinstance(p, ast.Call) and p.func is x):
                    ev.append((x.id, 'ref'))
            if isinstance(x, ast.Call) and not collective_name(x):
                # `mpi.ops.f(...)` / `mpi.io.f(...)` in a module where the resolver does not follow `mpi` (bound twice in apps/cluster.py)
                cn = (call_name(x) or '').split('.')
                if len(cn) == 3 and cn[0] == 'mpi' and cn[1] in ('ops', 'io') and spmd.has_coll.get((OPS if cn[1] == 'ops' else IO, cn[2])):
                    t = spmd.res.resolve_call(mod, x, None)
                    if t is None or t.kind != 'func':
                        ev.append((cn[2], '-'))
    return ev


def _only_rejects(stmts):
    """the statements do nothing but reject (raise / assert / log), possibly
    under further tests: a defensive check, not an implementation."""
    for s in _strip_noise(stmts):
        if isinstance(s, (ast.Raise, ast.Assert)):
            continue
        if isinstance(s, ast.Expr) and isinstance(s.value, ast.Call) and (call_name(s.value) or '').split('.')[0] in ('logger', 'logging', 'warnings', 'print'):
            continue
        if isinstance(s, ast.If) and _only_rejects(s.body) and _only_rejects(s.orelse):
            continue
        return False
    return True


def _size_atoms(fi, test, here):
    """[(Cmp, range)] for the comparisons of the world size with an integer
    constant inside a test."""
    out = []
    for x in ast.walk(test):
        if isinstance(x, ast.Compare) and len(x.ops) == 1:
            c = Cmp(x.left, type(x.ops[0]), x.comparators[0])
            rg = int_range(fi, c, 'mpi.size()', here)
            if rg is not None:
                out.append((x, c, rg))
    return out


def _over_worlds(rg):
    """truth of a world-size atom over the admissible sizes (>= 1): True /
    False if it is constant there, 'split' if it separates a single rank from
    every larger world, 'other' otherwise."""
    if rg[0] == 'ne':
        return True if rg[1] < 1 else ('split' if rg[1] == 1 else 'other')
    lo, hi = rg
    if hi is not None and hi < 1 or (lo is not None and hi is not None and hi < lo):
        return False
    if hi is None and (lo is None or lo <= 1):
        return True
    if (lo, hi) in ((2, None), (None, 1), (1, 1)) or (hi == 1 and lo is not None and lo <= 1):
        return 'split'
    return 'other'


def d15_mode_dispatch(ck, spmd):
    """The serial and the distributed implementation sit in the two arms of
    a MODE TEST (`mpi_mode`, `mpi.size() > 1`, `mpi.size() == 1`).  Necessary:
    (a) communication happens in the arm taken with several ranks - an `if`
    or conditional expression on the mode whose SERIAL arm issues collectives
    (or hands out a function that does) while its MPI arm issues none has the
    arms exchanged: with several ranks nothing is exchanged or reassembled,
    with one rank the distributed code runs; (b) a comparison of the world
    size with a constant that is decided by size() >= 1 cannot select
    anything: one arm - an implementation, not a mere rejection - never runs;
    (c) a comparison that puts a world of two ranks on the side of the single
    rank is not a mode test although its arms differ in their collectives."""
    rule = 'C14.D1.mode-dispatch'
    n = 0
    for rel in (OPS, IO, KC, KM, HY, CU, APP):
        mod = ck.repo.mod(rel)
        for q, fn in mod.functions.items():
            if '<locals>' in q:
                continue
            fi = None
            for node in walk_local(fn):
                if not isinstance(node, (ast.If, ast.IfExp)):
                    continue
                names = {call_name(c) for c in ast.walk(node.test) if isinstance(c, ast.Call)}
                if not ('mpi.size' in names or isinstance(_strip_not(node.test)[0], ast.Name)):
                    continue
                fi = fi or finfo(mod, fn)
                here = fi.stmt(node)
                if here is None:
                    continue
                if isinstance(node, ast.If):
                    t_arm, f_arm = _if_arms(mod, node)
                else:
                    t_arm, f_arm = [node.body], [node.orelse]
                pol = _mode_polarity(fi, node.test, here)
                atoms = _size_atoms(fi, node.test, here) if 'mpi.size' in names or pol is not None else []
                if pol is None and not atoms:
                    continue
                ev_t, ev_f = _arm_events(spmd, mod, fn, t_arm), _arm_events(spmd, mod, fn, f_arm)
                shown = 'if %s: collectives %s / otherwise %s' % (u(node.test)[:80], ev_t[:3], ev_f[:3])
                if pol is not None:
                    ev_mpi, ev_ser = (ev_t, ev_f) if pol else (ev_f, ev_t)
                    if not ev_mpi and not ev_ser:
                        continue
                    n += 1
                    ck.analysed(mod, fn)
                    ck.check(bool(ev_mpi) or not ev_ser, rule, mod, node, q, 'mode test `%s`: MPI arm %s, serial arm %s' % (u(node.test)[:80], ev_mpi[:3], ev_ser[:3]),
                             'the collectives sit in the arm taken with several ranks',
                             'the arm of `%s` taken in SERIAL mode issues the collectives %s and the arm taken with several ranks issues none: the arms of the mode '
                             'test are exchanged - with several ranks the rank-local pieces are never exchanged / reassembled (every rank goes on with its own '
                             'part as if it were the whole), and a single rank runs the distributed code' % (u(node.test)[:80], ev_ser[:3]))
                    continue
                # a comparison of the world size with a constant that is not a mode test
                t0, pol0 = _strip_not(node.test)
                if not (isinstance(t0, ast.Compare) and len(atoms) == 1 and atoms[0][0] is t0):
                    cj_t, cj_f = conjuncts(node.test, True), conjuncts(node.test, False)
                    # a conjunct that never holds makes the test false; a disjunct that always holds makes it true
                    truth = None
                    for x, c, rg in atoms:
                        w = _over_worlds(rg)
                        if cj_t is not None and any(isinstance(y, Cmp) and y.lhs is c.lhs and y.rhs is c.rhs and y.op is c.op for y in cj_t) and w is False:
                            truth = False
                        if cj_f is not None and any(isinstance(y, Cmp) and y.lhs is c.lhs and y.rhs is c.rhs and y.op is _negop(c.op) for y in cj_f) and w is True:
                            truth = True
                    if truth is None:
                        continue
                else:
                    w = _over_worlds(atoms[0][2])
                    if w == 'split':
                        continue
                    if w == 'other':
                        if ev_t != ev_f:
                            n += 1
                            ck.analysed(mod, fn)
                            rg = atoms[0][2]
                            v = ('near', 1, 'mpi.size() > 1') if _permits(rg, 1) == _permits(rg, 2) else ('far', 1, None)
                            ck.decide(v, rule + '.world-size', mod, node, q, shown, '',
                                      'the arms of `%s` differ in their collectives (%s / %s), but the test puts a world of two ranks on the side of the single '
                                      'rank: the mode must be decided by mpi.size() > 1' % (u(node.test)[:80], ev_t[:3], ev_f[:3]))
                        continue
                    truth = (w == pol0)
                dead = f_arm if truth else t_arm
                if isinstance(node, ast.IfExp):
                    real = bool(_arm_events(spmd, mod, fn, dead)) or ev_t != ev_f
                else:
                    real = not _only_rejects(dead)
                n += 1
                ck.analysed(mod, fn)
                ck.check(not real, rule + '.world-size', mod, node, q, 'world-size test `%s` (always %s)' % (u(node.test)[:80], truth),
                         'decided by mpi.size() >= 1; the arm that never runs is empty / a mere rejection',
                         '`%s` is always %s (mpi.size() >= 1 in every world), so the %s arm of this test never runs although it holds an implementation '
                         '(collectives there: %s; in the other arm: %s): the test cannot tell a single rank from several - one of the serial / distributed '
                         'variants is dead and the other runs in both modes' % (u(node.test)[:80], truth, 'else' if truth else 'if',
                                                                              _arm_events(spmd, mod, fn, dead)[:3], _arm_events(spmd, mod, fn, t_arm if truth else f_arm)[:3]))
    ck.floor(rule, n, 6, 'mode tests / world-size tests with collectives in an arm')


def _negop(op):
    return Cmp(None, op, None).negated().op


_REASSEMBLERS = {'assemble_striped_ragged_array': ('local_array', 'global_lengths'),
                 'convert_local_indices': ('local_ctr_inds', 'global_lengths')}
_RESULT_FIELDS = ('center_indices', 'distances', 'assignments')


def d16_app_reassembly(ck):
    """apps/cluster.py, the only caller of the reassembly routines: each of
    them takes (<rank-local part of the clustering result>, <GLOBAL trajectory
    lengths>), in this order.  The global lengths are located as the first
    result of util.load_trjs_or_features (the loaders return (global lengths,
    local data)), the local part as an attribute of the clusterer's result.
    Exchanged arguments cut the lengths vector by the distances.  The field
    that is reassembled is the field it is stored under in the new
    ClusterResult."""
    rule = 'C14.D2.owner-root.reassembly.app'
    mod = ck.repo.mod(APP)
    fn = mod.functions.get('main')
    if fn is None:
        ck.missing(rule, 'function main in %s' % APP)
        return
    fi = finfo(mod, fn)
    ck.analysed(mod, fn)
    L = None
    for s in walk_local(fn):
        if isinstance(s, ast.Assign) and len(s.targets) == 1 and isinstance(s.targets[0], (ast.Tuple, ast.List)) and len(s.targets[0].elts) == 2 and \
                isinstance(s.value, ast.Call) and (call_name(s.value) or '').split('.')[-1] == 'load_trjs_or_features' and isinstance(s.targets[0].elts[0], ast.Name):
            L = (s.targets[0].elts[0].id, s)
    if L is None:
        ck.missing(rule, 'main: `<global lengths>, <local data> = util.load_trjs_or_features(args)`')
        return
    L, lsite = L

    def is_lengths(e, here):
        t = xn(fi, e, here)
        return isinstance(t, ast.Name) and t.id == L and fi.rd.defs_at(here, L) == {lsite}

    def result_field(e, here):
        """attribute name if the expression is <something>.<field of a clustering result>"""
        t = xn(fi, e, here)
        return t.attr if isinstance(t, ast.Attribute) and t.attr in _RESULT_FIELDS else None
    n = 0
    made = {}
    for c in calls_in(fn):
        nm = (call_name(c) or '').split('.')[-1]
        if nm not in _REASSEMBLERS:
            continue
        here = fi.stmt(c)
        a0, a1 = arg(c, 0, _REASSEMBLERS[nm][0]), arg(c, 1, _REASSEMBLERS[nm][1])
        if a0 is None or a1 is None or here is None:
            ck.missing(rule, 'main: arguments of %s' % u(c)[:100])
            continue
        n += 1
        f0 = result_field(a0, here)
        if is_lengths(a1, here) and not is_lengths(a0, here) and L not in names_loaded(xn(fi, a0, here)):
            ck.ok(rule, mod, c, u(c)[:120], '(%s, global lengths)' % ('result.' + f0 if f0 else 'rank-local part'))
            if f0 is not None:
                made[id(c)] = (f0, nm)
        elif is_lengths(a0, here) and result_field(a1, here) is not None:
            ck.bad(rule, mod, c, 'main', '%s(<global lengths>, <rank-local %s>)' % (nm, result_field(a1, here)),
                   '%s takes (%s, %s); here the global trajectory lengths `%s` are passed as the rank-local array and the rank-local `%s` as the lengths: '
                   'every rank broadcasts the lengths vector and cuts it by the values of its %s' % (nm, _REASSEMBLERS[nm][0], _REASSEMBLERS[nm][1], L, u(a1), result_field(a1, here)))
        else:
            v = ('near', 1, '%s(<local part>, %s)' % (nm, L)) if closed_over(xn(fi, a1, here), {L}) and closed_over(xn(fi, a0, here), {L}) else ('far', 1, None)
            ck.decide(v, rule, mod, c, 'main', u(c)[:120], '', 'the second argument of %s must be the global trajectory lengths `%s` (first result of load_trjs_or_features)' % (nm, L))
    ck.floor(rule, n, 3, 'calls of the reassembly routines in apps/cluster.py main')
    # the reassembled field goes back under its own name
    want = {'center_indices': 'convert_local_indices', 'distances': 'assemble_striped_ragged_array', 'assignments': 'assemble_striped_ragged_array'}
    for c in calls_in(fn):
        if (call_name(c) or '').split('.')[-1] != 'ClusterResult':
            continue
        here = fi.stmt(c)
        for k in c.keywords:
            if k.arg not in want:
                continue
            src, _ = value_call(fi, k.value, here)
            if src is None or id(src) not in made:
                continue
            f0, nm = made[id(src)]
            ck.check(f0 == k.arg and nm == want[k.arg], rule + '.field', mod, c, 'main', 'ClusterResult(%s=<reassembled %s>)' % (k.arg, f0),
                     'the field is reassembled by the routine for its kind and stored under its own name',
                     'the global `%s` of the result is built by %s from the rank-local `%s`: the wrong field / the wrong reassembly routine' % (k.arg, nm, f0))


def d17_root_only_value(ck):
    """A local bound only on ONE rank (`if mpi.rank() == 0: keys = ...`) is
    unbound everywhere else.  A statement that re-binds the name from a
    collective (`keys = bcast(keys if mpi.rank() == 0 else None)`) may read
    it only under a rank condition that implies the one it was bound under;
    otherwise the reading rank raises UnboundLocalError before it reaches the
    collective the others wait in.  (Complements definite-assignment, which
    treats the re-binding statement itself as a definition.)"""
    from . import extra
    from ..cfg import header_uses, stmt_defs
    rule = 'C14.D10.every-rank.root-only-value'

    def rank_cond(fi, test, pol, here):
        """('eq', k) / ('ne', k) for a test on mpi.rank() alone, else None"""
        cj = conjuncts(test, pol)
        if cj is None or len(cj) != 1:
            return None
        c = cj[0]
        if isinstance(c, Cmp):
            rg = int_range(fi, c, 'mpi.rank()', here)
            if rg is None:
                return None
            if rg[0] == 'ne':
                return ('ne', rg[1])
            if rg[0] is not None and rg[0] == rg[1]:
                return ('eq', rg[0])
            if rg == (None, 0):
                return ('eq', 0)      # rank() <= 0
            if rg == (1, None):
                return ('ne', 0)      # rank() >= 1
            return None
        if c[0] == 'expr' and xt(fi, c[1], here) == 'mpi.rank()':
            return ('ne', 0) if c[2] else ('eq', 0)
        return None

    def implies(a, b):
        if a == b:
            return True
        return a[0] == 'eq' and b[0] == 'ne' and a[1] != b[1]
    n = 0
    for rel in (IO, OPS):
        mod = ck.repo.mod(rel)
        for q, fn in mod.functions.items():
            if '.' in q:
                continue
            fi = finfo(mod, fn)
            for s in fi.cfg.nodes:
                if s in (ENTRY, EXIT) or isinstance(s, Assume):
                    continue
                own = set(stmt_defs(s))
                for nm in header_uses(s):
                    if nm.id not in own or nm.id not in fi.rd.locals or not fi.rd.possibly_unbound(s, nm.id):
                        continue
                    defs = [d for d in fi.cfg.nodes if d not in (ENTRY, EXIT) and not isinstance(d, Assume) and d is not s and nm.id in stmt_defs(d)]
                    infeasible = [a for a in fi.cfg.nodes if isinstance(a, Assume) and extra._tautology(a.test) is (not a.polarity)]
                    if fi.cfg.path(ENTRY, s, avoiding=defs + infeasible) is None:
                        continue
                    # the rank condition of the read: the arm of a conditional expression, or a dominating branch
                    use = None
                    g = extra._guard_of_use(mod, nm, s)
                    known = True
                    if g is not None:
                        use = rank_cond(fi, g[0], g[1], s)
                        known = use is not None
                    else:
                        for a in fi.cfg.dom.get(s, ()):
                            if isinstance(a, Assume) and 'mpi.rank' in u(a.test):
                                use = rank_cond(fi, a.test, a.polarity, a.owner)
                                known = use is not None
                    conds = []
                    for d in defs:
                        child, p = d, mod.parent.get(d)
                        dc = 'always'
                        while p is not None and p is not fn:
                            if isinstance(p, ast.If) and 'mpi.rank' in u(p.test):
                                dc = rank_cond(fi, p.test, any(child is x for x in p.body), p)
                                break
                            child, p = p, mod.parent.get(p)
                        conds.append((dc, d))
                    if not conds or any(dc == 'always' for dc, _ in conds):
                        continue        # not bound under a rank test: a question of plain definite assignment
                    n += 1
                    ck.analysed(mod, fn)
                    construct = 'read of the rank-conditionally bound `%s` in the statement that re-binds it: %s' % (nm.id, u(s)[:100])
                    if not known or any(dc is None for dc, _ in conds):
                        ck.missing(rule, 'construct not recognised at %s: %s (rank condition of the read / of a binding not understood)' % (mod.loc(s), construct))
                    elif use is not None and any(implies(use, dc) for dc, _ in conds):
                        ck.ok(rule, mod, s, construct, 'read only on the rank(s) that bound it (%s %s)' % use)
                    else:
                        ck.bad(rule, mod, s, q, construct,
                               '`%s` is bound only under %s, but this statement reads it %s: on those ranks the name is unbound - UnboundLocalError before '
                               'the collective, the other ranks wait forever (with a single rank: the call fails outright)' % (
                                   nm.id, ' / '.join('mpi.rank() %s %s' % ('==' if dc[0] == 'eq' else '!=', dc[1]) for dc, _ in conds if dc != 'always') or 'some paths',
                                   'on every rank' if use is None else 'where mpi.rank() %s %s' % ('==' if use[0] == 'eq' else '!=', use[1])))
    ck.notes.setdefault('instance_floors', {})[rule] = {'found': n, 'floor': 0}


def _assert_atoms(test):
    """[(Cmp, 'scalar' | 'all')] asserted by an assertion: its conjuncts, and
    the elementwise comparison inside np.all(...) / (...).all() / all(...)."""
    out = []
    for c in conjuncts(test, True) or []:
        if isinstance(c, Cmp):
            out.append((c, 'scalar'))
        elif c[0] == 'expr' and c[2] and isinstance(c[1], ast.Call):
            e = c[1]
            inner = None
            if call_name(e) in ('np.all', 'all', 'numpy.all') and len(e.args) == 1:
                inner = e.args[0]
            elif isinstance(e.func, ast.Attribute) and e.func.attr == 'all' and not e.args:
                inner = e.func.value
            if isinstance(inner, ast.Compare) and len(inner.ops) == 1:
                out.append((Cmp(inner.left, type(inner.ops[0]), inner.comparators[0]), 'all'))
    return out


def d18_asserts_admit_empty_rank(ck):
    """An assertion inside a striped operation / loader is evaluated on EVERY
    rank, also on one that owns nothing.  It may therefore not demand a
    positive length of a rank-local array, of the all-gathered per-rank
    lengths, or of the own stripe x[rank::size] (unless the path has
    established that every rank owns something): it fails on the empty rank
    only - before the next collective - for data the property admits."""
    rule = 'C14.D10.every-rank.empty-local.assert'
    n = 0
    scope = [(rel, q, LOCAL_PARAMS[(rel, q)]) for rel, q in EMPTY_LOCAL_SCOPE] + \
            [(IO, q, []) for q in ('load_h5_as_striped', 'load_npy_as_striped', 'load_trajectory_as_striped')]
    for rel, q, locs in scope:
        mod = ck.repo.mod(rel)
        fn = mod.functions.get(q)
        if fn is None:
            continue
        fi = finfo(mod, fn)
        # names holding the all-gathered lengths of a rank-local array
        counts = {}
        for P in locs:
            forms = [f % {'P': P} for f in ('np.array(mpi.comm.allgather(len(%(P)s)))', 'mpi.comm.allgather(len(%(P)s))', 'np.asarray(mpi.comm.allgather(len(%(P)s)))',
                                          'np.array(mpi.comm.allgather(%(P)s.shape[0]))', 'mpi.comm.allgather(%(P)s.shape[0])')]
            for s in walk_local(fn):
                if isinstance(s, ast.Assign) and len(s.targets) == 1 and isinstance(s.targets[0], ast.Name) and \
                        _classify(norm(s.value), forms)[0] == 'match' and len(assigns_to(fn, s.targets[0].id)) == 1:
                    counts[s.targets[0].id] = P
        for s in walk_local(fn):
            if not isinstance(s, ast.Assert):
                continue
            for c, kind in _assert_atoms(s.test):
                hit = None
                for P in locs:
                    if fi.rd.defs_at(s, P) != {'PARAM'}:
                        continue
                    for a in ('len(%s)' % P, C('%s.size' % P), C('%s.shape[0]' % P)):
                        rg = int_range(fi, c, a, s) if kind == 'scalar' else None
                        if rg is not None:
                            hit = (rg, 'the length of the rank-local array `%s`' % P, _guarded_nonempty(fi, mod, s.test, P, fn))
                for N, P in counts.items():
                    for a in ((N,) if kind == 'all' else (C('%s.min()' % N), 'min(%s)' % N)):
                        rg = int_range(fi, c, a, s)
                        if rg is not None:
                            hit = (rg, 'every entry of `%s`, the all-gathered lengths of the rank-local `%s`' % (N, P), False)
                if kind == 'scalar':
                    for side in (c.lhs, c.rhs):
                        if isinstance(side, ast.Call) and call_name(side) == 'len' and len(side.args) == 1:
                            os_ = _own_stripe(fi, side.args[0], s)
                            if os_ is not None:
                                rg = int_range(fi, c, xt(fi, side, s), s)
                                if rg is not None:
                                    hit = (rg, 'the length of the own stripe, %s' % os_[1], _every_rank_owns_one(fi, s, os_[0], os_[1]))
                if hit is None:
                    continue
                n += 1
                ck.analysed(mod, fn)
                rg, what, guarded = hit
                ck.check(_permits(rg, 0) or guarded, rule, mod, s, q, 'assertion on %s' % what.split(',')[0],
                         'the assertion admits a rank that owns nothing',
                         '`%s` demands %s to be positive, but a rank may own nothing (more ranks than trajectories; a cluster without a member on this rank): '
                         'there the value is 0, the assertion fails on that rank only and the others wait in the next collective' % (u(s)[:100], what))
        # a rejection decided on the TOTAL of the all-gathered lengths may only fire when that total is 0
        for s in walk_local(fn):
            if not isinstance(s, ast.Raise) or not counts:
                continue
            for c, o in path_atoms(fi, s):
                for N, P in counts.items():
                    for a in ('sum(%s)' % N, C('%s.sum()' % N), C('np.sum(%s)' % N)):
                        rg = int_range(fi, c, a, o)
                        if rg is None:
                            continue
                        n += 1
                        ck.analysed(mod, fn)
                        ck.check(not any(_permits(rg, k) for k in (1, 2, 10 ** 9)), rule.replace('.assert', '.reject'), mod, o, q,
                                 'rejection decided on the total of the all-gathered lengths `%s`' % N, 'raises only when no rank holds an element',
                                 'the `raise` at line %d is reached when `%r` holds, i.e. also for a positive total of `%s` (the lengths of `%s` over all ranks): '
                                 '%s rejects a non-empty striped array' % (getattr(s, 'lineno', 0), c, N, P, q))
    ck.notes.setdefault('instance_floors', {})[rule] = {'found': n, 'floor': 0}


def d19_randind_index_assert(ck):
    """randind returns (owner rank, position in the owner's array): any
    position >= 0 and any rank >= 0 can be drawn.  An assertion on a
    component of the returned pair must admit all of them."""
    rule = 'C14.D4.pair-orientation.randind-range'
    mod = ck.repo.mod(OPS)
    fr = mod.functions.get('randind')
    if fr is None:
        return
    fi = finfo(mod, fr)
    comps = {}
    for r in returns_of(fr):
        val = xn(fi, r.value, r) if r.value is not None else None
        if isinstance(val, ast.Tuple) and len(val.elts) == 2:
            comps[u(val.elts[0])] = 'owner rank'
            comps[u(val.elts[1])] = 'owner-local index'
    n = 0
    for s in walk_local(fr):
        if not isinstance(s, ast.Assert):
            continue
        for c, kind in _assert_atoms(s.test):
            if kind != 'scalar':
                continue
            for a, what in comps.items():
                rg = int_range(fi, c, a, s)
                if rg is None:
                    continue
                n += 1
                ok = all(_permits(rg, k) for k in (0, 1, 2, 10 ** 9))
                ck.check(ok, rule, mod, s, 'randind', 'assertion on the %s of the returned pair' % what, 'admits every value that can be drawn',
                         '`%s` rejects valid values of the %s (any integer >= 0 can be drawn): randind fails for a correct draw' % (u(s)[:100], what))
    ck.notes.setdefault('instance_floors', {})[rule] = {'found': n, 'floor': 0}


def d20_reduction_assert_direction(ck):
    """After G = allreduce(L, SUM) with L >= 0 by construction (a length, a
    count) on every rank, the only ordering between G and L that holds in
    every world is G >= L (equality when the other ranks are empty).  An
    assertion that orders them otherwise, or that bounds G from above by a
    constant, fails on a correct result."""
    from . import extra
    rule = 'C14.D10.reduction-assert.direction'
    mod = ck.repo.mod(OPS)
    n = 0
    for q, fn in mod.functions.items():
        if '.' in q:
            continue
        fi = finfo(mod, fn)
        for s in walk_local(fn):
            if not isinstance(s, ast.Assert):
                continue
            for c, kind in _assert_atoms(s.test):
                if kind != 'scalar' or c.as_less() is None and c.rel not in ('==', '!='):
                    continue
                for g, other, flip in ((c.lhs, c.rhs, False), (c.rhs, c.lhs, True)):
                    if not isinstance(g, ast.Name):
                        continue
                    call, cst = value_call(fi, g, s)
                    if call is None or collective_name(call) != 'allreduce' or not call.args:
                        continue
                    op = arg(call, 1, 'op')
                    if op is not None and not u(op).endswith('SUM'):
                        continue
                    term = call.args[0]
                    if not extra._nonnegative_by_construction(fi, term):
                        continue
                    rel = _SWAP[c.rel] if flip else c.rel          # G rel other
                    if xt(fi, other, s) == xt(fi, term, cst):
                        n += 1
                        ck.analysed(mod, fn)
                        ck.check(rel == '>=', rule, mod, s, q, 'assertion ordering the SUM-reduced `%s` against its local term' % g.id,
                                 'global sum of non-negative terms >= local term',
                                 '`%s` asserts `%s %s %s`, but %s is the sum over all ranks of the non-negative `%s`: only `>=` holds in every world '
                                 '(`==` when the other ranks own nothing, `>` otherwise) - the assertion fails on a correct result' % (
                                     u(s)[:80], g.id, rel, u(other), g.id, u(term)))
                    elif isinstance(const_value(other), int) and not isinstance(const_value(other), bool):
                        rg = int_range(fi, c, g.id, s)
                        if rg is not None:
                            n += 1
                            ck.analysed(mod, fn)
                            ck.check(all(_permits(rg, k) for k in (1, 2, 10 ** 9)), rule, mod, s, q, 'assertion bounding the SUM-reduced `%s` by a constant' % g.id,
                                     'admits every positive total', '`%s` rejects positive totals of `%s` over the ranks' % (u(s)[:80], u(term)))
    ck.notes.setdefault('instance_floors', {})[rule] = {'found': n, 'floor': 0}


def d21_centre_representation(ck):
    """The list of centres handed to the MPI iteration holds either arrays or
    one-frame trajectories (what distribute_frame returns for a trajectory).
    Stacking it into ONE array - <metric>(np.array(centers), y) - is defined
    for arrays only: where the path has established `hasattr(centers[0],
    'xyz')` the stacked form hands the metric an array of Trajectory objects
    instead of coordinates (and the per-centre form is the one for
    trajectories)."""
    rule = 'C14.D9.centre-dists.representation'
    mod = ck.repo.mod(KC)
    n = 0
    for q in ('_kcenters_iteration_mpi', '_kcenters_iteration'):
        fn = mod.functions.get(q)
        if fn is None or len(params(fn)) < 2 or 'centers' not in params(fn):
            continue
        fi = finfo(mod, fn)
        DM, CS = params(fn)[1], 'centers'
        stacked = {C(f % CS) for f in ('np.array(%s)', 'np.asarray(%s)', 'np.stack(%s)', '%s.copy()')} | {'np.array(%s)' % CS, CS}
        for c in calls_in(fn):
            if not (isinstance(c.func, ast.Name) and c.func.id == DM and c.args):
                continue
            here = fi.stmt(c)
            if here is None or fi.rd.defs_at(here, DM) != {'PARAM'} or u(norm(c.args[0])) not in stacked:
                continue
            n += 1
            ck.analysed(mod, fn)
            is_traj = [pol for cnd, o in path_atoms(fi, here) if isinstance(cnd, tuple) and cnd[0] == 'expr' and
                       xt(fi, cnd[1], o) == "hasattr(%s[0], 'xyz')" % CS for pol in [cnd[2]]]
            ck.check(not (is_traj and is_traj[-1]), rule, mod, c, q, '%s(<all centres stacked into one array>, ...)' % DM,
                     'the stacked form is used for centres that are arrays',
                     '`%s` stacks the list `%s` into one array on the path where `hasattr(%s[0], \'xyz\')` holds, i.e. for TRAJECTORY centres: the metric '
                     'receives an object array of Trajectory objects instead of coordinates (the per-centre form belongs here, the stacked form to the '
                     'array arm): the triangle-inequality shortcut fails / prunes with wrong centre distances for trajectory data' % (u(c)[:80], CS, CS))
    ck.notes.setdefault('instance_floors', {})[rule] = {'found': n, 'floor': 0}


# functions whose rank-local parameters are PER-FRAME arrays of one and the same block of frames (the data of
# this rank, the distance and the label of each of its frames): they are combined elementwise
PER_FRAME = [(KC, '_kcenters_iteration_mpi'), (KC, '_kcenters_iteration'), (KM, '_kmedoids_pam_update'), (KM, '_kmedoids_iterations')]


def d22_aligned_lengths(ck):
    """The rank-local data block, its distances and its labels have one
    entry per frame of this rank.  The only relation between two of their
    lengths that holds for every admissible call is equality: an assertion
    that states another one (`!=`, `<`, `>`) rejects every consistent input -
    on every rank, at the first iteration."""
    rule = 'C14.D10.every-rank.aligned-lengths'
    n = 0
    for rel, q in PER_FRAME:
        mod = ck.repo.mod(rel)
        fn = mod.functions.get(q)
        if fn is None:
            continue
        fi = finfo(mod, fn)
        group = [p for p in LOCAL_PARAMS[(rel, q)] if p in params(fn)]

        def length_of(e, here):
            t = xn(fi, e, here)
            for p in group:
                if fi.rd.defs_at(here, p) == {'PARAM'} and u(t) in ('len(%s)' % p, C('%s.shape[0]' % p)):
                    return p
            return None
        for s in walk_local(fn):
            if not isinstance(s, ast.Assert):
                continue
            for c, kind in _assert_atoms(s.test):
                if kind != 'scalar' or c.rel not in _SWAP:
                    continue
                a, b = length_of(c.lhs, s), length_of(c.rhs, s)
                if a is None or b is None or a == b:
                    continue
                n += 1
                ck.analysed(mod, fn)
                ck.check(c.rel in ('==', '<=', '>='), rule, mod, s, q, 'assertion relating the lengths of the per-frame arrays `%s` and `%s`' % (a, b), 'one entry per frame: equal lengths',
                         '`%s`: `%s` and `%s` hold one entry per frame of this rank, so their lengths are EQUAL for every consistent call; `%s` rejects exactly those '
                         '(or admits inconsistent ones): the function fails on every rank' % (u(s)[:100], a, b, c.rel))
    ck.notes.setdefault('instance_floors', {})[rule] = {'found': n, 'floor': 0}


def d23_asserts_admit_consistent_case(ck):
    """Two more assertions whose consistent case follows from the ROLES of
    their operands: (1) a candidate array that is committed elementwise into
    a per-frame array (`D[m] = X[m]`) has the number of dimensions of that
    array, so an assertion relating the two ndims must admit equality; (2) a
    list whose elements are unpacked into (owner rank, index) pairs has
    elements of length 2, so an assertion on len(<list>[0]) must admit 2."""
    rule = 'C14.D10.every-rank.assert-consistent'
    n = 0
    for rel, q in PER_FRAME:
        mod = ck.repo.mod(rel)
        fn = mod.functions.get(q)
        if fn is None:
            continue
        fi = finfo(mod, fn)
        group = [p for p in LOCAL_PARAMS[(rel, q)] if p in params(fn)]
        committed = set()
        for st, t in subscript_stores(fn):
            if isinstance(st, ast.Assign) and isinstance(t.value, ast.Name) and t.value.id in group and isinstance(st.value, ast.Subscript) and \
                    isinstance(st.value.value, ast.Name) and u(st.value.slice) == u(t.slice):
                committed.add(frozenset((st.value.value.id, t.value.id)))

        def ndim_of(e):
            m = _classify(norm(e), ['len(_X.shape)', '_X.ndim', 'np.ndim(_X)'])
            return m[1]['_X'].id if m[0] == 'match' and isinstance(m[1]['_X'], ast.Name) else None
        for s in walk_local(fn):
            if not isinstance(s, ast.Assert):
                continue
            for c, kind in _assert_atoms(s.test):
                if kind != 'scalar' or c.rel not in _SWAP:
                    continue
                a, b = ndim_of(c.lhs), ndim_of(c.rhs)
                if a is None or b is None or frozenset((a, b)) not in committed:
                    continue
                n += 1
                ck.analysed(mod, fn)
                ck.check(c.rel in ('==', '<=', '>='), rule, mod, s, q, 'assertion relating the dimensions of `%s` and `%s` (one is committed elementwise into the other)' % (a, b),
                         'admits equal dimensions',
                         '`%s`: `%s` and `%s` are combined elementwise by the commit under the mask of their comparison, so both have the same number of dimensions for every '
                         'working metric; `%s` rejects exactly that case: the iteration fails on every rank' % (u(s)[:100], *sorted((a, b)), c.rel))
    mod = ck.repo.mod(KM)
    for q, fn in mod.functions.items():
        if '.' in q:
            continue
        binders = pair_binders(mod, fn)
        lists = {it.id for _, _, it in binders if isinstance(it, ast.Name)}
        if not lists:
            continue
        fi = finfo(mod, fn)
        for s in walk_local(fn):
            if not isinstance(s, ast.Assert):
                continue
            for c, kind in _assert_atoms(s.test):
                if kind != 'scalar':
                    continue
                for X in sorted(lists):
                    rg = int_range(fi, c, 'len(%s[0])' % X, s)
                    if rg is None:
                        continue
                    n += 1
                    ck.analysed(mod, fn)
                    ck.check(_permits(rg, 2), rule, mod, s, q, 'assertion on the length of the elements of `%s` (unpacked into (owner, index) pairs)' % X,
                             'admits pairs', '`%s`: the elements of `%s` are unpacked into two names (owner rank, index), i.e. have length 2, which this assertion rejects: '
                             'the MPI branch fails for every list of centre pairs' % (u(s)[:100], X))
    ck.notes.setdefault('instance_floors', {})[rule] = {'found': n, 'floor': 0}


def check(ck):
    res, ea = shared(ck.repo)
    spmd = SPMD(ck.repo, res, None)
    nu_of = d1_matching(ck, spmd)
    d15_mode_dispatch(ck, spmd)
    d16_app_reassembly(ck)
    d17_root_only_value(ck)
    d2_roots(ck)
    d3_striping(ck)
    d4_pairs(ck)
    d4_owner_local_index(ck, nu_of)
    d5_fallback(ck)
    d6_nullness(ck)
    d_striped(ck)
    d8_reductions(ck)
    kc = ck.repo.mod(KC)
    check_running_min_commit(ck, 'C14.D9.commit', kc, '_kcenters_iteration_mpi', True, 'len-before-append')
    from .C02 import d1_farthest, d5_triangle
    d1_farthest(ck)
    # the distance update of the MPI iteration (triangle-inequality shortcut, plain branch, candidate copy)
    # is the serial one applied to the rank-local block: same rule as for C02
    d5_triangle(ck)
    d21_centre_representation(ck)
    d22_aligned_lengths(ck)
    d23_asserts_admit_consistent_case(ck)
    d24_hidden_state(ck)
    d10_every_rank(ck)
    d11_empty_local(ck)
    d18_asserts_admit_empty_rank(ck)
    d19_randind_index_assert(ck)
    d20_reduction_assert_direction(ck)
    d12_empty_stripe(ck)
    d13_per_file_options(ck)
    d14_ragged_where(ck)
    ck.assume('SPMD calling convention: every rank calls the library with the same kind of arguments '
              '(None-ness, flags, replicated parameters as listed in the uniformity table)')
    ck.assume('a user-supplied k-medoids cost callable returns a rank-uniform value (the default _msq is all-reduced)')
    return EXPLANATION

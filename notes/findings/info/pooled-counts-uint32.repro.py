import sys, os; sys.modules["mpi4py"] = None; sys.path.insert(0, os.getcwd())
os.environ["OMP_NUM_THREADS"] = "2"
import warnings
import numpy as np
import enspara
assert os.path.abspath(enspara.__file__).startswith(os.getcwd()), enspara.__file__
from enspara.info_theory import mutual_info as mi
warnings.simplefilter("ignore")
# two trajectories of 2**31+3 frames in state 0 (zero-stride views) and one of 10 frames in state 1;
# each is far below the kernel's own 2**32 limit.
T = 2**31 + 3
big = np.broadcast_to(np.zeros((1, 1), dtype=np.int8), (T, 1))
small = np.ones((10, 1), dtype=np.int8)
Xs = [big, big, small]
got = mi.mi_matrix(Xs, Xs, 2, 2, normalize=False)[0, 0]
n0, n1 = 2 * T, 10
p = np.array([n0, n1], dtype=float) / (n0 + n1)
want = float(-(p * np.log(p)).sum())          # MI of a feature with itself = its entropy
print("pooled MI", got, "expected", want)
if not np.isclose(got, want, rtol=1e-6, atol=0):
    print("VIOLATION: pooled uint32 counts wrapped (cell (0,0) holds %d frames)" % n0); sys.exit(1)
print("ok")

import sys, os; sys.modules['mpi4py'] = None; sys.path.insert(0, os.getcwd())
os.environ['OMP_NUM_THREADS'] = '2'
import warnings
import numpy as np
import scipy.sparse
import enspara
assert os.path.abspath(enspara.__file__).startswith(os.getcwd()), enspara.__file__
from enspara import tpt

T = np.array([[0.5, 0.5, 0.0],
              [0.5, 0.0, 0.5],
              [0.0, 0.5, 0.5]])
pi = np.full(3, 1 / 3.)
A, B = [0], [2]

# definition from the statement, with q+ from tpt.committors and q- = 1 - q+
q = tpt.committors(T, A, B)
expected = (pi * (1 - q))[:, None] * T * q[None, :]
np.fill_diagonal(expected, 0)
assert np.allclose(tpt.reactive_fluxes(T, A, B, populations=pi), expected)

# the dense container a user gets from  sparse_T.todense()  (or np.matrix(T))
Tm = scipy.sparse.csr_matrix(T).todense()
print("container:", type(Tm))
with warnings.catch_warnings():
    warnings.simplefilter("ignore")
    got = np.asarray(tpt.reactive_fluxes(Tm, A, B, populations=pi))
    got_net = np.asarray(tpt.net_fluxes(Tm, A, B, populations=pi))

print("expected reactive flux (pi_i q-_i T_ij q+_j):\n", expected)
print("reactive_fluxes(np.matrix):\n", got)
print("net_fluxes(np.matrix):\n", got_net)
ok = np.allclose(got, expected) and np.allclose(got_net, np.maximum(expected - expected.T, 0))
if not ok:
    print("VIOLATION: silent wrong values; e.g. flux[0,2]=%g although T[0,2]=0, "
          "total source->sink flux %g instead of %g"
          % (got[0, 2], got_net[0].sum(), np.maximum(expected - expected.T, 0)[0].sum()))
    sys.exit(1)
print("no violation")

import sys, os; sys.modules['mpi4py'] = None; sys.path.insert(0, os.getcwd())
os.environ['OMP_NUM_THREADS'] = '2'
import traceback
import numpy as np
import enspara
assert os.path.realpath(enspara.__file__).startswith(os.path.realpath(os.getcwd())), enspara.__file__
from enspara import ra
from enspara.cards import disorder

rows = [[0, 1, 1, 0], [1], [0, 1]]          # three trajectories of different length, one has a single frame
expected = [[n for n in range(len(r) - 1) if r[n] != r[n + 1]] for r in rows]   # [[0, 2], [], [0]]

# control: same data with the one-frame trajectory lengthened to two equal frames works
ctrl = disorder.transitions(ra.RaggedArray([[0, 1, 1, 0], [1, 1], [0, 1]]))
assert [list(map(int, r)) for r in ctrl] == expected, ctrl
print("control (single-frame row padded to 2 frames):", [list(map(int, r)) for r in ctrl])

try:
    got = disorder.transitions(ra.RaggedArray(rows))
except Exception:
    traceback.print_exc()
    print("VIOLATION: transitions() crashes on a ragged set of state sequences containing a "
          "one-frame trajectory; expected rows %s" % expected)
    sys.exit(1)
got = [list(map(int, r)) for r in got]
if got != expected:
    print("VIOLATION: got %s expected %s" % (got, expected))
    sys.exit(1)
print("no violation")

import sys, os; sys.modules["mpi4py"] = None; sys.path.insert(0, os.getcwd())
os.environ["OMP_NUM_THREADS"] = "2"
import warnings
import numpy as np
import enspara
assert os.path.abspath(enspara.__file__).startswith(os.getcwd()), enspara.__file__
from enspara.info_theory import mutual_info as mi
warnings.simplefilter("ignore")

# joint_counts harmonises dtypes by casting to whichever side has the larger itemsize,
# and on a tie casts X to Y's dtype - a signed<->unsigned reinterpretation.
bad = []

# (a) a negative (invalid) id is silently counted in cell 255 instead of being rejected
X = np.array([[0], [-1], [3]], dtype=np.int8)
Y = np.array([[0], [1], [1]], dtype=np.uint8)
try:
    jc = mi.joint_counts(X, Y, 256, 2)
    bad.append("negative id -1 (int8) was accepted; non-zero cells [a,b,i,j]: %s  (frame 1 landed in state 255)"
               % np.argwhere(jc).tolist())
except AssertionError:
    pass
# control: the same data with matching dtypes is rejected as promised
try:
    mi.joint_counts(X, Y.astype(np.int8), 256, 2)
    raise SystemExit("control failed")
except AssertionError:
    pass

# (b) a perfectly valid uint8 trajectory is rejected as 'negative'
X = np.array([[0], [200], [3]], dtype=np.uint8)
Y = np.array([[0], [1], [1]], dtype=np.int8)
ref = np.zeros((1, 1, 201, 2), dtype=np.int64)
for a, b in zip(X[:, 0], Y[:, 0]):
    ref[0, 0, int(a), int(b)] += 1
try:
    jc = mi.joint_counts(X, Y, 201, 2)
    if not np.array_equal(jc, ref):
        bad.append("valid uint8/int8 pair: wrong table")
except Exception as e:
    bad.append("valid ids (uint8 200 < n_x=201) vs int8 Y -> %s: %s" % (type(e).__name__, e))
# control: swapping the argument order works, so the outcome depends on which side is X
assert np.array_equal(mi.joint_counts(Y, X, 2, 201), ref.transpose(1, 0, 3, 2))

if bad:
    print("VIOLATION: same-width signed/unsigned harmonisation reinterprets ids")
    for b in bad:
        print("  ", b)
    sys.exit(1)
print("ok")

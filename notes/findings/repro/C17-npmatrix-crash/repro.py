import sys, os; sys.modules['mpi4py'] = None; sys.path.insert(0, os.getcwd())
os.environ['OMP_NUM_THREADS'] = '2'
import numpy as np, scipy.sparse, traceback
import enspara
from enspara import tpt
assert os.path.abspath(enspara.__file__).startswith(os.getcwd()), enspara.__file__

# net flux matrix of the project's own test (test_tpt_fluxes.py::test_paths)
nf = np.array([[0.0, 0.5, 0.5, 0.0, 0.0, 0.0],
               [0.0, 0.0, 0.0, 0.3, 0.0, 0.2],
               [0.0, 0.0, 0.0, 0.0, 0.5, 0.0],
               [0.0, 0.0, 0.0, 0.0, 0.0, 0.3],
               [0.0, 0.0, 0.0, 0.0, 0.0, 0.0],
               [0.0, 0.0, 0.0, 0.0, 0.0, 0.0]])
print('ndarray :', tpt.top_path([0], [4, 5], nf))

# docs/source/transition-path-theory.rst:  tpt.top_path(src, snk, nfm.todense())
dense = scipy.sparse.csr_matrix(nf).todense()      # -> numpy.matrix (an ndarray subclass)
print(type(dense), isinstance(dense, np.ndarray))
bad = False
for name, f in [('top_path', lambda: tpt.top_path([0], [4, 5], dense)),
                ('paths', lambda: tpt.paths([0], [4, 5], dense))]:
    try:
        print(name, '(np.matrix) :', f())
    except Exception as e:
        traceback.print_exc()
        print("VIOLATION: %s crashes with %s on the .todense() matrix the docs tell users to pass" % (name, type(e).__name__))
        bad = True
sys.exit(1 if bad else 0)

import sys, os; sys.modules['mpi4py'] = None; sys.path.insert(0, os.getcwd())
os.environ['OMP_NUM_THREADS'] = '2'
import warnings; warnings.filterwarnings('ignore')
import numpy as np
import enspara
assert enspara.__file__.startswith(os.getcwd()), enspara.__file__
from enspara.cluster.kcenters import KCenters, kcenters
from enspara.cluster.hybrid import hybrid


def ref_euclidean(X, y):
    return np.sqrt(((X.astype(np.float64) - y.astype(np.float64)) ** 2).sum(axis=1))


def report(name, X, res):
    bad = []
    k = len(res.center_indices)
    a, d = res.assignments, res.distances
    print(name, ': center_indices', [int(i) for i in res.center_indices], 'labels', a, 'distances', d)
    if a.min() < 0 or a.max() >= k:
        bad.append('labels %s not in [0, %d)' % (a, k))
    D = np.array([ref_euclidean(X, X[int(i)]) for i in res.center_indices])
    own = D[np.clip(a, 0, k - 1), np.arange(len(X))]
    if not np.allclose(own, d, rtol=1e-6):
        bad.append('reported distances %s != true euclidean distances %s' % (d, own))
    for b in bad:
        print('  VIOLATION:', b)
    return len(bad)


nbad = 0
# three distinct int64 points whose coordinates differ by ~8e9 (every true
# distance, <= 1.2e10, is exactly representable as float64)
big = 4 * 10 ** 9
Xi = np.array([[-big, 0], [big, 0], [0, big]], dtype=np.int64)
Xi0 = Xi.copy()
nbad += report('int64   KCenters(n_clusters=1)', Xi, KCenters('euclidean', n_clusters=1).fit(Xi).result_)
nbad += report('int64   kcenters(n_clusters=2)', Xi, kcenters(Xi, 'euclidean', n_clusters=2))
try:
    nbad += report('int64   hybrid(n_clusters=2)  ', Xi, hybrid(Xi, 'euclidean', n_clusters=2, n_iters=1, random_state=0))
except AssertionError:
    import traceback
    nbad += 1
    print('int64   hybrid(n_clusters=2)   :\n  VIOLATION: internal AssertionError at',
          traceback.format_exc().strip().splitlines()[-3].strip(), '/', traceback.format_exc().strip().splitlines()[-2].strip())
# same data as float64 is handled correctly
nbad_f = report('float64 kcenters(n_clusters=2)', Xi.astype(float), kcenters(Xi.astype(float), 'euclidean', n_clusters=2))
assert nbad_f == 0 and np.array_equal(Xi, Xi0)

# float32 points ~3e19 apart (true distance 3e19 << float32 max 3.4e38)
Xf = np.array([[0, 0], [3e19, 0], [1, 1]], dtype=np.float32)
nbad += report('float32 kcenters(n_clusters=1)', Xf, kcenters(Xf, 'euclidean', n_clusters=1))

if nbad:
    print('%d violations: the euclidean metric squares coordinate differences in the '
          'input dtype, so the square overflows (int64 wraps -> NaN/garbage, float32 -> inf)' % nbad)
    sys.exit(1)
print('ok')

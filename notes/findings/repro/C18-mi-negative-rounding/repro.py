import sys, os; sys.modules["mpi4py"] = None; sys.path.insert(0, os.getcwd())
os.environ["OMP_NUM_THREADS"] = "2"
import warnings
import numpy as np
import enspara
assert os.path.abspath(enspara.__file__).startswith(os.getcwd()), enspara.__file__
from enspara.info_theory import mutual_info as mi
warnings.simplefilter("ignore")

# two exactly independent features: a has counts (5, 20), b has counts (10, 10, 5) in every a-slice
X = np.array([[a, b] for a, ca in enumerate([1, 4]) for b, cb in enumerate([2, 2, 1]) for _ in range(ca * cb)])
jc = mi.joint_counts(X, n_x=3)
assert np.array_equal(jc[0, 1, :2, :3], np.outer([1, 4], [2, 2, 1]))
M = mi.mutual_information(jc)
Mn = mi.mi_matrix([X], [X], [2, 3], [2, 3])
W = mi.weighted_mi(X, np.full(len(X), 1 / len(X)), n_feature_states=[2, 3])
print("mutual_information:", M[0, 1], " mi_matrix:", Mn[0, 1], " weighted_mi (clips):", W[0, 1])
if M[0, 1] < 0 or Mn[0, 1] < 0:
    print("VIOLATION (rounding level): mutual information of independent features is negative")
    sys.exit(1)
print("ok")

import sys, os; sys.modules['mpi4py'] = None; sys.path.insert(0, os.getcwd())
os.environ['OMP_NUM_THREADS'] = '2'
import numpy as np
import enspara
assert enspara.__file__.startswith(os.getcwd()), enspara.__file__
from enspara.geometry import libdist

def ref(X, y, p):
    D = X.astype(np.float64) - y.astype(np.float64)     # exact: every float32 is a float64
    return np.sqrt((D * D).sum(1)) if p == 2 else np.abs(D).sum(1)

cases = [
    ('euclidean', 2, [[1e20, 0.0]], [0.0, 0.0]),        # (1e20)^2 overflows float32 -> inf
    ('euclidean', 2, [[3e19, 4e19]], [0.0, 0.0]),       # true norm 5e19
    ('euclidean', 2, [[1e-30, 0.0]], [0.0, 0.0]),       # (1e-30)^2 underflows float32 -> 0 for distinct points
    ('euclidean', 2, [[3e-21, 4e-21]], [0.0, 0.0]),     # squares are float32 denormals -> ~1e-4 relative error
    ('manhattan', 1, [[3e38, 0.0]], [-3e38, 0.0]),      # difference overflows float32 -> inf
    ('manhattan', 1, [[1e8, 0.0]], [1.0, 0.0]),         # 1e8 - 1 rounded to float32 before being stored in float64
]
bad = 0
for name, p, X, y in cases:
    X = np.array(X, dtype=np.float32); y = np.array(y, dtype=np.float32)
    got = getattr(libdist, name)(X, y)
    exp = ref(X, y, p)
    ok = np.allclose(got, exp, rtol=1e-9, atol=0)
    print('%-9s float32 X=%s y=%s -> got %r, expected %r  %s' % (
        name, X.tolist(), y.tolist(), got.tolist(), exp.tolist(), 'ok' if ok else 'WRONG'))
    bad += not ok
# same numbers as float64 input are handled correctly, so the answer depends on the element type
X64 = np.array([[1e20, 0.0]]); y64 = np.zeros(2)
print('float64 control: euclidean ->', libdist.euclidean(X64, y64).tolist())
if bad:
    print('%d of %d float32 inputs give a wrong float64 distance (arithmetic done in single precision)' % (bad, len(cases)))
    sys.exit(1)
print('all correct')

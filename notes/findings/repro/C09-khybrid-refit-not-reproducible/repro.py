import sys, os; sys.modules['mpi4py'] = None; sys.path.insert(0, os.getcwd())
os.environ['OMP_NUM_THREADS'] = '2'
import warnings; warnings.filterwarnings('ignore')
import logging; logging.disable(logging.CRITICAL)
import numpy as np
import enspara
assert enspara.__file__.startswith(os.getcwd()), enspara.__file__
from enspara.cluster import KHybrid

X = np.random.RandomState(3).normal(size=(60, 2))          # 60 distinct points

h = KHybrid('euclidean', n_clusters=5, kmedoids_updates=3, random_state=0)
first = h.fit(X).result_
second = h.fit(X).result_                                   # same object, same data, same seed
fresh = KHybrid('euclidean', n_clusters=5, kmedoids_updates=3, random_state=0).fit(X).result_

def show(tag, r):
    print("%-28s centers %-22s cost %.6f" % (tag, [int(c) for c in r.center_indices], np.mean(r.distances ** 2)))
show("fit #1 (random_state=0):", first)
show("fit #2 on the same object:", second)
show("new object, random_state=0:", fresh)

same12 = (list(first.center_indices) == list(second.center_indices)
          and np.array_equal(first.assignments, second.assignments))
same1f = list(first.center_indices) == list(fresh.center_indices)
print("fit#1 == fresh object:", same1f, "| fit#1 == fit#2:", same12)
if not same12:
    print("VIOLATION: with the seed fixed at 0 the outcome of KHybrid.fit depends on how many times "
          "fit() was called before (the int seed is turned into one shared RandomState in __init__ "
          "and never reset)")
sys.exit(0 if same12 else 1)

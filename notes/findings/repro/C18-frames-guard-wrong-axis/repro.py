import sys, os; sys.modules["mpi4py"] = None; sys.path.insert(0, os.getcwd())
os.environ["OMP_NUM_THREADS"] = "2"
import warnings
import numpy as np
import enspara
assert os.path.abspath(enspara.__file__).startswith(os.getcwd()), enspara.__file__
from enspara.info_theory import mutual_info as mi
warnings.simplefilter("ignore")

# Takes ~20 s and no memory: a zero-stride view stands in for a 2**32+5 frame trajectory
# of one feature that is always in state 0.
T = 2**32 + 5
X = np.broadcast_to(np.zeros((1, 1), dtype=np.int8), (T, 1))
try:
    jc = mi.joint_counts(X, n_x=2)
except AssertionError as e:
    print("rejected (fine):", e); sys.exit(0)
print("frames:", T, " jc[0,0,0,0] =", int(jc[0, 0, 0, 0]), " dtype", jc.dtype)
if int(jc[0, 0, 0, 0]) != T:
    print("VIOLATION: count wrapped modulo 2**32; the guard 'a.shape[1] < 2**32' tests the feature axis, "
          "not the frame axis, so the over-long trajectory was not rejected")
    sys.exit(1)
print("ok")

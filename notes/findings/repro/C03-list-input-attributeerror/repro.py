import os
os.environ["OMP_NUM_THREADS"] = "2"
import sys; sys.modules["mpi4py"] = None; sys.path.insert(0, os.getcwd())
import numpy as np
import enspara
assert os.path.abspath(enspara.__file__).startswith(os.getcwd()), enspara.__file__
from enspara.msm.transition_matrices import assigns_to_counts

from enspara.msm import MSM, builders
trjs = [np.array([0, 1, 1, 2]), np.array([2, 1])]          # the plainest ragged input
expected = assigns_to_counts(np.array([[0, 1, 1, 2], [2, 1, -1, -1]]), 1).toarray()
bad = 0
for name, f in [
    ("assigns_to_counts(list of 1-d arrays)", lambda: assigns_to_counts(trjs, 1).toarray()),
    ("assigns_to_counts(list of lists, rectangular)", lambda: assigns_to_counts([[0, 1, 1], [2, 1, 0]], 1).toarray()),
    ("MSM.fit(list of 1-d arrays)  [docstring: 'assigns : array-like']",
     lambda: MSM(lag_time=1, method=builders.normalize).fit(trjs)),
]:
    try:
        f(); print("ok  ", name)
    except AttributeError as e:
        bad += 1; print("FAIL", name, "-> AttributeError:", e)
if bad:
    print("list input dies with an internal AttributeError on assigns.shape (the 1-d guard), "
          "although every later line only iterates over rows and would work")
    sys.exit(1)

import sys, os; sys.modules['mpi4py'] = None; sys.path.insert(0, os.getcwd())
os.environ['OMP_NUM_THREADS'] = '2'
import tempfile
import numpy as np
import enspara
assert os.path.abspath(enspara.__file__).startswith(os.getcwd()), enspara.__file__
from enspara.msm.transition_matrices import trim_disconnected

# 4-state count matrix: {0,1,3} is the heaviest strongly connected component,
# state 2 is isolated.
C = np.array([[1, 2, 0, 0],
              [2, 1, 0, 1],
              [0, 0, 1, 0],
              [0, 1, 0, 2]])

with tempfile.TemporaryDirectory() as d:
    path = os.path.join(d, 'tcounts.npy')
    np.save(path, C)
    # the usual way to open a big dense count matrix without reading it all
    X = np.load(path, mmap_mode='r')
    assert isinstance(X, np.ndarray) and np.array_equal(X, C)

    ref_map, ref_T = trim_disconnected(C)          # plain ndarray: works
    rc = 0
    for renumber in (True, False):
        try:
            m, T = trim_disconnected(X, renumber_states=renumber)
        except Exception as e:
            print("VIOLATION: trim_disconnected(<np.memmap dense counts>, "
                  "renumber_states=%s) raised %s: %s" %
                  (renumber, type(e).__name__, e))
            rc = 1
            continue
        print("ok", renumber, m, T)
    del X
if rc:
    print("expected mapping", ref_map, "and counts\n", ref_T)
sys.exit(rc)

import sys, os; sys.modules['mpi4py'] = None; sys.path.insert(0, os.getcwd())
os.environ['OMP_NUM_THREADS'] = '2'
import warnings
import numpy as np
import scipy.sparse
from scipy.sparse.csgraph import connected_components

import enspara
assert enspara.__file__.startswith(os.getcwd()), enspara.__file__
from enspara.msm import builders

# 9 states on a line, 100 counts downhill, 1 count uphill per link,
# self counts on the two end states, and ONE observed jump 0 -> 8.
n = 9
C = np.zeros((n, n), dtype=int)
for i in range(n - 1):
    C[i, i + 1] = 100
    C[i + 1, i] = 1
C[0, 0] = C[n - 1, n - 1] = 100
C[0, n - 1] = 1

ncomp, _ = connected_components(scipy.sparse.csr_matrix(C > 0), directed=True,
                                connection='strong')
assert ncomp == 1, "input must be strongly connected"


def loglik(C, T):
    m = C > 0
    with np.errstate(divide='ignore'):
        return float(np.sum(C[m] * np.log(T[m])))


Cf = C.astype(float)
S = Cf + Cf.T
T_transpose = S / S.sum(axis=1, keepdims=True)
L_transpose = loglik(Cf, T_transpose)

# independent reference: Prinz fixed point x_ij = (c_ij + c_ji) / (c_i/x_i + c_j/x_j)
X = S.copy()
ci = Cf.sum(axis=1)
for _ in range(200000):
    q = ci / X.sum(axis=1)
    Xn = S / (q[:, None] + q[None, :])
    done = np.max(np.abs(Xn - X) / np.where(X > 0, X, 1)) < 1e-14
    X = Xn
    if done:
        break
T_ref = X / X.sum(axis=1, keepdims=True)
L_ref = loglik(Cf, T_ref)

failures = []
runs = [('compiled _prinz_mle', lambda: builders._prinz_mle(Cf)),
        ('pure python _prinz_mle_py', lambda: builders._prinz_mle_py(C)),
        ('builders.mle', lambda: builders.mle(C)[1:]),
        ('builders.mle(csr)', lambda: builders.mle(scipy.sparse.csr_matrix(C))[1:])]
for name, run in runs:
    with warnings.catch_warnings(record=True) as w:
        warnings.simplefilter('always')
        T, pi = run()
    if scipy.sparse.issparse(T):
        T = T.toarray()
    conv_warn = [str(x.message) for x in w if 'converge' in str(x.message)]
    L = loglik(Cf, T)
    lost = np.argwhere((C > 0) & (T == 0)).tolist()
    Xe = pi[:, None] * T
    q = ci / Xe.sum(axis=1)
    lhs = Xe * (q[:, None] + q[None, :])          # Prinz: lhs_ij == c_ij + c_ji for all pairs
    print('%-28s convergence warning: %s' % (name, bool(conv_warn)))
    print('   T[0,8] = %r   (reference MLE: %.6g, observed counts C[0,8] = %d)'
          % (T[0, 8], T_ref[0, 8], C[0, 8]))
    print('   log-likelihood = %r ; transpose estimate = %.3f ; reference MLE = %.3f'
          % (L, L_transpose, L_ref))
    print('   Prinz equation for pair (0,8): X_08*(c_0/x_0 + c_8/x_8) = %r, should be %d'
          % (lhs[0, 8], S[0, 8]))
    if not conv_warn and (L < L_transpose - 1e-6 or lost):
        failures.append(name)

if failures:
    print('\nVIOLATION: %s returned, WITHOUT a convergence warning, a model that '
          'assigns probability 0 to an observed transition (0 -> 8): its '
          'log-likelihood is -inf, below that of the transpose-symmetrised '
          'estimate (%.3f), and the Prinz self-consistency equation of the '
          'pair (0,8) is not satisfied.' % (failures, L_transpose))
    sys.exit(1)
print('no violation')

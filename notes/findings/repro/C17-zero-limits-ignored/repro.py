import sys, os; sys.modules['mpi4py'] = None; sys.path.insert(0, os.getcwd())
os.environ['OMP_NUM_THREADS'] = '2'
import numpy as np
import enspara
from enspara import tpt
assert os.path.abspath(enspara.__file__).startswith(os.getcwd()), enspara.__file__

nf = np.array([[0.0, 0.5, 0.5, 0.0, 0.0, 0.0],
               [0.0, 0.0, 0.0, 0.3, 0.0, 0.2],
               [0.0, 0.0, 0.0, 0.0, 0.5, 0.0],
               [0.0, 0.0, 0.0, 0.0, 0.0, 0.3],
               [0.0, 0.0, 0.0, 0.0, 0.0, 0.0],
               [0.0, 0.0, 0.0, 0.0, 0.0, 0.0]])
bad = False
for scheme in ('subtract', 'bottleneck'):
    ps, fs = tpt.paths([0], [4, 5], nf, remove_path=scheme, num_paths=0)
    print(scheme, 'num_paths=0 ->', [p.tolist() for p in ps], fs)
    if len(ps) > 0:
        print("VIOLATION: asked for 0 paths, got %d" % len(ps)); bad = True
sys.exit(1 if bad else 0)

import sys, os; sys.modules['mpi4py'] = None; sys.path.insert(0, os.getcwd())
os.environ['OMP_NUM_THREADS'] = '2'
import traceback
import warnings
import numpy as np
import scipy.sparse
from scipy.sparse.csgraph import connected_components

import enspara
assert enspara.__file__.startswith(os.getcwd()), enspara.__file__
from enspara.msm import builders


def chain(n, fwd, back):
    C = np.zeros((n, n), dtype=int)
    for i in range(n - 1):
        C[i, i + 1] = fwd
        C[i + 1, i] = back
    return C


inputs = {
    '9-state line, 300 counts forward / 1 back per link': chain(9, 300, 1),
    '5-state line, 10000 counts forward / 1 back per link': chain(5, 10000, 1),
    # found by random search: forward counts 72..176, backward counts 1..3
    '11-state line, random forward 72..176 / backward 1..3': np.array(
        [[0, 72, 0, 0, 0, 0, 0, 0, 0, 0, 0],
         [1, 0, 96, 0, 0, 0, 0, 0, 0, 0, 0],
         [0, 2, 0, 102, 0, 0, 0, 0, 0, 0, 0],
         [0, 0, 3, 0, 85, 0, 0, 0, 0, 0, 0],
         [0, 0, 0, 2, 0, 159, 0, 0, 0, 0, 0],
         [0, 0, 0, 0, 3, 0, 96, 0, 0, 0, 0],
         [0, 0, 0, 0, 0, 1, 0, 149, 0, 0, 0],
         [0, 0, 0, 0, 0, 0, 2, 0, 176, 0, 0],
         [0, 0, 0, 0, 0, 0, 0, 2, 0, 86, 0],
         [0, 0, 0, 0, 0, 0, 0, 0, 1, 0, 102],
         [0, 0, 0, 0, 0, 0, 0, 0, 0, 2, 0]]),
}

bad = 0
for label, C in inputs.items():
    ncomp, _ = connected_components(scipy.sparse.csr_matrix(C > 0),
                                    directed=True, connection='strong')
    assert ncomp == 1, "input must be strongly connected"
    # For a line graph every row-stochastic matrix with this support is
    # reversible, so the reversible MLE is simply the row-normalised counts.
    T_exact = C / C.sum(axis=1, keepdims=True)
    print('== %s' % label)
    runs = [('compiled _prinz_mle', lambda: builders._prinz_mle(C.astype(float))),
            ('pure python _prinz_mle_py', lambda: builders._prinz_mle_py(C)),
            ('builders.mle', lambda: builders.mle(C)[1:]),
            ('builders.mle(csr)', lambda: builders.mle(scipy.sparse.csr_matrix(C))[1:])]
    for name, run in runs:
        try:
            with warnings.catch_warnings():
                warnings.simplefilter('ignore')
                T, pi = run()
            if scipy.sparse.issparse(T):
                T = T.toarray()
            print('   %-28s ok, max|T - T_exact| = %.2e' % (name, np.abs(T - T_exact).max()))
        except AssertionError:
            bad += 1
            tb = traceback.format_exc().strip().splitlines()
            print('   %-28s AssertionError at: %s' % (name, tb[-2].strip()))

if bad:
    print('\nVIOLATION: %d calls on strongly connected integer count matrices died with an '
          'internal AssertionError (the "c <= 0 up to rounding" sanity check) instead of '
          'returning a model or a convergence warning. The exact answer exists and is '
          'trivial (row-normalised counts).' % bad)
    sys.exit(1)
print('no violation')

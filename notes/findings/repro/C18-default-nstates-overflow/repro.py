import sys, os; sys.modules["mpi4py"] = None; sys.path.insert(0, os.getcwd())
os.environ["OMP_NUM_THREADS"] = "2"
import warnings
import numpy as np
import enspara
assert os.path.abspath(enspara.__file__).startswith(os.getcwd()), enspara.__file__
from enspara.info_theory import mutual_info as mi
warnings.simplefilter("ignore")

# Default state count (n_x=None -> X.max()+1) is computed in the dtype of X, so it
# wraps when a narrow integer dtype holds its largest value.
bad = []
for dt, top in [(np.int8, 127), (np.uint8, 255), (np.int16, 32767)]:
    X = np.array([[0], [top], [3]], dtype=dt)       # 3 frames, 1 feature, states 0..top
    ref = np.zeros((1, 1, top + 1, top + 1), dtype=np.int64)
    for s in X[:, 0]:
        ref[0, 0, int(s), int(s)] += 1
    try:
        jc = mi.joint_counts(X)                      # statement: exact table with max+1 states
        if not np.array_equal(jc, ref):
            bad.append("%s: wrong table" % np.dtype(dt).name)
    except Exception as e:
        bad.append("joint_counts(%s array holding %d) -> %s: %s" % (np.dtype(dt).name, top, type(e).__name__, e))
    # the same array is fine once n_x is spelled out as a Python int
    assert np.array_equal(mi.joint_counts(X, n_x=top + 1), ref)

# same root cause in weighted_mi's default n_feature_states
F = np.array([[0, 1], [127, 0], [3, 1], [0, 0]], dtype=np.int8)
try:
    mi.weighted_mi(F, np.full(4, .25), normalize=False)
except Exception as e:
    bad.append("weighted_mi(int8 features holding 127) -> %s: %s" % (type(e).__name__, e))

if bad:
    print("VIOLATION: default state counts overflow in the feature dtype")
    for b in bad:
        print("  ", b)
    sys.exit(1)
print("ok")

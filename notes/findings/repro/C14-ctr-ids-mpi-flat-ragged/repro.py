import sys, os; sys.modules['mpi4py'] = None; sys.path.insert(0, os.getcwd())
os.environ['OMP_NUM_THREADS'] = '2'
# C14: kmedoids.ctr_ids_mpi (global frame index -> (rank, local index)) raises ValueError for
# flat global center indices whenever the trajectory lengths are not all equal, so the
# documented MPI warm start of k-medoids (cluster_center_inds=[index, ...]) cannot run.
import threading, traceback, warnings, logging, copy
warnings.simplefilter('ignore'); logging.disable(logging.CRITICAL)
import numpy as np
import enspara
assert os.path.abspath(enspara.__file__).startswith(os.getcwd()), enspara.__file__
import enspara.mpi as empi
from enspara.mpi import ops
from enspara.cluster import kcenters as kc, kmedoids

# ---------------------------------------------------------------- fake MPI world (threads)
_tls = threading.local()
class _Ops: SUM = 'SUM'; MAX = 'MAX'
class FakeComm:
    def __init__(self, n):
        self.n, self.slots, self.bar = n, [None] * n, threading.Barrier(n, timeout=30)
    def _x(self, v):
        self.slots[_tls.rank] = v; self.bar.wait(); got = list(self.slots); self.bar.wait(); return got
    def Barrier(self): self._x(None)
    barrier = Barrier
    def bcast(self, v, root=0): return copy.deepcopy(self._x(v)[int(root)])
    def Bcast(self, buf, root=0):
        got = self._x(np.array(buf, copy=True))
        if _tls.rank != int(root): buf[...] = got[int(root)]
    def allgather(self, v): return copy.deepcopy(self._x(v))
    def allreduce(self, v, op='SUM'):
        got = self._x(v); return max(got) if op == 'MAX' else sum(got[1:], got[0])
def run_world(n, fn):
    comm = FakeComm(n); saved = (empi.rank, empi.size, empi.comm, empi.mpi4py)
    empi.rank, empi.size, empi.comm, empi.mpi4py = (lambda: _tls.rank), (lambda: n), comm, _Ops
    res, err = [None] * n, [None] * n
    def tgt(r):
        _tls.rank = r
        try: res[r] = fn(r)
        except threading.BrokenBarrierError: pass
        except BaseException: err[r] = traceback.format_exc(); comm.bar.abort()
    ths = [threading.Thread(target=tgt, args=(r,)) for r in range(n)]
    [t.start() for t in ths]; [t.join() for t in ths]
    empi.rank, empi.size, empi.comm, empi.mpi4py = saved
    return res, err
# ----------------------------------------------------------------------------------------

def reference(global_inds, lengths, n_ranks):
    """(rank, index into that rank's concatenated data) for round-robin dealt trajectories."""
    starts = np.concatenate([[0], np.cumsum(lengths)])
    out = []
    for g in global_inds:
        t = int(np.searchsorted(starts, g, side='right') - 1)
        r = t % n_ranks
        before = sum(lengths[u] for u in range(r, t, n_ranks))
        out.append((r, int(before + g - starts[t])))
    return out

failed = False

# 1. the conversion routine on its own, two simulated ranks
for lengths in ([4, 4, 4], [3, 4, 5]):
    flat = [0, 5, 10]
    def f(r, lengths=lengths):
        return kmedoids.ctr_ids_mpi(flat, lengths)
    res, err = run_world(2, f)
    if any(err):
        failed = True
        print("ctr_ids_mpi(%s, lengths=%s) on 2 ranks CRASHED: %s" % (flat, lengths, [e for e in err if e][0].strip().splitlines()[-1]))
        print("   expected", reference(flat, lengths, 2))
    else:
        got = [(int(a), int(b)) for a, b in res[0]]
        print("ctr_ids_mpi(%s, lengths=%s) on 2 ranks ->" % (flat, lengths), got, "expected", reference(flat, lengths, 2))
        failed |= got != reference(flat, lengths, 2)

# 2. the documented MPI warm start of k-medoids with flat center indices
lengths = [3, 4, 5]
starts = np.concatenate([[0], np.cumsum(lengths)])
X = np.random.default_rng(1).normal(size=(sum(lengths), 2))
serial = kc.kcenters(X, 'euclidean', n_clusters=3)
flat = [int(c) for c in serial.center_indices]
# serial warm start works:
kmedoids.kmedoids(X, 'euclidean', n_iters=1, assignments=serial.assignments.copy(),
                  distances=serial.distances.copy(), cluster_center_inds=flat, random_state=0)
print("serial kmedoids warm start with cluster_center_inds=%s: ok" % flat)

def rank_main(r):
    sl = [slice(starts[t], starts[t + 1]) for t in range(len(lengths))][r::2]
    return kmedoids.kmedoids(
        np.concatenate([X[s] for s in sl]), 'euclidean', n_iters=1,
        assignments=np.concatenate([serial.assignments[s] for s in sl]),
        distances=np.concatenate([serial.distances[s] for s in sl]),
        cluster_center_inds=flat, X_lengths=lengths, random_state=0)
res, err = run_world(2, rank_main)
if any(err):
    failed = True
    print("2-rank kmedoids warm start with the same flat indices and X_lengths=%s CRASHED:" % lengths)
    print([e for e in err if e][0])
else:
    print("2-rank kmedoids warm start: ok")

if failed:
    print("VIOLATION of C14: local<->global index conversion fails for a non-uniform trajectory length vector")
    sys.exit(1)
print("no violation")

import sys, os; sys.modules["mpi4py"] = None; sys.path.insert(0, os.getcwd())
os.environ["OMP_NUM_THREADS"] = "2"
import warnings; warnings.simplefilter("ignore")
import numpy as np
import enspara
assert enspara.__file__.startswith(os.getcwd()), enspara.__file__
from enspara import ra

def model_rows(res):
    return [np.asarray(res[i]) for i in range(len(res))]

bad = []
def check(label, fn, expected_rows=None, expected_arr=None):
    try:
        got = fn()
    except Exception as e:
        bad.append(label); print("FAIL %s: raised %s: %s" % (label, type(e).__name__, e)); return
    if expected_rows is not None:
        g = [r.tolist() for r in model_rows(got)]
        e = [np.asarray(r).tolist() for r in expected_rows]
        if g != e or [np.asarray(r).dtype for r in model_rows(got)] != [np.asarray(r).dtype for r in expected_rows]:
            bad.append(label); print("FAIL %s: got %s %s, list-of-rows model gives %s %s" % (label, g, [str(np.asarray(r).dtype) for r in model_rows(got)], e, [str(np.asarray(r).dtype) for r in expected_rows])); return
    if expected_arr is not None:
        ga = np.asarray(got); ea = np.asarray(expected_arr)
        if ga.shape != ea.shape or ga.dtype != ea.dtype or ga.tolist() != ea.tolist():
            bad.append(label); print("FAIL %s: got %r (shape %s, dtype %s), model gives %r (shape %s, dtype %s)" % (label, ga.tolist(), ga.shape, ga.dtype, ea.tolist(), ea.shape, ea.dtype)); return
    print("ok   %s" % label)

z = ra.RaggedArray([])          # zero rows; model: rows = []
for label, f, exp in [("len(z)", lambda: len(z), 0), ("list(z)", lambda: list(z), []),
                      ("z.lengths", lambda: z.lengths.tolist(), []),
                      ("z.starts", lambda: z.starts.tolist(), []),
                      ("z.size", lambda: z.size, 0),
                      ("z.flatten()", lambda: z.flatten().tolist(), []),
                      ("z.shape[0]", lambda: z.shape[0], 0),
                      ("z.dtype", lambda: z.dtype is not None, True)]:
    try:
        got = f()
        if got != exp:
            bad.append(label); print("FAIL %s = %r, model gives %r" % (label, got, exp))
        else:
            print("ok   %s" % label)
    except Exception as e:
        bad.append(label); print("FAIL %s raised %s: %s" % (label, type(e).__name__, e))
sys.exit(1 if bad else 0)

import sys, os; sys.modules["mpi4py"] = None; sys.path.insert(0, os.getcwd())
os.environ["OMP_NUM_THREADS"] = "2"
import warnings; warnings.simplefilter("ignore")
import numpy as np; np.set_printoptions(legacy="1.25")
import enspara
assert enspara.__file__.startswith(os.getcwd()), "wrong enspara: %s" % enspara.__file__
from enspara.ra.ra import RaggedArray
problems = []
def run(label, f):
    try:
        return f()
    except Exception as e:
        problems.append("%s raised %s: %s" % (label, type(e).__name__, e))
        return None
def finish():
    for p in problems: print("VIOLATION:", p)
    if not problems: print("no violation observed")
    sys.exit(1 if problems else 0)

# C06: mask read / mask assignment with a mask that selects nothing crashes.
a = RaggedArray([[1, 2, 3], [4, 5]])
mask = a > 100                                   # all False, same row structure
assert not mask.any()
run("a[mask] = 0 (all-False mask; model: no-op)", lambda: a.__setitem__(mask, 0))
r = run("a[mask] (all-False mask; model: empty selection)", lambda: a[mask])
run("a[mask] += 1 (all-False mask; model: no-op)", lambda: a.__setitem__(mask, a[mask] + 1))
if list(a._data) != [1, 2, 3, 4, 5]: problems.append("data changed: %s" % list(a._data))
# one True works, so the failure is specific to the empty selection
b = RaggedArray([[1, 2, 3], [4, 5]]); b[b > 4] = 0
assert list(b._data) == [1, 2, 3, 4, 0]
finish()

import os
os.environ["OMP_NUM_THREADS"] = "2"
import sys; sys.modules["mpi4py"] = None; sys.path.insert(0, os.getcwd())
import numpy as np
import enspara
assert os.path.abspath(enspara.__file__).startswith(os.getcwd()), enspara.__file__
from enspara.msm.transition_matrices import assigns_to_counts

import numbers
a = np.array([[0, 1, 1, 2, 0, 1]])
expected = assigns_to_counts(a, 2).toarray()          # python int lag: fine
bad = 0
for lag in (np.uint8(2), np.uint16(2), np.uint32(2), np.uint64(2)):
    assert isinstance(lag, numbers.Integral) and lag >= 1   # passes the function's own validation
    for sw in (True, False):
        try:
            import warnings
            with warnings.catch_warnings():
                warnings.simplefilter("ignore")
                C = assigns_to_counts(a, lag, sliding_window=sw).toarray()
            if sw and not np.array_equal(C, expected):
                bad += 1; print("WRONG", type(lag).__name__, C)
        except Exception as e:
            bad += 1
            print("FAIL lag=%s(%d) sliding=%s -> %s: %s" % (type(lag).__name__, lag, sw, type(e).__name__, e))
if bad:
    print("an integer lag >= 1 of unsigned numpy type crashes: -lag_time wraps around "
          "(e.g. -np.uint8(2) == 254) so assigns_1d[:-lag_time] is not the lagged slice")
    sys.exit(1)

import sys, os; sys.modules["mpi4py"] = None; sys.path.insert(0, os.getcwd())
os.environ["OMP_NUM_THREADS"] = "2"
import warnings, logging, time
import numpy as np, scipy.sparse as sp
import enspara
assert os.path.realpath(enspara.__file__).startswith(os.path.realpath(os.getcwd())), enspara.__file__
logging.disable(logging.WARNING)
from enspara.msm import builders

warnings.simplefilter("ignore")
# BORDERLINE: scipy's newer "sparse array" classes (csr_array, coo_array, ...), same formats as the *_matrix ones
C = np.array([[3, 1, 0], [2, 5, 1], [1, 0, 4]])
bad = []
for name in ("csr_array", "csc_array", "coo_array", "lil_array", "dok_array", "dia_array", "bsr_array"):
    f = getattr(sp, name)
    for b in ("normalize", "transpose", "mle"):
        try:
            Co, T, pi = getattr(builders, b)(f(C))
            assert isinstance(T, f), type(T)
            assert np.allclose(T.toarray().sum(1), 1) and np.allclose(pi @ T.toarray(), pi)
        except Exception as e:
            bad.append("%s(%s): %s: %s" % (b, name, type(e).__name__, str(e)[:80]))
for line in bad:
    print(line)
if bad:
    print("FAIL (borderline): mle accepts sparse arrays (uses scipy.sparse.issparse) but normalize/transpose do not (use isspmatrix)")
    sys.exit(1)
print("ok")

import sys, os; sys.modules["mpi4py"] = None; sys.path.insert(0, os.getcwd())
os.environ["OMP_NUM_THREADS"] = "2"
import warnings; warnings.simplefilter("ignore")
import numpy as np; np.set_printoptions(legacy="1.25")
import enspara
assert enspara.__file__.startswith(os.getcwd()), "wrong enspara: %s" % enspara.__file__
from enspara.ra.ra import RaggedArray
problems = []
def run(label, f):
    try:
        return f()
    except Exception as e:
        problems.append("%s raised %s: %s" % (label, type(e).__name__, e))
        return None
def finish():
    for p in problems: print("VIOLATION:", p)
    if not problems: print("no violation observed")
    sys.exit(1 if problems else 0)

# C06: element write through a row (the write route pinned by
# test_subragged_data_mapping) is lost when all rows have the same length.
src = np.arange(6)
ragged = RaggedArray(src, lengths=[2, 4])
ragged[1][0] = -1
if int(ragged[1, 0][0]) != -1: problems.append("ragged control failed")   # works (control)

for label, make in [("RaggedArray([[0,1,2],[3,4,5]])", lambda: RaggedArray([[0, 1, 2], [3, 4, 5]])),
                    ("RaggedArray(arange(6), lengths=[3,3])", lambda: RaggedArray(src, lengths=[3, 3]))]:
    a = make()
    a[1][0] = -1                       # model: rows[1][0] = -1
    model_flat = [0, 1, 2, -1, 4, 5]
    if list(a[1]) != [-1, 4, 5]: problems.append("%s: row view %s" % (label, list(a[1])))
    if list(a._data) != model_flat:
        problems.append("%s: after a[1][0] = -1 rows say %s but flat data says %s, a[1,0] = %s, max() = %s"
                        % (label, [list(r) for r in a], list(a._data), a[1, 0], a.max()))
    # history dependence: which value survives depends on the NEXT write
    a1 = make(); a1[1][0] = -1; a1[0, 0] = 9      # tuple write rebuilds rows from flat data
    a2 = make(); a2[1][0] = -1; a2[0] = [9, 1, 2] # row write rebuilds flat data from rows
    if list(a1._data) != list(a2._data):
        problems.append("%s: same model state, different arrays: %s vs %s" % (label, list(a1._data), list(a2._data)))
finish()

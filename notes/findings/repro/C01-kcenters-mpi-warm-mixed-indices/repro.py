import sys, os; sys.modules['mpi4py'] = None; sys.path.insert(0, os.getcwd())
os.environ['OMP_NUM_THREADS'] = '2'
import warnings; warnings.filterwarnings('ignore')
import numpy as np
import enspara
assert enspara.__file__.startswith(os.getcwd()), enspara.__file__
from enspara.cluster.kcenters import KCenters, kcenters
from enspara.cluster.hybrid import KHybrid

# single process (the dummy one-rank communicator), MPI code path selected
# explicitly through the documented `mpi_mode` switch
rng = np.random.default_rng(0)
X = rng.normal(size=(30, 3))
warm = [X[3], X[7]]                       # warm start from two frames of the data

cold = kcenters(X, 'euclidean', n_clusters=4, mpi_mode=True)
print('cold  mpi_mode=True center_indices:', [tuple(map(int, c)) for c in cold.center_indices])

bad = 0
res = KCenters('euclidean', n_clusters=4, mpi_mode=True).fit(X, init_centers=warm).result_
print('warm  mpi_mode=True center_indices:', res.center_indices)
kinds = {hasattr(c, '__len__') for c in res.center_indices}
if len(kinds) != 1:
    bad += 1
    print('VIOLATION: center_indices mixes plain local ints (for the warm-start centers) with '
          '(rank, index) tuples (for the new centers); no single rule maps every reported '
          'index to its center frame')
    for j, (ci, c) in enumerate(zip(res.center_indices, res.centers)):
        try:
            same = np.array_equal(X[ci[1]] if hasattr(ci, '__len__') else X[ci], c)
        except Exception as e:
            same = repr(e)
        print('   center %d index %-28r frame matches under its own convention: %s' % (j, ci, same))

try:
    r = KHybrid('euclidean', n_clusters=4, mpi_mode=True, kmedoids_updates=1,
                random_state=0).fit(X, init_centers=warm).result_
    print('KHybrid warm mpi_mode=True ->', r.center_indices)
except Exception as e:
    bad += 1
    print('VIOLATION: KHybrid(mpi_mode=True).fit(X, init_centers=...) raised',
          type(e).__name__ + ':', e)

if bad:
    sys.exit(1)
print('ok')

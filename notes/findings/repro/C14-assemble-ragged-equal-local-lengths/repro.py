import sys, os; sys.modules['mpi4py'] = None; sys.path.insert(0, os.getcwd())
os.environ['OMP_NUM_THREADS'] = '2'
# C14: assemble_striped_ragged_array (and therefore the reassembly of distributed
# k-centers results in enspara/apps/cluster.py) crashes whenever some rank owns two or
# more trajectories that all have the same length while the global length vector is
# not uniform, e.g. lengths [3, 5, 3, 7] dealt round-robin to 2 ranks.
import threading, traceback, warnings, logging, copy
warnings.simplefilter('ignore'); logging.disable(logging.CRITICAL)
import numpy as np
import enspara
assert os.path.abspath(enspara.__file__).startswith(os.getcwd()), enspara.__file__
import enspara.mpi as empi
from enspara.mpi import ops
from enspara.cluster import kcenters as kc

# ---------------------------------------------------------------- fake MPI world (threads)
_tls = threading.local()
class _Ops: SUM = 'SUM'; MAX = 'MAX'
class FakeComm:
    def __init__(self, n):
        self.n, self.slots, self.bar = n, [None] * n, threading.Barrier(n, timeout=30)
    def _x(self, v):
        self.slots[_tls.rank] = v; self.bar.wait(); got = list(self.slots); self.bar.wait(); return got
    def Barrier(self): self._x(None)
    barrier = Barrier
    def bcast(self, v, root=0): return copy.deepcopy(self._x(v)[int(root)])
    def Bcast(self, buf, root=0):
        got = self._x(np.array(buf, copy=True))
        if _tls.rank != int(root): buf[...] = got[int(root)]
    def allgather(self, v): return copy.deepcopy(self._x(v))
    def allreduce(self, v, op='SUM'):
        got = self._x(v); return max(got) if op == 'MAX' else sum(got[1:], got[0])
def run_world(n, fn):
    comm = FakeComm(n); saved = (empi.rank, empi.size, empi.comm, empi.mpi4py)
    empi.rank, empi.size, empi.comm, empi.mpi4py = (lambda: _tls.rank), (lambda: n), comm, _Ops
    res, err = [None] * n, [None] * n
    def tgt(r):
        _tls.rank = r
        try: res[r] = fn(r)
        except threading.BrokenBarrierError: pass
        except BaseException: err[r] = traceback.format_exc(); comm.bar.abort()
    ths = [threading.Thread(target=tgt, args=(r,)) for r in range(n)]
    [t.start() for t in ths]; [t.join() for t in ths]
    empi.rank, empi.size, empi.comm, empi.mpi4py = saved
    return res, err
# ----------------------------------------------------------------------------------------

def check(lengths, n_ranks):
    lengths = np.array(lengths)
    starts = np.concatenate([[0], np.cumsum(lengths)])
    rng = np.random.default_rng(0)
    X = rng.normal(size=(lengths.sum(), 2))            # tie-free data
    serial = kc.kcenters(X, 'euclidean', n_clusters=3)

    def rank_main(r):
        mine = np.concatenate([X[starts[t]:starts[t + 1]] for t in range(len(lengths))][r::n_ranks])
        res = kc.kcenters(mine, 'euclidean', n_clusters=3, mpi_mode=True)
        # exactly what enspara/apps/cluster.py:main does after clustering in MPI mode
        d = ops.assemble_striped_ragged_array(res.distances, lengths)
        a = ops.assemble_striped_ragged_array(res.assignments, lengths)
        c = ops.convert_local_indices(res.center_indices, lengths)
        return d, a, c

    res, err = run_world(n_ranks, rank_main)
    bad = [e for e in err if e]
    if bad:
        print("lengths=%s on %d ranks: reassembly CRASHED:\n%s" % (lengths.tolist(), n_ranks, bad[0]))
        return False
    for d, a, c in res:
        if not (np.array_equal(a, serial.assignments) and np.allclose(d, serial.distances)
                and [int(x) for x in c] == [int(x) for x in serial.center_indices]):
            print("lengths=%s on %d ranks: reassembled result differs from serial" % (lengths.tolist(), n_ranks))
            return False
    print("lengths=%s on %d ranks: ok (equals serial k-centers)" % (lengths.tolist(), n_ranks))
    return True

ok = True
ok &= check([3, 5, 4, 7], 2)     # control: works
ok &= check([3, 3, 3, 3], 2)     # control: works
ok &= check([3, 5, 3, 7], 2)     # rank 0 owns trajectories of lengths [3, 3]  -> crash
ok &= check([1, 2, 1], 2)        # rank 0 owns [1, 1]                           -> crash
if not ok:
    print("VIOLATION of C14: round-robin reassembly of per-rank arrays fails for an admissible "
          "trajectory length vector; serial k-centers on the same data succeeds.")
    sys.exit(1)
print("no violation")

import sys, os; sys.modules['mpi4py'] = None; sys.path.insert(0, os.getcwd())
os.environ['OMP_NUM_THREADS'] = '2'
import warnings; warnings.simplefilter('ignore')
import tempfile
import numpy as np
import mdtraj as md
import enspara
from enspara.util.load import load_as_concatenated, sound_trajectory
assert enspara.__file__.startswith(os.getcwd()), enspara.__file__


def make_trj(n_frames, n_atoms, seed):
    top = md.Topology(); ch = top.add_chain()
    for i in range(n_atoms):
        top.add_atom('CA', md.element.carbon, top.add_residue('ALA', ch))
    xyz = np.round(np.random.default_rng(seed).random((n_frames, n_atoms, 3)) * 5, 2)
    t = md.Trajectory(xyz.astype(np.float32), top)
    t.unitcell_vectors = np.tile(np.eye(3, dtype=np.float32) * 6, (n_frames, 1, 1))
    return t


d = tempfile.mkdtemp()
bad = []
for ext in ('gro', 'lammpstrj', 'xtc'):      # xtc is the control
    files = []
    for i, n in enumerate([3, 1, 5]):
        f = os.path.join(d, 't%d.%s' % (i, ext)); make_trj(n, 4, i).save(f); files.append(f)
    top = make_trj(1, 4, 0).top
    ref = [md.load(f, top=top, stride=2) for f in files]       # md.load reads them fine
    exp = np.concatenate([t.xyz for t in ref])
    try:
        lengths, xyz = load_as_concatenated(files, processes=2, top=top, stride=2)
        if list(lengths) != [len(t) for t in ref] or not np.array_equal(xyz, exp):
            bad.append(".%s: wrong result" % ext)
    except Exception as e:
        bad.append(".%s: load_as_concatenated raised %r (md.load gives %s frames)"
                   % (ext, e, [len(t) for t in ref]))
    # does supplying the lengths by hand help?
    try:
        lengths, xyz = load_as_concatenated(files, processes=2, top=top, stride=2,
                                            lengths=[len(t) for t in ref])
        assert np.array_equal(xyz, exp)
    except Exception as e:
        bad.append(".%s: even with lengths= given, load_as_concatenated raised %r"
                   % (ext, e))

if bad:
    print("C15 VIOLATED: load_as_concatenated cannot bulk-load formats whose "
          "mdtraj file object has no len()")
    for b in bad:
        print("  -", b)
    sys.exit(1)
print("ok")

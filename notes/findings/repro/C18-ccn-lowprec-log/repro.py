import sys, os; sys.modules["mpi4py"] = None; sys.path.insert(0, os.getcwd())
os.environ["OMP_NUM_THREADS"] = "2"
import warnings
import numpy as np
import enspara
assert os.path.abspath(enspara.__file__).startswith(os.getcwd()), enspara.__file__
from enspara.info_theory import mutual_info as mi
warnings.simplefilter("ignore")

rng = np.random.default_rng(9)
X = rng.integers(0, 3, size=(50, 2))
raw = mi.mutual_information(mi.joint_counts(X, n_x=3))
expected = raw / np.log(3)          # entry (i,j) / log(min(n_i, n_j)), all counts are 3
bad = []
for dt in (np.int8, np.uint8, np.int16, np.uint16, np.int32, np.int64):
    n = np.array([3, 3], dtype=dt)
    got = mi.channel_capacity_normalization(raw, n, n)
    err = np.abs(got - expected).max()
    print("state counts dtype %-6s log dtype %-8s max abs error %.3g" % (np.dtype(dt).name, np.log(n).dtype, err))
    if err > 1e-12:
        bad.append((np.dtype(dt).name, err))
# consequence: weighted_mi builds its default state-count vector as int16, so the
# uniform-weight estimator disagrees with the count-based one at the 1e-8 level
w = np.full(len(X), 1.0 / len(X))
A = mi.weighted_mi(X, w)                       # normalize=True, default n_feature_states
B = mi.mi_matrix([X], [X], 3, 3)               # normalize=True
C = mi.weighted_mi(X, w, normalize=False) / np.log(3)
print("weighted_mi(default) vs mi_matrix: max rel diff %.3g ; un-normalised/np.log(3) vs mi_matrix: %.3g"
      % (np.abs((A - B) / B).max(), np.abs((C - B) / B).max()))
if np.abs((A - B) / B).max() > 1e-12:
    bad.append(("weighted_mi default int16", np.abs((A - B) / B).max()))
if bad:
    print("VIOLATION: normalisation divisor computed in float16/float32:", bad)
    sys.exit(1)
print("ok")

import sys, os; sys.modules["mpi4py"] = None; sys.path.insert(0, os.getcwd())
os.environ["OMP_NUM_THREADS"] = "2"
import warnings; warnings.simplefilter("ignore")
import numpy as np
import enspara
assert enspara.__file__.startswith(os.getcwd()), enspara.__file__
from enspara import ra

def model_rows(res):
    return [np.asarray(res[i]) for i in range(len(res))]

bad = []
def check(label, fn, expected_rows=None, expected_arr=None):
    try:
        got = fn()
    except Exception as e:
        bad.append(label); print("FAIL %s: raised %s: %s" % (label, type(e).__name__, e)); return
    if expected_rows is not None:
        g = [r.tolist() for r in model_rows(got)]
        e = [np.asarray(r).tolist() for r in expected_rows]
        if g != e or [np.asarray(r).dtype for r in model_rows(got)] != [np.asarray(r).dtype for r in expected_rows]:
            bad.append(label); print("FAIL %s: got %s %s, list-of-rows model gives %s %s" % (label, g, [str(np.asarray(r).dtype) for r in model_rows(got)], e, [str(np.asarray(r).dtype) for r in expected_rows])); return
    if expected_arr is not None:
        ga = np.asarray(got); ea = np.asarray(expected_arr)
        if ga.shape != ea.shape or ga.dtype != ea.dtype or ga.tolist() != ea.tolist():
            bad.append(label); print("FAIL %s: got %r (shape %s, dtype %s), model gives %r (shape %s, dtype %s)" % (label, ga.tolist(), ga.shape, ga.dtype, ea.tolist(), ea.shape, ea.dtype)); return
    print("ok   %s" % label)

rows = [np.array([1.5, 2.5, 3.5], dtype=np.float32), np.array([4.5, 5.5, 6.5], dtype=np.float32)]
a = ra.RaggedArray([r.copy() for r in rows])          # nested input, rows happen to have equal length
check("a[0]", lambda: a[0], expected_arr=rows[0])
check("a[1, 0:2]", lambda: a[1, 0:2], expected_arr=rows[1][0:2])
check("list(a)[1]", lambda: list(a)[1], expected_arr=rows[1])
check("a[0:2] rows", lambda: a[0:2], expected_rows=rows[0:2])
check("a[[1, 0]] rows", lambda: a[[1, 0]], expected_rows=[rows[1], rows[0]])
for label, f in [("a.dtype", lambda: a.dtype), ("a[0:2].dtype", lambda: a[0:2].dtype),
                 ("a[[0]].dtype", lambda: a[[0]].dtype)]:
    d = f()
    if d != np.float32:
        bad.append(label); print("FAIL %s = %s, model gives float32" % (label, d))
    else:
        print("ok   %s" % label)
# a single-row array, and an unequal array read through a column list, are affected too
s = ra.RaggedArray([[1, 2, 3]])
check("single row s[0]", lambda: s[0], expected_arr=np.array([1, 2, 3]))
u = ra.RaggedArray([[1, 2, 3], [4, 5, 6, 7], [8, 9]])
check("u[:, [0, 1]] rows", lambda: u[:, [0, 1]], expected_rows=[np.array([1, 2]), np.array([4, 5]), np.array([8, 9])])
check("u[:, 0] rows", lambda: u[:, 0], expected_rows=[np.array([1]), np.array([4]), np.array([8])])
# consequence: the rows handed out are copies, so a[0] and a[0, :] disagree after the row is edited in place
a2 = ra.RaggedArray([[1, 2, 3], [4, 5, 6]])
a2[0][0] = 99
if a2[0][0] != np.ravel(a2[0, 0])[0]:
    bad.append("alias"); print("FAIL after a2[0][0] = 99: a2[0][0] = %r but a2[0, 0] = %r (unequal-length arrays give 99 for both)" % (a2[0][0], a2[0, 0]))
sys.exit(1 if bad else 0)

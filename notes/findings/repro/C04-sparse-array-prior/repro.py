import sys, os; sys.modules["mpi4py"] = None; sys.path.insert(0, os.getcwd())
os.environ["OMP_NUM_THREADS"] = "2"
import warnings, logging
import numpy as np, scipy.sparse as sp
import enspara
assert os.path.realpath(enspara.__file__).startswith(os.path.realpath(os.getcwd())), enspara.__file__
logging.disable(logging.WARNING)
from enspara.msm import builders

# sparse counts + an (n_states, n_states) ndarray of prior counts (the documented "int or array" form)
C = np.array([[3, 1, 0], [2, 5, 1], [1, 0, 4]])
P = np.full((3, 3), 0.5)
bad = []
ref_C = C + P
for name, f in [("csr", sp.csr_matrix), ("csc", sp.csc_matrix), ("coo", sp.coo_matrix), ("lil", sp.lil_matrix),
                ("dok", sp.dok_matrix), ("dia", sp.dia_matrix), ("bsr", sp.bsr_matrix)]:
    # dense reference works
    Cd, Td, pid = builders.mle(C, prior_counts=P)
    try:
        Cs, Ts, pis = builders.mle(f(C), prior_counts=P)
        if not (isinstance(pis, np.ndarray) and not isinstance(pis, np.matrix) and pis.shape == (3,)
                and np.allclose(np.asarray(Ts), Td)):
            bad.append("mle(%s, prior=array): wrong result type/shape %s %s" % (name, type(pis), getattr(pis, 'shape', None)))
    except Exception as e:
        bad.append("mle(%s, prior=array) raised %s: %s" % (name, type(e).__name__, e))
    for b in ("normalize", "transpose"):
        Cs, Ts, pis = getattr(builders, b)(f(C), prior_counts=P)
        for label, out in (("C", Cs), ("T", Ts)):
            if isinstance(out, np.matrix):
                bad.append("%s(%s, prior=array) returned %s as numpy.matrix (scalar prior gives ndarray)" % (b, name, label))
for line in bad:
    print(line)
if bad:
    print("FAIL: %d problems; a dense ndarray input with the same prior works: pi =" % len(bad), pid)
    sys.exit(1)
print("ok")

import sys, os; sys.modules['mpi4py'] = None; sys.path.insert(0, os.getcwd())
os.environ['OMP_NUM_THREADS'] = '2'
import warnings, logging
warnings.simplefilter('ignore'); logging.disable(logging.CRITICAL)
import numpy as np
import mdtraj as md
import enspara
assert enspara.__file__.startswith(os.getcwd()), enspara.__file__
from enspara.geometry.rmsf import rmsf_calc

top = md.Topology(); ch = top.add_chain()
for _ in range(4):
    res = top.add_residue('ALA', ch)
    for nm in ('N', 'CA', 'C'):
        top.add_atom(nm, md.element.carbon, res)
rng = np.random.default_rng(0)
xyz = rng.normal(size=(6, 12, 3)).astype(np.float32)   # 6 cluster centres, 12 atoms
xyz0 = xyz.copy()
centers = md.Trajectory(xyz, top)

failures = []
r1 = rmsf_calc(centers, ref_frame=1)
if not np.array_equal(centers.xyz, xyz0):
    failures.append("rmsf_calc(centers, ref_frame=1) changed centers.xyz in place: "
                    "max coordinate change %.3f nm" % np.abs(centers.xyz - xyz0).max())
if not np.array_equal(xyz, xyz0):
    failures.append("the ndarray the caller wrapped in the Trajectory was "
                    "overwritten as well")
r2 = rmsf_calc(centers, ref_frame=1)
if not np.array_equal(r1, r2):
    failures.append("the same call repeated on the same object returns a "
                    "different RMSF: max |diff| = %.3g" % np.abs(r1 - r2).max())
r3 = rmsf_calc(md.Trajectory(xyz0.copy(), top), ref_frame=1)
assert np.array_equal(r1, r3), "a fresh copy reproduces the first result"

if failures:
    print("C19 VIOLATED:")
    for f in failures:
        print(" -", f)
    sys.exit(1)
print("no violation observed")

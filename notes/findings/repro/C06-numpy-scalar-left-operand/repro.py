import sys, os; sys.modules["mpi4py"] = None; sys.path.insert(0, os.getcwd())
os.environ["OMP_NUM_THREADS"] = "2"
import warnings; warnings.simplefilter("ignore")
import numpy as np; np.set_printoptions(legacy="1.25")
import enspara
assert enspara.__file__.startswith(os.getcwd()), "wrong enspara: %s" % enspara.__file__
from enspara.ra.ra import RaggedArray
problems = []
def run(label, f):
    try:
        return f()
    except Exception as e:
        problems.append("%s raised %s: %s" % (label, type(e).__name__, e))
        return None
def finish():
    for p in problems: print("VIOLATION:", p)
    if not problems: print("no violation observed")
    sys.exit(1 if problems else 0)

# C06: scalar (op) ragged array with a NumPy scalar on the left does not reach
# RaggedArray.__r*__: it raises for ragged rows and returns a bare object
# ndarray for equal-length rows.  Python scalars work.
a = RaggedArray([[1, 2, 3], [4, 5]])
ok = 2 * a
assert type(ok) is RaggedArray and list(ok._data) == [2, 4, 6, 8, 10]
r = run("a.max() - a   (np.int64 - RaggedArray)", lambda: a.max() - a)
if r is not None and (type(r) is not RaggedArray or list(r._data) != [4, 3, 2, 1, 0]):
    problems.append("a.max() - a returned %r" % (r,))
r = run("np.float64(2) * a", lambda: np.float64(2) * a)
r = run("np.int64(2) < a", lambda: np.int64(2) < a)
u = RaggedArray([[1, 2], [4, 5]])
r = run("np.float64(2) * u", lambda: np.float64(2) * u)
if r is not None and type(r) is not RaggedArray:
    problems.append("np.float64(2) * u returned %s %r instead of a RaggedArray with lengths [2, 2]" % (type(r).__name__, r))
r = run("np.int64(4) == u", lambda: np.int64(4) == u)
if r is not None and type(r) is not RaggedArray:
    problems.append("np.int64(4) == u returned %s instead of a RaggedArray" % type(r).__name__)
finish()

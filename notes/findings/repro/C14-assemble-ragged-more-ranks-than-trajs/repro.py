import sys, os; sys.modules['mpi4py'] = None; sys.path.insert(0, os.getcwd())
os.environ['OMP_NUM_THREADS'] = '2'
# C14: assemble_striped_ragged_array raises IndexError on EVERY rank as soon as the world
# has more ranks than there are trajectories (some rank contributes an empty array).
import threading, traceback, warnings, logging, copy
warnings.simplefilter('ignore'); logging.disable(logging.CRITICAL)
import numpy as np
import enspara
assert os.path.abspath(enspara.__file__).startswith(os.getcwd()), enspara.__file__
import enspara.mpi as empi
from enspara.mpi import ops

# ---------------------------------------------------------------- fake MPI world (threads)
_tls = threading.local()
class _Ops: SUM = 'SUM'; MAX = 'MAX'
class FakeComm:
    def __init__(self, n):
        self.n, self.slots, self.bar = n, [None] * n, threading.Barrier(n, timeout=30)
    def _x(self, v):
        self.slots[_tls.rank] = v; self.bar.wait(); got = list(self.slots); self.bar.wait(); return got
    def Barrier(self): self._x(None)
    barrier = Barrier
    def bcast(self, v, root=0): return copy.deepcopy(self._x(v)[int(root)])
    def Bcast(self, buf, root=0):
        got = self._x(np.array(buf, copy=True))
        if _tls.rank != int(root): buf[...] = got[int(root)]
    def allgather(self, v): return copy.deepcopy(self._x(v))
    def allreduce(self, v, op='SUM'):
        got = self._x(v); return max(got) if op == 'MAX' else sum(got[1:], got[0])
def run_world(n, fn):
    comm = FakeComm(n); saved = (empi.rank, empi.size, empi.comm, empi.mpi4py)
    empi.rank, empi.size, empi.comm, empi.mpi4py = (lambda: _tls.rank), (lambda: n), comm, _Ops
    res, err = [None] * n, [None] * n
    def tgt(r):
        _tls.rank = r
        try: res[r] = fn(r)
        except threading.BrokenBarrierError: pass
        except BaseException: err[r] = traceback.format_exc(); comm.bar.abort()
    ths = [threading.Thread(target=tgt, args=(r,)) for r in range(n)]
    [t.start() for t in ths]; [t.join() for t in ths]
    empi.rank, empi.size, empi.comm, empi.mpi4py = saved
    return res, err
# ----------------------------------------------------------------------------------------

lengths = np.array([3, 4])
full = np.array([0.1, 0.2, 0.3, 1.1, 1.2, 1.3, 1.4])          # the serial (whole data set) array
rows = [full[:3], full[3:]]
failed = False
for n in (1, 2, 3):
    def rank_main(r):
        own = rows[r::n]
        local = np.concatenate(own) if own else np.zeros(0)
        return ops.assemble_striped_ragged_array(local, lengths)
    res, err = run_world(n, rank_main)
    for r in range(n):
        if err[r]:
            failed = True
            print("world size %d, rank %d: CRASHED: %s" % (n, r, err[r].strip().splitlines()[-1]))
        elif res[r] is None or not np.array_equal(res[r], full):
            failed = True
            print("world size %d, rank %d: %s (expected %s)" % (n, r, res[r], full))
        else:
            print("world size %d, rank %d: ok" % (n, r))
if failed:
    print("VIOLATION of C14: the striped gather of a ragged array fails with more ranks than trajectories; "
          "expected %s on every rank" % full.tolist())
    sys.exit(1)
print("no violation")

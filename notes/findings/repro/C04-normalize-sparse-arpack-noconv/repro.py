import sys, os; sys.modules["mpi4py"] = None; sys.path.insert(0, os.getcwd())
os.environ["OMP_NUM_THREADS"] = "2"
import warnings, logging, time
import numpy as np, scipy.sparse as sp
import enspara
assert os.path.realpath(enspara.__file__).startswith(os.path.realpath(os.getcwd())), enspara.__file__
logging.disable(logging.WARNING)
from enspara.msm import builders

# NOTE: takes roughly 1.5 minutes, because ARPACK runs its full 100000 restarts before giving up.
# 1000-state biased, lazy random walk on a ring: every state was seen staying 3x, stepping forward 2x,
# stepping backward 1x.  Strongly connected, aperiodic, every row populated, stationary law = uniform.
n = 1000
C = sp.diags([3 * np.ones(n), 2 * np.ones(n - 1), [2], np.ones(n - 1), [1]],
             [0, 1, -(n - 1), -1, n - 1], dtype=float).tocsr()
Cd = C.toarray()
t = time.time()
_, Td, pid = builders.normalize(Cd)
print("dense  : pi stationary to %.1e, max|pi - 1/n| = %.1e  (%.1fs)"
      % (np.abs(pid @ Td - pid).max(), np.abs(pid - 1.0 / n).max(), time.time() - t))
t = time.time()
try:
    _, Ts, pis = builders.normalize(C)
except Exception as e:
    print("sparse : normalize(csr_matrix) raised %s: %s  (%.1fs)" % (type(e).__name__, e, time.time() - t))
    print("FAIL: same counts, dense container works, sparse container crashes")
    sys.exit(1)
err = np.abs(pis @ Td - pis).max()
print("sparse : stationarity error", err)
sys.exit(0 if err < 1e-9 and np.allclose(pis, pid, atol=1e-9) else 1)

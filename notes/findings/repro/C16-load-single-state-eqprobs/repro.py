import os
os.environ["OMP_NUM_THREADS"] = "2"
import sys; sys.modules["mpi4py"] = None; sys.path.insert(0, os.getcwd())
import logging; logging.disable(logging.CRITICAL)
import tempfile
import numpy as np
import scipy.sparse as sp
import enspara
assert enspara.__file__.startswith(os.getcwd()), enspara.__file__
from enspara.msm import MSM, builders, implied_timescales
from enspara.msm.transition_matrices import eigenspectrum


# state 0 is metastable, 1 and 2 are each visited once: ergodic trimming
# leaves a single state.
a = np.array([[1, 0, 0, 0, 0, 0, 0, 2]])
m = MSM(lag_time=1, method=builders.transpose, trim=True)
m.fit(a)
assert m.n_states_ == 1 and m.eq_probs_.shape == (1,)

with tempfile.TemporaryDirectory() as d:
    path = os.path.join(d, 'msm')
    m.save(path)
    m2 = MSM.load(path)

print("fitted eq_probs_:", repr(m.eq_probs_), " loaded eq_probs_:",
      repr(m2.eq_probs_))
bad = 0
if np.shape(m2.eq_probs_) != np.shape(m.eq_probs_):
    print("VIOLATION: eq_probs_ has shape %s after load, %s before save"
          % (np.shape(m2.eq_probs_), np.shape(m.eq_probs_)))
    bad = 1
try:
    m2.eq_probs_[0], len(m2.eq_probs_)
except Exception as e:
    print("VIOLATION: loaded populations are not indexable by state: %r" % e)
    bad = 1
sys.exit(bad)

import sys, os; sys.modules['mpi4py'] = None; sys.path.insert(0, os.getcwd())
os.environ['OMP_NUM_THREADS'] = '2'
import warnings; warnings.filterwarnings('ignore')
import traceback
import numpy as np
import enspara
assert enspara.__file__.startswith(os.getcwd()), enspara.__file__
from enspara.cluster.kmedoids import KMedoids, kmedoids
from enspara.cluster.hybrid import hybrid

X = np.array([[0.0, 0.0], [1.0, 0.0], [5.0, 5.0], [6.0, 5.0], [9.0, 0.0]])
bad = 0

# hybrid() accepts a sweep count of 0 and returns the (consistent) k-centers state
r = hybrid(X, 'euclidean', n_clusters=2, n_iters=0)
print('hybrid(n_iters=0)      ->', list(r.center_indices), r.assignments)

calls = {
    'kmedoids(n_clusters=2, n_iters=0)':
        lambda: kmedoids(X, 'euclidean', n_clusters=2, n_iters=0, random_state=0),
    'kmedoids(cluster_center_inds=[0, 2], n_iters=0)  [warm start]':
        lambda: kmedoids(X, 'euclidean', cluster_center_inds=[0, 2], n_iters=0),
    'KMedoids(n_clusters=2, n_iters=0).fit(X)':
        lambda: KMedoids('euclidean', n_clusters=2, n_iters=0).fit(X).result_,
}
for name, f in calls.items():
    try:
        r = f()
        print(name, '->', list(r.center_indices), r.assignments, r.distances)
    except Exception as e:
        bad += 1
        print('VIOLATION:', name, 'raised', type(e).__name__ + ':', e)
        print('   ', traceback.format_exc().strip().splitlines()[-3].strip())

if bad:
    print('%d k-medoids entry points crash for a sweep count of 0 instead of returning '
          'the assignment to the initial medoids' % bad)
    sys.exit(1)
print('ok')

import sys, os; sys.modules['mpi4py'] = None; sys.path.insert(0, os.getcwd())
os.environ['OMP_NUM_THREADS'] = '2'
import warnings; warnings.simplefilter('ignore')
import copy, tempfile, threading, traceback
import numpy as np
import enspara
from enspara import ra, mpi
assert enspara.__file__.startswith(os.getcwd()), enspara.__file__


class FakeComm:
    """Minimal thread-based stand-in for an MPI communicator."""
    def __init__(self, n):
        self.n = n; self.tls = threading.local()
        self.bar = threading.Barrier(n); self.slots = [None] * n
    def rank(self): return self.tls.rank
    def size(self): return self.n
    def _exchange(self, v):
        self.slots[self.tls.rank] = copy.deepcopy(v)
        self.bar.wait(); out = list(self.slots); self.bar.wait()
        return out
    def bcast(self, v, root=0): return copy.deepcopy(self._exchange(v)[root])
    def Barrier(self): self.bar.wait()


def run_ranks(n, fn):
    comm = FakeComm(n)
    mpi.rank, mpi.size, mpi.comm = comm.rank, comm.size, comm
    results, errors = [None] * n, [None] * n
    def work(r):
        comm.tls.rank = r
        try:
            results[r] = fn()
        except BaseException as e:
            errors[r] = (e, traceback.format_exc(limit=-2))
    ths = [threading.Thread(target=work, args=(r,)) for r in range(n)]
    [t.start() for t in ths]; [t.join(60) for t in ths]
    return results, errors


# a feature file holding 2 trajectories (rows), loaded on 3 ranks
rows = [np.arange(4.), np.arange(6.) + 10]
fn = os.path.join(tempfile.mkdtemp(), 'feat.h5')
ra.save(fn, ra.RaggedArray(rows))

bad = []
for size in (1, 2, 3):
    res, err = run_ranks(size, lambda: mpi.io.load_h5_as_striped(fn, stride=2))
    for r in range(size):
        exp_local = [rw[::2] for rw in rows[r::size]]
        exp = np.concatenate(exp_local) if exp_local else np.empty((0,))
        if err[r] is not None:
            bad.append("size=%d rank=%d raised %r (expected global lengths [2, 3] "
                       "and an empty local block)\n%s" % (size, r, err[r][0], err[r][1]))
            continue
        gl, local = res[r]
        if list(gl) != [2, 3] or not np.array_equal(local, exp):
            bad.append("size=%d rank=%d wrong result %r %r" % (size, r, gl, local))

if bad:
    print("C15 VIOLATED: load_h5_as_striped fails when a rank owns no row")
    for b in bad:
        print("  -", b)
    sys.exit(1)
print("ok")

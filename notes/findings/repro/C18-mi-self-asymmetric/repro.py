import sys, os; sys.modules["mpi4py"] = None; sys.path.insert(0, os.getcwd())
os.environ["OMP_NUM_THREADS"] = "2"
import warnings
import numpy as np
import enspara
assert os.path.abspath(enspara.__file__).startswith(os.getcwd()), enspara.__file__
from enspara.info_theory import mutual_info as mi
warnings.simplefilter("ignore")

# 5 frames, 2 features, 3 states; data set against itself
X = np.array([[0, 0], [0, 1], [0, 2], [0, 2], [1, 0]])
M = mi.mutual_information(mi.joint_counts(X, n_x=3))
Mn = mi.mi_matrix([X], [X], 3, 3)
print("MI[0,1] = %r\nMI[1,0] = %r" % (M[0, 1], M[1, 0]))
bad = []
if M[0, 1] != M[1, 0]:
    bad.append("mutual_information(joint_counts(X)) is not symmetric: diff %.3g" % (M[0, 1] - M[1, 0]))
if not np.array_equal(Mn, Mn.T):
    bad.append("mi_matrix([X],[X]) is not symmetric")
for f in (mi.mi_to_apc, mi.mi_to_nmi, mi.mi_to_nmi_apc):
    try:
        f(M)
    except Exception as e:
        bad.append("%s(MI) -> %s: %s" % (f.__name__, type(e).__name__, e))
# how common: random small data sets
rng = np.random.default_rng(1); n = 0
for _ in range(200):
    Z = rng.integers(0, 4, size=(rng.integers(5, 100), 4))
    Q = mi.mutual_information(mi.joint_counts(Z, n_x=4))
    n += not np.array_equal(Q, Q.T)
print("asymmetric in %d of 200 random data sets" % n)
if bad:
    print("VIOLATION:")
    for b in bad:
        print("  ", b)
    sys.exit(1)
print("ok")

import sys, os; sys.modules['mpi4py'] = None; sys.path.insert(0, os.getcwd())
os.environ['OMP_NUM_THREADS'] = '2'
import warnings; warnings.filterwarnings('ignore')
import numpy as np
import enspara
assert enspara.__file__.startswith(os.getcwd()), enspara.__file__
from enspara.cluster.kcenters import kcenters
from enspara.cluster.kmedoids import KMedoids, kmedoids

rng = np.random.default_rng(0)
lengths = [10, 20]                        # two trajectories, concatenated
X = rng.normal(size=(sum(lengths), 3))

# warm start from frames of the data, named as (trajectory, frame) pairs -
# exactly what ClusterResult.partition(lengths).center_indices hands out
base = kcenters(X, 'euclidean', n_clusters=3).partition(lengths)
pairs = base.center_indices
print('starting medoids (traj, frame):', [tuple(int(v) for v in p) for p in pairs])

r = kmedoids(X, 'euclidean', cluster_center_inds=pairs, X_lengths=lengths, n_iters=1, random_state=0)
print('X_lengths as list    -> ok, centers', [int(i) for i in r.center_indices])

bad = 0
for name, f in {
    'kmedoids(..., X_lengths=np.array(lengths))':
        lambda: kmedoids(X, 'euclidean', cluster_center_inds=pairs, X_lengths=np.array(lengths),
                         n_iters=1, random_state=0),
    'KMedoids().fit(..., X_lengths=np.array(lengths))':
        lambda: KMedoids('euclidean', n_iters=1).fit(
            X, cluster_center_inds=pairs, X_lengths=np.array(lengths)).result_,
}.items():
    try:
        r = f()
        print(name, '-> ok, centers', [int(i) for i in r.center_indices])
    except Exception as e:
        bad += 1
        print('VIOLATION:', name, 'raised', type(e).__name__ + ':', e)
if bad:
    sys.exit(1)
print('ok')

import sys, os; sys.modules['mpi4py'] = None; sys.path.insert(0, os.getcwd())
os.environ['OMP_NUM_THREADS'] = '2'
import warnings; warnings.simplefilter('ignore')
import tempfile, traceback
import numpy as np
import enspara
from enspara import ra
assert enspara.__file__.startswith(os.getcwd()), enspara.__file__

# three rows, the middle one empty (e.g. a trajectory with no event in it)
rows = [np.array([1., 2., 3.]), np.array([]), np.array([4., 5.])]
x = ra.RaggedArray(rows)
assert list(x.lengths) == [3, 0, 2]

fn = os.path.join(tempfile.mkdtemp(), 'x.h5')
try:
    ra.save(fn, x)
    y = ra.load(fn)
except Exception as e:
    print("C15 VIOLATED: ra.save of a ragged array with lengths [3, 0, 2] raised "
          "%r instead of storing it" % (e,))
    traceback.print_exc(limit=-2)
    import tables
    with tables.open_file(fn) as h:
        print("  partial file left behind with nodes:",
              [n.name for n in h.list_nodes('/')])
    sys.exit(1)

ok = (list(y.lengths) == [3, 0, 2] and np.array_equal(y._data, x._data))
if not ok:
    print("C15 VIOLATED: round trip changed the array:", y.lengths, y._data)
    sys.exit(1)
print("ok")

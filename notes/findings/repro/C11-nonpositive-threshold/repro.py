import sys, os; sys.modules['mpi4py'] = None; sys.path.insert(0, os.getcwd())
os.environ['OMP_NUM_THREADS'] = '2'
import numpy as np
import scipy.sparse
import enspara
assert os.path.abspath(enspara.__file__).startswith(os.getcwd()), enspara.__file__
from enspara.msm.transition_matrices import trim_disconnected

# Two states that never exchange a transition.  With threshold=0 every pair
# (i, j) has counts[i, j] >= threshold, so "the strongly connected component
# with respect to counts at or above the threshold" is the whole state space
# and nothing may be trimmed.
C = np.array([[1, 0],
              [0, 5]])

rc = 0
for thr in (0, -1):
    for cont in (np.array, scipy.sparse.csr_matrix):
        for renumber in (True, False):
            m, T = trim_disconnected(cont(C), threshold=thr,
                                     renumber_states=renumber)
            kept = sorted(int(v) for v in m.to_original.values())
            Td = T.toarray() if scipy.sparse.issparse(T) else T
            if kept != [0, 1] or not np.array_equal(Td, C):
                rc = 1
                print("VIOLATION threshold=%d %s renumber=%s: kept %s, counts %s;"
                      " expected kept [0, 1] and the unchanged matrix %s"
                      % (thr, cont.__name__, renumber, kept,
                         Td.tolist(), C.tolist()))
sys.exit(rc)

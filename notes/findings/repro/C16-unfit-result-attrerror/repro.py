import os
os.environ["OMP_NUM_THREADS"] = "2"
import sys; sys.modules["mpi4py"] = None; sys.path.insert(0, os.getcwd())
import logging; logging.disable(logging.CRITICAL)
import tempfile
import numpy as np
import scipy.sparse as sp
import enspara
assert enspara.__file__.startswith(os.getcwd()), enspara.__file__
from enspara.msm import MSM, builders, implied_timescales
from enspara.msm.transition_matrices import eigenspectrum


bad = 0
m1 = MSM(lag_time=1, method='mle')
m2 = MSM(lag_time=1, method='mle')
for name, f in [("result_", lambda: m1.result_),
                ("m1 == m2", lambda: m1 == m2),
                ("repr(m1)", lambda: repr(m1))]:
    try:
        print(name, "->", f())
    except Exception as e:
        print("VIOLATION: %s on an unfitted MSM raised %s: %s"
              % (name, type(e).__name__, e))
        bad = 1
sys.exit(bad)

import sys, os; sys.modules["mpi4py"] = None; sys.path.insert(0, os.getcwd())
os.environ["OMP_NUM_THREADS"] = "2"
import warnings; warnings.simplefilter("ignore")
import numpy as np; np.set_printoptions(legacy="1.25")
import enspara
assert enspara.__file__.startswith(os.getcwd()), "wrong enspara: %s" % enspara.__file__
from enspara.ra.ra import RaggedArray
problems = []
def run(label, f):
    try:
        return f()
    except Exception as e:
        problems.append("%s raised %s: %s" % (label, type(e).__name__, e))
        return None
def finish():
    for p in problems: print("VIOLATION:", p)
    if not problems: print("no violation observed")
    sys.exit(1 if problems else 0)

# C06: appending ONE row given as a flat sequence crashes on a non-empty array
# although append() has an explicit branch for it (new_lengths = [len(values)]).
a = RaggedArray([[1, 2], [3, 4, 5]])
run("a.append([6, 7])", lambda: a.append([6, 7]))
if [list(r) for r in a] != [[1, 2], [3, 4, 5], [6, 7]]:
    problems.append("after a.append([6, 7]) array is %s, model [[1,2],[3,4,5],[6,7]]" % [list(r) for r in a])
b = RaggedArray([[1, 2], [3, 4, 5]])
run("b.append(np.array([6, 7]))", lambda: b.append(np.array([6, 7])))
if list(b.lengths) != [2, 3, 2]: problems.append("lengths after b.append(np.array([6, 7])): %s" % list(b.lengths))
# control: the constructor accepts exactly this spelling for a single row
assert list(RaggedArray([6, 7]).lengths) == [2]
finish()

import sys, os; sys.modules['mpi4py'] = None; sys.path.insert(0, os.getcwd())
os.environ['OMP_NUM_THREADS'] = '2'
import numpy as np
import enspara
from enspara import tpt
assert os.path.abspath(enspara.__file__).startswith(os.getcwd()), enspara.__file__

# Conserved, acyclic net flux 0 -> 5 (in == out at every intermediate node 1..4)
nf = np.zeros((6, 6))
nf[0, 1] = 5; nf[0, 2] = 4; nf[0, 3] = 7
nf[1, 2] = 5
nf[2, 3] = 2; nf[2, 5] = 7
nf[3, 4] = 3; nf[3, 5] = 6
nf[4, 5] = 3
for m in (1, 2, 3, 4):
    assert nf[m].sum() == nf[:, m].sum()
total_out = nf[0].sum()                    # 16, == inflow of the sink
assert total_out == nf[:, 5].sum() == 16

bad = False
for scheme in ('subtract', 'bottleneck'):
    ps, fs = tpt.paths([0], [5], nf, remove_path=scheme)
    print(scheme, [p.tolist() for p in ps], fs, 'sum =', fs.sum(), 'total source outflow =', total_out)
    if fs.sum() > total_out:
        print("VIOLATION (%s): pathway fluxes sum to %g > total outflow of the sources %g "
              "(explained fraction %.4f > 1)" % (scheme, fs.sum(), total_out, fs.sum() / total_out))
        bad = True
sys.exit(1 if bad else 0)

import sys, os; sys.modules["mpi4py"] = None; sys.path.insert(0, os.getcwd())
os.environ["OMP_NUM_THREADS"] = "2"
import warnings, logging, time
import numpy as np, scipy.sparse as sp
import enspara
assert os.path.realpath(enspara.__file__).startswith(os.path.realpath(os.getcwd())), enspara.__file__
logging.disable(logging.WARNING)
from enspara.msm import builders

warnings.simplefilter("ignore")
# 3-state linear chain 0 <-> 1 <-> 2, no self-transitions, strongly unbalanced counts
C = np.array([[0, 17000000, 0],
              [3, 0, 2500000],
              [0, 10, 0]])
# any chain (tree-shaped graph) is reversible, so the reversible MLE is simply the row-normalised matrix:
T_exact = C / C.sum(1, keepdims=True)
ok = True
for name, arg in (("ndarray", C), ("csr_matrix", sp.csr_matrix(C))):
    try:
        Co, T, pi = builders.mle(arg)
        T = T.toarray() if sp.issparse(T) else T
        assert np.allclose(T, T_exact) and np.allclose(pi @ T, pi)
    except AssertionError as e:
        import traceback
        tb = traceback.extract_tb(e.__traceback__)[-1]
        print("mle(%s) raised AssertionError at %s:%d: %s" % (name, os.path.basename(tb.filename), tb.lineno, tb.line))
        ok = False
try:
    builders._prinz_mle(C.astype(float))
except AssertionError:
    print("compiled _mle_prinz_dense raises the same AssertionError")
    ok = False
if not ok:
    print("FAIL: expected T =\n", T_exact)
    sys.exit(1)
print("ok")

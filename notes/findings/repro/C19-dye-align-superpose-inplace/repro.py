import sys, os; sys.modules['mpi4py'] = None; sys.path.insert(0, os.getcwd())
os.environ['OMP_NUM_THREADS'] = '2'
import warnings, logging
warnings.simplefilter('ignore'); logging.disable(logging.CRITICAL)
import numpy as np
import mdtraj as md
import enspara
assert enspara.__file__.startswith(os.getcwd()), enspara.__file__
from enspara.geometry import explicit_r0_calc as r0c

E = md.element


def make_top(resnames, extra=0):
    top = md.Topology(); ch = top.add_chain()
    for k, rn in enumerate(resnames):
        r = top.add_residue(rn, ch, resSeq=k + 1)
        for nm, el in (('N', E.nitrogen), ('CA', E.carbon), ('C', E.carbon),
                       ('O', E.oxygen), ('CB', E.carbon)):
            top.add_atom(nm, el, r)
        for j in range(extra):
            top.add_atom('X%d' % j, E.carbon, r)
    return top


rng = np.random.default_rng(0)
ptop = make_top(['ALA', 'ALA', 'ALA'])
pdb = md.Trajectory(rng.normal(size=(1, ptop.n_atoms, 3)).astype(np.float32), ptop)
dtop = make_top(['DYE'], extra=4)
dye_xyz = rng.normal(size=(5, dtop.n_atoms, 3)).astype(np.float32)
dye_xyz0 = dye_xyz.copy()
dye = md.Trajectory(dye_xyz, dtop)
library = {'mydye': {'CB': ['name CB']}}

failures = []
out1 = np.array(r0c.align_full_dye_to_res(pdb, dye, 2, 'mydye', library))
if not np.array_equal(dye.xyz, dye_xyz0):
    failures.append("align_full_dye_to_res(pdb, dye, ...) overwrote dye.xyz in "
                    "place: max coordinate change %.3f nm"
                    % np.abs(dye.xyz - dye_xyz0).max())
if not np.array_equal(dye_xyz, dye_xyz0):
    failures.append("the caller's raw coordinate ndarray was overwritten too")
out2 = np.array(r0c.align_full_dye_to_res(pdb, dye, 2, 'mydye', library))
if not np.array_equal(out1, out2):
    failures.append("the identical call repeated returns different aligned "
                    "coordinates: max |diff| = %.3g nm" % np.abs(out1 - out2).max())
out3 = np.array(r0c.align_full_dye_to_res(
    pdb, md.Trajectory(dye_xyz0.copy(), dtop), 2, 'mydye', library))
assert np.array_equal(out1, out3), "fresh copy reproduces first result"

if failures:
    print("C19 VIOLATED:")
    for f in failures:
        print(" -", f)
    sys.exit(1)
print("no violation observed")

import os
os.environ["OMP_NUM_THREADS"] = "2"
import sys; sys.modules["mpi4py"] = None; sys.path.insert(0, os.getcwd())
import logging; logging.disable(logging.CRITICAL)
import tempfile
import numpy as np
import scipy.sparse as sp
import enspara
assert enspara.__file__.startswith(os.getcwd()), enspara.__file__
from enspara.msm import MSM, builders, implied_timescales
from enspara.msm.transition_matrices import eigenspectrum


rng = np.random.default_rng(1)
a = rng.integers(0, 4, size=(3, 50))
m = MSM(lag_time=2, method=builders.transpose)
m.fit(a)

with tempfile.TemporaryDirectory() as d:
    path = os.path.join(d, 'msm')
    m.save(path)
    assert MSM.load(path) == m          # first save round-trips

    m2 = MSM(lag_time=3, method=builders.transpose)
    m2.fit(a)
    try:
        m2.save(path, force=True)       # documented: overwrite existing dir
    except Exception as e:
        print("VIOLATION: save(path, force=True) on an existing model "
              "directory raised %r instead of overwriting it" % (e,))
        sys.exit(1)
    if not (MSM.load(path) == m2):
        print("VIOLATION: load after forced save is not the saved model")
        sys.exit(1)
print("ok")

import sys, os; sys.modules['mpi4py'] = None; sys.path.insert(0, os.getcwd())
os.environ['OMP_NUM_THREADS'] = '2'
import warnings; warnings.simplefilter('ignore')
import tempfile
import numpy as np
import mdtraj as md
import enspara
from enspara.util.load import load_as_concatenated
assert enspara.__file__.startswith(os.getcwd()), enspara.__file__


def make_trj(n_frames, n_atoms, seed):
    top = md.Topology(); ch = top.add_chain()
    for i in range(n_atoms):
        top.add_atom('CA', md.element.carbon, top.add_residue('ALA', ch))
    xyz = np.round(np.random.default_rng(seed).random((n_frames, n_atoms, 3)) * 5, 2)
    return md.Trajectory(xyz.astype(np.float32), top)


d = tempfile.mkdtemp()
files = []
for i, n in enumerate([3, 1, 5]):
    f = os.path.join(d, 't%d.h5' % i); make_trj(n, 4, i).save(f); files.append(f)
exp = np.concatenate([md.load(f).xyz for f in files])

# first call: let enspara sound the files; feed the lengths back in the form in
# which enspara's own loaders hand lengths around (an int ndarray, cf.
# mpi.io.load_trajectory_as_striped / RaggedArray.lengths)
lengths, xyz = load_as_concatenated(files, processes=2)
assert np.array_equal(xyz, exp) and list(lengths) == [3, 1, 5]

bad = []
for name, L in [('python ints', [3, 1, 5]),
                ('np.array([3,1,5])', np.array([3, 1, 5])),
                ('[np.int64(3), np.int64(1), np.int64(5)]', [np.int64(3), np.int64(1), np.int64(5)])]:
    try:
        l2, xyz2 = load_as_concatenated(files, lengths=L, processes=2)
        if not np.array_equal(xyz2, exp) or list(l2) != [3, 1, 5]:
            bad.append("lengths=%s: wrong result" % name)
    except Exception as e:
        bad.append("lengths=%s raised %r" % (name, e))

if bad:
    print("C15 VIOLATED: load_as_concatenated with correct lengths given as numpy "
          "integers crashes (python ints work)")
    for b in bad:
        print("  -", b)
    sys.exit(1)
print("ok")
